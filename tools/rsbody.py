#!/usr/bin/env python3
"""Shared machinery of the method-body translators (tools/translate_bufw.py, translate_bufr.py,
translate_bitr.py): a Pratt expression parser and a statement parser for the subset of Rust the
`impls` use, the function locator, and `FnBase`, the typing/emission engine that turns a parsed body
statement by statement (same names, same order) into a Lean term over `Res`.

Fail-closed: only the constructs listed below are understood; anything else raises TranslateError
(`err`).  Each translator derives a class from `FnBase` and supplies the struct-specific parts
(fields, associated constants, backend calls) through the hooks at the top of the class.

  statements   debug_assert!(c)                       -> `dpanic` when violated
               debug_assert_ne!(a, b) / debug_assert_eq!(a, b)
               [#[cfg(feature = "checks")]] assert!(c, ..) -> `panic` when (s.checks and) violated
               #[cfg(test)] <statement>               -> skipped (not compiled into the library)
               let [mut] x [: T] = e;    x = e;   x op= e;   self.<field> likewise
                                                      (op= in  <<= >>= |= &= += -= /= %=)
               let _ = e;                             -> only the effects of e
               if c { .. return Ok(e); }              -> if c then .. else <rest>
               if c { .. } [else { .. }]              -> joined on the variables either branch assigns
               for _ in 0..e { .. }                   -> Dsi.forN   (lean/Dsi/Impl/GenPrelude.lean)
               while c { .. }                         -> Dsi.whileN (fuel supplied by the translator)
               loop { .. return Ok(e); .. }           -> Dsi.loopN  (fuel supplied by the translator;
                                                         exhaustion is `dpanic`); last statement only
               return Ok(e);   Ok(e)
  expressions  << >> | & ! + - / % == != < <= > >= && ||, `as u8|u32|u64|usize|_`, literals,
               paths with turbofish (`BB::<WR>::BITS`), and whatever the hooks accept
"""
import os, sys
sys.path.insert(0, os.path.dirname(os.path.abspath(__file__)))
from rstok import tokenize, match_close, num_value


class Ctx:
    """who is translating: prefix of the error messages, and the exception class"""
    rel = '?'
    TE = Exception


def err(msg):
    raise Ctx.TE('%s: %s' % (Ctx.rel, msg))


# --------------------------------------------------------------------------------------
# source text of a token range (for the comments in the generated file)
# --------------------------------------------------------------------------------------

def tok_text(t):
    k, x = t
    if k == 'num':
        return x.replace(':', '_')
    if k == 'str':
        return '"%s"' % x.replace('\n', '\\n')
    if k == 'char':
        return "'%s'" % x
    return x


def src_text(toks):
    out = ''
    prev = None
    generic = 0            # depth inside a turbofish `::<..>` / a type annotation `: T<..>`
    in_type = False        # between the `:` of a `let x: T` and its `=`
    for t in toks:
        x = tok_text(t)
        if t[0] == 'p' and x == ':':
            in_type = True
        elif t[0] == 'p' and x in ('=', ';', '{'):
            in_type = False
        if t[0] == 'p' and x == '<' and (prev == '::' or in_type or generic):
            generic += 1
            out += x
            prev = x
            continue
        if generic and t[0] == 'p' and x in ('>', '>>'):
            generic = max(0, generic - len(x))
            out += x
            prev = x
            continue
        if generic:
            out += x if prev in ('<', '::') or x in ('::', ',') else ' ' + x
            prev = x
            continue
        if prev is None:
            out = x
        elif x == '..' or prev == '..':
            out += x
        elif x in (';', ',', ')', ']', '.', '?', '::', '(', ':') and not (x == '(' and prev in ('if', 'in', 'return', 'while', '=', '|', '&', '<<', '>>', '+', '-', '/', '%', '==', '!=', '<', '>', '<=', '>=', '|=', '&=', '<<=', '>>=', '-=', '+=', '%=', '/=', ',', '&&', '||', '*')):
            out += x
        elif prev in ('(', '[', '.', '::', '!', '#') and not (prev == '!' and False):
            out += x
        elif x == '!' and t[0] == 'p' and prev and (prev[0].isalpha() or prev[0] == '_') and prev not in ('if', 'return', 'in', 'as', 'while'):
            out += x            # macro bang
        elif x == '[' and prev == '#':
            out += x
        else:
            out += ' ' + x
        prev = x
    return out


# --------------------------------------------------------------------------------------
# parser
# --------------------------------------------------------------------------------------

BINPREC = {
    '*': 11, '/': 11, '%': 11,
    '+': 10, '-': 10,
    '<<': 9, '>>': 9,
    '&': 8, '^': 7, '|': 6,
    '==': 5, '!=': 5, '<': 5, '>': 5, '<=': 5, '>=': 5,
    '&&': 4, '||': 3,
}
ASSIGN_OPS = ('=', '<<=', '>>=', '|=', '&=', '+=', '-=', '/=', '%=', '*=', '^=')
PRIM_TYPES = ('u8', 'u16', 'u32', 'u64', 'u128', 'usize', 'i8', 'i16', 'i32', 'i64', 'i128', 'isize', 'bool')


def angle_skip(toks, i):
    """toks[i] is `<`; index after the matching `>` (`>>` closes two)."""
    depth = 0
    while i < len(toks):
        k, x = toks[i]
        if k == 'p':
            if x == '<':
                depth += 1
            elif x == '>':
                depth -= 1
            elif x == '>>':
                depth -= 2
            elif x in ('{', ';'):
                err('unbalanced generic brackets')
            if depth <= 0:
                if depth < 0:
                    err('unbalanced generic brackets')
                return i + 1
        i += 1
    err('unbalanced generic brackets')


class Parser:
    def __init__(self, toks, what):
        self.t, self.i, self.what = toks, 0, what

    def peek(self, k=0):
        j = self.i + k
        return self.t[j] if j < len(self.t) else ('eof', '')

    def at(self, text, k=0):
        p = self.peek(k)
        return p[1] == text and p[0] in ('p', 'id')

    def eat(self, text):
        if not self.at(text):
            err('%s: expected `%s`, found `%s` (near `%s`)' % (self.what, text, self.peek()[1], src_text(self.t[max(0, self.i - 6):self.i + 3])))
        self.i += 1

    def ident(self):
        k, x = self.peek()
        if k != 'id':
            err('%s: expected an identifier, found `%s`' % (self.what, x))
        self.i += 1
        return x

    def generic_seg(self):
        """at `<` of a turbofish: the text `<..>` as one path segment"""
        a = self.i
        self.i = angle_skip(self.t, self.i)
        return ''.join(x for _, x in self.t[a:self.i])

    # ---- expressions
    def expr(self, minprec=0):
        lhs = self.unary()
        while True:
            k, x = self.peek()
            if k == 'id' and x == 'as':
                if 12 < minprec:
                    break
                self.i += 1
                ty = self.ident()
                if ty not in PRIM_TYPES and ty != '_':
                    err('%s: unsupported cast target `%s`' % (self.what, ty))
                lhs = ('as', lhs, ty)
                continue
            if k == 'p' and x in BINPREC and BINPREC[x] >= minprec:
                prec = BINPREC[x]
                self.i += 1
                rhs = self.expr(prec + 1)
                if prec == 5 and self.peek()[0] == 'p' and BINPREC.get(self.peek()[1]) == 5:
                    err('%s: chained comparison' % self.what)
                lhs = ('bin', x, lhs, rhs)
                continue
            break
        return lhs

    def unary(self):
        k, x = self.peek()
        if k == 'p' and x == '!':
            self.i += 1
            return ('un', '!', self.unary())
        if k == 'p' and x in ('-', '*', '&'):
            err('%s: unsupported unary operator `%s`' % (self.what, x))
        return self.postfix(self.primary())

    def primary(self):
        k, x = self.peek()
        if k == 'num':
            self.i += 1
            parts = x.split(':')
            if '.' in parts[0] or 'e' in parts[0].lower() and not parts[0].startswith('0x'):
                err('%s: float literal' % self.what)
            return ('num', num_value(x), parts[1] if len(parts) > 1 else None)
        if k == 'p' and x == '(':
            self.i += 1
            if self.at(')'):
                self.i += 1
                return ('unit',)
            e = self.expr()
            self.eat(')')
            return ('paren', e)
        if k == 'id':
            if x in ('if', 'match', 'loop', 'while', 'for', 'unsafe', 'move', 'let', 'return', 'break', 'continue'):
                err('%s: `%s` in expression position is not supported' % (self.what, x))
            self.i += 1
            segs = [x]
            while self.at('::'):
                self.i += 1
                if self.at('<') and self.peek()[0] == 'p':
                    segs.append(self.generic_seg())
                else:
                    segs.append(self.ident())
            if self.at('!'):
                err('%s: macro `%s!` in expression position' % (self.what, x))
            if self.at('(') and self.peek()[0] == 'p':
                args = self.args()
                return ('call', segs, args)
            if len(segs) == 1:
                return ('var', x)
            return ('path', segs)
        err('%s: unexpected token `%s` in expression' % (self.what, x))

    def args(self):
        self.eat('(')
        out = []
        while not self.at(')'):
            out.append(self.expr())
            if self.at(','):
                self.i += 1
            elif not self.at(')'):
                err('%s: expected `,` or `)` in argument list' % self.what)
        self.eat(')')
        return out

    def postfix(self, e):
        while True:
            if self.at('.') and self.peek()[0] == 'p':
                self.i += 1
                name = self.ident()
                if self.at('::'):
                    err('%s: turbofish on a method call is not supported' % self.what)
                if self.at('(') and self.peek()[0] == 'p':
                    e = ('mcall', e, name, self.args())
                else:
                    e = ('fld', e, name)
                continue
            if self.at('?') and self.peek()[0] == 'p':
                self.i += 1
                e = ('try', e)
                continue
            if self.at('[') and self.peek()[0] == 'p':
                err('%s: indexing is not supported' % self.what)
            return e

    # ---- statements
    def block(self):
        self.eat('{')
        out = []
        while not self.at('}'):
            out.append(self.stmt())
        self.eat('}')
        return out

    def macro_args(self):
        """the comma-separated expressions of `name!( .. )`; returns (exprs, end position)"""
        self.eat('!')
        if not self.at('('):
            err('%s: macro call without parentheses' % self.what)
        close = match_close(self.t, self.i)
        sub = Parser(self.t[self.i + 1:close], self.what)
        exprs = []
        while sub.i < len(sub.t):
            if sub.peek()[0] == 'str':        # format string: the rest are message arguments
                break
            exprs.append(sub.expr())
            if sub.i < len(sub.t):
                sub.eat(',')
        self.i = close + 1
        return exprs

    def type_text(self):
        """a type annotation up to (not including) `=`: a primitive, or `Name<..>`"""
        name = self.ident()
        if self.at('<') and self.peek()[0] == 'p':
            return name + self.generic_seg()
        return name

    def stmt(self):
        a = self.i
        k, x = self.peek()
        if k == 'p' and x == '#':
            self.eat('#')
            if not self.at('['):
                err('%s: inner attribute' % self.what)
            close = match_close(self.t, self.i)
            attr = [t for t in self.t[self.i + 1:close]]
            self.i = close + 1
            atxt = [(t[0], t[1]) for t in attr]
            if atxt == [('id', 'cfg'), ('p', '('), ('id', 'test'), ('p', ')')]:
                b = self.i
                self.stmt()                     # parsed (so that it is well-formed) and dropped
                return ('skip', src_text(self.t[a:b]) + ' ' + src_text(self.t[b:self.i]))
            if atxt == [('id', 'cfg'), ('p', '('), ('id', 'feature'), ('p', '='), ('str', 'checks'), ('p', ')')]:
                st = self.stmt()
                if st[0] != 'assert' or st[2]:
                    err('%s: #[cfg(feature = "checks")] on something other than a plain assert!' % self.what)
                return ('assert', st[1], True, src_text(self.t[a:self.i]))
            err('%s: unsupported attribute #[%s] on a statement' % (self.what, src_text(attr)))
        if k == 'id' and x in ('debug_assert', 'assert', 'debug_assert_ne', 'debug_assert_eq', 'assert_eq', 'assert_ne') and self.at('!', 1):
            self.i += 1
            ex = self.macro_args()
            self.eat(';')
            s = src_text(self.t[a:self.i])
            if x in ('debug_assert', 'assert'):
                if len(ex) != 1:
                    err('%s: %s! needs one condition' % (self.what, x))
                cond = ex[0]
            else:
                if len(ex) != 2:
                    err('%s: %s! needs two operands' % (self.what, x))
                cond = ('bin', '!=' if x.endswith('_ne') else '==', ex[0], ex[1])
            if x.startswith('debug_'):
                return ('dassert', cond, s)
            return ('assert', cond, False, s)
        if k == 'id' and x == 'let':
            self.i += 1
            if self.at('mut'):
                self.i += 1
            name = self.ident()
            ty = None
            if self.at(':'):
                self.i += 1
                ty = self.type_text()
            self.eat('=')
            if self.at('if'):
                # let x = if c { ..; v } else { ..; v };
                self.i += 1
                cond = self.expr()
                hdr = src_text(self.t[a:self.i]) + ' {'
                th = self.block()
                self.eat('else')
                if self.at('if'):
                    err('%s: `else if` is not supported' % self.what)
                el = self.block()
                self.eat(';')
                return ('let', name, ty, ('ifexpr', cond, th, el), hdr)
            e = self.expr()
            self.eat(';')
            return ('let', name, ty, e, src_text(self.t[a:self.i]))
        if k == 'id' and x == 'if':
            self.i += 1
            cond = self.expr()
            hdr = src_text(self.t[a:self.i]) + ' {'
            th = self.block()
            el = None
            if self.at('else'):
                self.i += 1
                if self.at('if'):
                    err('%s: `else if` is not supported' % self.what)
                el = self.block()
            if self.at(';'):
                self.i += 1
            return ('if', cond, th, el, hdr)
        if k == 'id' and x == 'for':
            self.i += 1
            if not (self.peek() == ('id', '_')):
                err('%s: only `for _ in 0..e` loops are supported' % self.what)
            self.i += 1
            self.eat('in')
            lo = self.expr()                          # stops at `..`, which is not an operator here
            if not (lo[0] == 'num' and lo[1] == 0):
                err('%s: loop range must start at the literal 0' % self.what)
            if not (self.peek() == ('p', '..')):
                err('%s: only half-open ranges `0..e` are supported' % self.what)
            self.i += 1
            hi = self.expr()
            hdr = src_text(self.t[a:self.i]) + ' {'
            body = self.block()
            return ('for', hi, body, hdr)
        if k == 'id' and x == 'while':
            self.i += 1
            if self.at('let'):
                err('%s: `while let` is not supported' % self.what)
            cond = self.expr()
            hdr = src_text(self.t[a:self.i]) + ' {'
            body = self.block()
            return ('while', cond, body, hdr)
        if k == 'id' and x == 'loop':
            self.i += 1
            body = self.block()
            return ('loop', body, 'loop {')
        if k == 'id' and x == 'return':
            self.i += 1
            e = self.expr()
            self.eat(';')
            return ('return', e, src_text(self.t[a:self.i]))
        if k == 'id' and x in ('match', 'unsafe', 'break', 'continue', 'fn', 'use', 'const', 'static'):
            err('%s: `%s` statements are not supported' % (self.what, x))
        e = self.expr()
        k2, x2 = self.peek()
        if k2 == 'p' and x2 in ASSIGN_OPS:
            self.i += 1
            r = self.expr()
            self.eat(';')
            return ('assign', e, x2, r, src_text(self.t[a:self.i]))
        if self.at(';'):
            self.i += 1
            return ('expr', e, src_text(self.t[a:self.i]))
        if self.at('}'):
            return ('tail', e, src_text(self.t[a:self.i]))
        err('%s: cannot parse statement near `%s`' % (self.what, src_text(self.t[a:self.i + 3])))


# --------------------------------------------------------------------------------------
# locating the functions
# --------------------------------------------------------------------------------------

# the only cfg an impl carries in the audited sources (`alloc` is implied by the default feature `std`)
OK_IMPL_CFG = ('cfg ( feature = alloc )',)


def find_impl(toks, needle, descr):
    """(open, close) of the body of the one `impl .. { }` whose header text (tokens joined by a
    blank) contains `needle`"""
    found = []
    i = 0
    while i < len(toks):
        if toks[i] == ('id', 'impl'):
            j = i + 1
            while toks[j][1] != '{' or toks[j][0] != 'p':
                j += 1
            hdr = [x for _, x in toks[i:j]]
            txt = ' '.join(hdr)
            if needle(txt) if callable(needle) else needle in txt:
                # attributes directly before the impl: a cfg would make the whole block conditional (and a
                # differently spelled live copy could exist elsewhere)
                p = i - 1
                if p >= 0 and toks[p] == ('id', 'unsafe'):
                    p -= 1
                while p >= 0 and toks[p] == ('p', ']'):
                    depth, q = 0, p
                    while True:
                        if toks[q] == ('p', ']'):
                            depth += 1
                        elif toks[q] == ('p', '['):
                            depth -= 1
                            if depth == 0:
                                break
                        q -= 1
                    if toks[q - 1] != ('p', '#'):
                        break
                    if (any(t in (('id', 'cfg'), ('id', 'cfg_attr')) for t in toks[q:p])
                            and ' '.join(x for _, x in toks[q + 1:p]) not in OK_IMPL_CFG):
                        err('`%s` is under the attribute #[%s]' % (descr, ' '.join(x for _, x in toks[q + 1:p])))
                    p = q - 2
                found.append((j, match_close(toks, j)))
            i = match_close(toks, j) + 1
            continue
        if toks[i][0] == 'p' and toks[i][1] == '{':
            i = match_close(toks, i) + 1
            continue
        i += 1
    if len(found) != 1:
        err('expected exactly one `%s`, found %d' % (descr, len(found)))
    return found[0]


def find_fn(toks, a, b, name, what, ok_cfg=()):
    """the `fn name` at brace depth 0 within toks[a:b]; returns (sig tokens, body open, body close);
    `ok_cfg`: texts of cfg attributes (tokens joined by a blank) under which the fn may be"""
    found = []
    i = a
    while i < b:
        k, x = toks[i]
        if k == 'p' and x == '{':
            i = match_close(toks, i) + 1
            continue
        if (k, x) == ('id', 'fn') and toks[i + 1] == ('id', name):
            j = i
            while not (toks[j][0] == 'p' and toks[j][1] in ('{', ';')):
                j += 1
            if toks[j][1] == ';':
                err('%s: fn %s has no body' % (what, name))
            # attributes directly before the fn: a cfg would make the body conditional
            p = i - 1
            while p >= a and toks[p] == ('id', 'pub'):
                p -= 1
            while p >= a and toks[p] == ('p', ']'):
                depth, q = 0, p
                while True:
                    if toks[q] == ('p', ']'):
                        depth += 1
                    elif toks[q] == ('p', '['):
                        depth -= 1
                        if depth == 0:
                            break
                    q -= 1
                if toks[q - 1] != ('p', '#'):
                    break
                if (any(t in (('id', 'cfg'), ('id', 'cfg_attr')) for t in toks[q:p])
                        and ' '.join(x for _, x in toks[q + 1:p]) not in ok_cfg):
                    err('%s: fn %s is under a cfg attribute' % (what, name))
                p = q - 2
            found.append((toks[i:j], j, match_close(toks, j)))
            i = found[-1][2] + 1
            continue
        i += 1
    if len(found) != 1:
        err('%s: expected exactly one fn %s, found %d' % (what, name, len(found)))
    return found[0]


def find_assoc_type(toks, a, b, name, what):
    """the token texts T of the one `type name = T;` at brace depth 0 within toks[a:b]"""
    found = []
    i = a
    while i < b:
        k, x = toks[i]
        if k == 'p' and x == '{':
            i = match_close(toks, i) + 1
            continue
        if (k, x) == ('id', 'type') and toks[i + 1] == ('id', name) and toks[i + 2] == ('p', '='):
            j = i + 3
            while toks[j] != ('p', ';'):
                j += 1
            found.append([t for _, t in toks[i + 3:j]])
            i = j
        i += 1
    if len(found) != 1:
        err('%s: expected exactly one `type %s = ..;`, found %d' % (what, name, len(found)))
    return found[0]


def split_params(sig, what):
    """fn NAME [<generics>] ( params ) [-> ..]: ([token-text list per parameter], return-type texts)"""
    i = 2
    if sig[i] == ('p', '<'):
        i = angle_skip(sig, i)
    if sig[i] != ('p', '('):
        err('%s: cannot parse the signature' % what)
    close = match_close(sig, i)
    inner = sig[i + 1:close]
    parts, cur, depth = [], [], 0
    for k, x in inner:
        if k == 'p':
            if x in ('<', '(', '['):
                depth += 1
            elif x in ('>', ')', ']'):
                depth -= 1
            elif x == '>>':
                depth -= 2
        if k == 'p' and x == ',' and depth == 0:
            parts.append(cur)
            cur = []
        else:
            cur.append((k, x))
    if cur:
        parts.append(cur)
    return [[x for _, x in p] for p in parts], [x for _, x in sig[close + 1:]]


def parse_sig(sig, what, receiver_types=(), param_types=None):
    """returns (receiver name, [(param, type)], return-type token texts); the receiver is `&mut self`
    or a parameter of type `&mut T<..>` with T in `receiver_types`"""
    param_types = param_types or {'u64': 'U64', 'usize': 'USZ'}
    parts, ret = split_params(sig, what)
    selfname, params = None, []
    for txt in parts:
        if txt == ['&', 'mut', 'self']:
            selfname = 'self'
            continue
        shown = ' '.join(txt)
        if txt and txt[0] == 'mut':
            txt = txt[1:]
        if len(txt) >= 3 and txt[1] == ':':
            name, ty = txt[0], txt[2:]
            if ty[:2] == ['&', 'mut'] and len(ty) > 2 and ty[2] in receiver_types:
                if selfname is not None:
                    err('%s: two receivers' % what)
                selfname = name
                continue
            if len(ty) == 1 and ty[0] in param_types:
                params.append((name, param_types[ty[0]]))
                continue
        err('%s: unsupported parameter `%s`' % (what, shown))
    if selfname is None:
        err('%s: no `&mut self` receiver' % what)
    return selfname, params, ret


# --------------------------------------------------------------------------------------
# typing and emission
# --------------------------------------------------------------------------------------

BV = {'W': 'W', 'U64': '64', 'U128': '128', 'U32B': '32', 'BB': '(2 * W)'}   # types modelled as BitVec <width>
NATS = ('USZ', 'U32', 'U8')                                   # types modelled as Nat
PRIM2TY = {'u64': 'U64', 'u128': 'U128', 'usize': 'USZ', 'u32': 'U32', 'u8': 'U8'}
LEAN_RESERVED = {'s', 'st', 'r', 'ri', 'rr', 'ws', 'W', 'at', 'do', 'end', 'from', 'fun', 'have', 'show', 'then', 'else', 'if', 'let', 'in',
                 'open', 'section', 'namespace', 'def', 'theorem', 'match', 'with', 'where', 'by', 'Type', 'Prop',
                 'Sort', 'forall', 'exists', 'instance', 'structure', 'class', 'import', 'variable', 'universe',
                 'deriving', 'mutual', 'private', 'protected', 'partial', 'unsafe', 'macro', 'syntax', 'notation',
                 'infix', 'prefix', 'postfix', 'set_option', 'attribute', 'export', 'local', 'using', 'calc', 'Res',
                 'forN', 'BufW', 'BitVec', 'Nat', 'nomatch', 'nofun', 'obtain', 'suffices', 'this',
                 'rw', 'bk', 'whileN', 'loopN', 'Step', 'BufR', 'BitR', 'MemR', 'decide', 'Unit'}


def lean_ty(t):
    if t in BV:
        return 'BitVec %s' % BV[t]
    if t in NATS:
        return 'Nat'
    err('internal: no Lean type for %s' % t)


def lname(n):
    if n in LEAN_RESERVED or n.startswith('_') or not all(c.isalnum() or c == '_' for c in n) or not n.isascii():
        return n + "'"
    return n


def unparen(t):
    """drop a redundant outer pair of parentheses (not those of a type ascription)"""
    if not (t.startswith('(') and t.endswith(')')):
        return t
    depth = 0
    for i, c in enumerate(t):
        if c == '(':
            depth += 1
        elif c == ')':
            depth -= 1
            if depth == 0 and i != len(t) - 1:
                return t
        elif c == ':' and depth == 1 and t[i - 1:i + 2] == ' : ':
            return t
    return t[1:-1]


class FnBase:
    # ---------------- hooks ----------------
    STATE = 'S'                  # Lean type of the state `s`
    STATES = ('s',)              # the state variables threaded through the body, in tuple order
    ALLOW_MUL = False            # `*` (on u64 / usize)
    RET = 'USZ'                  # type of x in `Ok(x)`: a key of BV / NATS, or 'UNIT'

    def field(self, name):
        """(Lean field name, type) of `self.<name>`, or None"""
        return None

    def field_get(self, name):
        """(atomic Lean text, type) of the value of `self.<name>`"""
        f = self.field(name)
        return 's.%s' % f[0], f[1]

    def field_set(self, name, val):
        """Lean text of the state after `self.<name> = val`"""
        return '{ s with %s := %s }' % (self.field(name)[0], val)

    def checks_assert(self, c):
        """the guard line of `#[cfg(feature = "checks")] assert!(c)`"""
        return 'if s.checks = true ∧ ¬%s then Res.panic else' % c

    def path(self, segs):
        """(atomic Lean text, type) of an associated constant, or None"""
        return None

    def method(self, recv, name, args, env, want):
        """(text, type) of `recv.name(args)` for a struct-specific method, or None; `recv` is the
        untranslated receiver expression"""
        return None

    def call(self, segs, args, env, want):
        """(text, type) of a path call `a::b(args)`, or None"""
        return None

    def effects(self, e, env, ind, discard=False):
        """hoist the effectful sub-expressions (`..?`) of `e`: emits their binds and returns `e`
        with each replaced by ('tmp', text, type)"""
        return e

    def touches(self, e):
        """does evaluating `e` change the state?  (a bool, or the set of state variables changed)"""
        return False

    def _st(self, x):
        if x is True:
            return {'s'}
        return set(x) if x else set()

    def states_in(self, selfmod):
        return [x for x in self.STATES if x in selfmod]

    def expr_stmt(self, st, env, ind):
        """emit an expression statement `e;`; returns False if it is not understood"""
        return False

    def fuel(self, kind, env):
        """Lean text of the fuel of the next `while` / `loop`"""
        err('%s: no fuel is configured for this `%s`' % (self.what, kind))

    # ---------------- engine ----------------
    def __init__(self, what, endian, selfname, params):
        self.what, self.endian, self.selfname = what, endian, selfname
        self.order = [p for p, _ in params]      # declaration order of every local ever seen
        self.lines = []
        self.in_loop = False
        self.inferred = {}           # `let x = <untyped literal>`: the type its first typed use gives it
        self.placeholders = []       # such lets not yet resolved in this pass (see `run`)

    def unify(self, ta, tb, op):
        for x, y in ((ta, tb), (tb, ta)):
            if x.startswith('LIT:') and y != 'LIT' and not y.startswith('LIT:'):
                self.inferred[x[4:]] = y
                return y
        if ta == 'LIT':
            return tb
        if tb == 'LIT' or ta == tb:
            return ta
        err('%s: operands of `%s` have different types (%s, %s)' % (self.what, op, ta, tb))

    def lit(self, v, ty):
        if ty == 'LIT':
            return str(v)
        return '(%d : %s)' % (v, lean_ty(ty))

    def is_self(self, e):
        return e == ('var', self.selfname)

    def ex(self, e, env, want=None):
        """(atomic Lean text, type); `want` is the type the context asks for (only used to resolve
        `as _` and target-typed conversions at the top of a `let x: T = ..` / `x = ..`)"""
        k = e[0]
        if k == 'paren':
            return self.ex(e[1], env, want)
        if k == 'tmp':
            return e[1], e[2]
        if k == 'num':
            v, suf = e[1], e[2]
            if suf is None:
                return str(v), 'LIT'
            if suf not in PRIM2TY:
                err('%s: literal suffix %s is not supported' % (self.what, suf))
            return self.lit(v, PRIM2TY[suf]), PRIM2TY[suf]
        if k == 'var':
            n = e[1]
            if n == self.selfname:
                err('%s: bare use of the receiver' % self.what)
            if n not in env:
                err('%s: unknown variable `%s`' % (self.what, n))
            return lname(n), env[n]
        if k == 'fld':
            if self.is_self(e[1]):
                if self.field(e[2]) is not None:
                    return self.field_get(e[2])
            err('%s: unsupported field access `.%s`' % (self.what, e[2]))
        if k == 'path':
            r = self.path(e[1])
            if r is not None:
                return r
            segs = e[1]
            if segs == ['u64', 'MAX']:
                return '(BitVec.allOnes 64)', 'U64'
            if segs == ['u64', 'BITS']:
                return '(64 : Nat)', 'U32'
            err('%s: unsupported path `%s`' % (self.what, '::'.join(segs)))
        if k == 'un':
            t, ty = self.ex(e[2], env)
            if ty in BV:
                return '(~~~%s)' % t, ty
            if ty == 'BOOL':
                return '(¬%s)' % t, ty
            err('%s: `!` applied to a value of type %s' % (self.what, ty))
        if k == 'as':
            t, ty = self.ex(e[1], env)
            to = e[2]
            if to == '_':
                if want is None:
                    err('%s: `as _` where the target type is not given by an annotation' % self.what)
                tt = want
            elif to not in PRIM2TY:
                err('%s: cast to %s is not supported' % (self.what, to))
            else:
                tt = PRIM2TY[to]
            if ty == 'LIT':
                return self.lit(int(t), tt), tt
            if ty == tt:
                return t, tt
            if ty in NATS and tt == 'U64':
                return '(BitVec.ofNat 64 %s)' % t, tt
            if ty in NATS and tt == 'U128':
                return '(BitVec.ofNat 128 %s)' % t, tt
            if ty == 'USZ' and tt == 'U32':
                return '(%s %% 4294967296)' % t, tt
            if ty == 'U32' and tt == 'USZ':
                return t, tt
            if ty in ('U64', 'U128') and tt == 'USZ':      # 64-bit usize
                if ty == 'U128':
                    return '(%s.toNat %% 18446744073709551616)' % t, tt
                return '%s.toNat' % t, tt
            if ty in ('U64', 'U128') and tt == 'U32':
                return '(%s.toNat %% 4294967296)' % t, tt
            if ty in ('U64', 'U128') and tt in ('U64', 'U128'):
                return '(%s.setWidth %s)' % (t, BV[tt]), tt
            if ty == 'U64' and tt == 'U32B':
                return '(%s.setWidth 32)' % t, tt
            err('%s: cast from %s to %s is not supported' % (self.what, ty, to))
        if k == 'bin':
            op = e[1]
            if op in ('<<', '>>'):
                l, tl = self.ex(e[2], env)
                r, tr = self.ex(e[3], env)
                if tl not in BV:
                    err('%s: shift of a value of type %s' % (self.what, tl))
                if tr in BV:
                    r = '%s.toNat' % r
                elif tr not in NATS and tr != 'LIT':
                    err('%s: shift amount of type %s' % (self.what, tr))
                return '(%s %s %s)' % (l, '<<<' if op == '<<' else '>>>', r), tl
            if op in ('&&', '||'):
                l, tl = self.ex(e[2], env)
                r, tr = self.ex(e[3], env)
                if tl != 'BOOL' or tr != 'BOOL':
                    err('%s: `%s` on non-boolean operands' % (self.what, op))
                return '(%s %s %s)' % (l, '∧' if op == '&&' else '∨', r), 'BOOL'
            if op == '^' or (op == '*' and not self.ALLOW_MUL):
                err('%s: operator `%s` is not supported' % (self.what, op))
            l, tl = self.ex(e[2], env)
            r, tr = self.ex(e[3], env)
            t = self.unify(tl, tr, op)
            if t == 'LIT':
                err('%s: `%s` between two untyped literals' % (self.what, op))
            if t == 'BOOL':
                err('%s: `%s` on booleans' % (self.what, op))
            if op in ('==', '!=', '<', '>', '<=', '>='):
                lo = {'==': '=', '!=': '≠', '<': '<', '>': '>', '<=': '≤', '>=': '≥'}[op]
                return '(%s %s %s)' % (l, lo, r), 'BOOL'
            if op in ('&', '|'):
                if t not in BV:
                    err('%s: `%s` on %s' % (self.what, op, t))
                return '(%s %s %s)' % (l, '&&&' if op == '&' else '|||', r), t
            if op in ('+', '-', '/', '%', '*'):
                if t in ('U32', 'U8') and op not in ('/', '%'):
                    # u32 / u8 values are `Nat`s: `+ - *` could leave the type (overflow), `/` and `%` cannot
                    err('%s: %s arithmetic is not supported' % (self.what, t.lower()))
                return '(%s %s %s)' % (l, op, r), t
            err('%s: operator `%s` is not supported' % (self.what, op))
        if k == 'mcall':
            name, args = e[2], e[3]
            r = self.method(e[1], name, args, env, want)
            if r is not None:
                return r
            if name in ('to_be', 'to_le'):
                err('%s: .%s() in an unsupported position' % (self.what, name))
            t, ty = self.ex(e[1], env)
            if name == 'rotate_right' and len(args) == 1:
                a, ta = self.ex(args[0], env)
                if ty not in BV or ta not in ('U32', 'LIT'):
                    err('%s: rotate_right(%s) on %s' % (self.what, ta, ty))
                return '(%s.rotateRight %s)' % (t, a), ty
            if name == 'wrapping_sub' and len(args) == 1:
                a, ta = self.ex(args[0], env)
                if ty not in BV or self.unify(ty, ta, 'wrapping_sub') != ty:
                    err('%s: wrapping_sub on %s' % (self.what, ty))
                return '(%s - %s)' % (t, a), ty
            err('%s: unsupported method `.%s(..)`' % (self.what, name))
        if k == 'call':
            r = self.call(e[1], e[2], env, want)
            if r is not None:
                return r
            err('%s: unsupported call `%s(..)` in expression position' % (self.what, '::'.join(e[1])))
        if k == 'try':
            err('%s: `?` in an unsupported position' % self.what)
        if k == 'unit':
            err('%s: `()` in expression position' % self.what)
        err('%s: unsupported expression' % self.what)

    def typed(self, e, env, want, ctx):
        t, ty = self.ex(e, env, want if want != 'BOOL' else None)
        if ty == 'LIT':
            if want == 'BOOL':
                err('%s: literal where a condition is expected' % self.what)
            return t
        if ty != want:
            err('%s: %s has type %s, expected %s' % (self.what, ctx, ty, want))
        return t

    def ret_text(self, e, env, ind):
        """the outcome of `return Ok(x)` / a tail `Ok(x)`"""
        if e[0] != 'call' or e[1] != ['Ok'] or len(e[2]) != 1:
            err('%s: only `Ok(e)` can be returned' % self.what)
        arg = e[2][0]
        if self.RET == 'UNIT':
            if arg != ('unit',):
                err('%s: `Ok(())` expected' % self.what)
            payload = 's' if len(self.STATES) == 1 else '(%s)' % ', '.join(self.STATES)
        else:
            if arg == ('unit',):
                err('%s: `Ok(())` in a function returning a value' % self.what)
            arg = self.effects(arg, env, ind)
            payload = '(%s, %s)' % (unparen(self.typed(arg, env, self.RET, 'the returned value')), ', '.join(self.STATES))
        if self.in_loop:
            return 'Res.ok (Step.ret %s)' % payload
        return 'Res.ok %s' % payload

    # ---- which outer variables does a block assign?
    def assigned(self, stmts, local=frozenset()):
        names, selfmod = set(), set()
        local = set(local)
        for st in stmts:
            k = st[0]
            if k == 'let' and st[3][0] == 'ifexpr':
                local.add(st[1])
                selfmod |= self._st(self.touches(st[3][1]))
                for blk in (st[3][2], st[3][3]):
                    n2, s2 = self.assigned(blk, local)
                    names |= n2
                    selfmod |= s2
            elif k == 'let':
                local.add(st[1])
                selfmod |= self._st(self.touches(st[3]))
            elif k == 'assign':
                lhs = st[1]
                if lhs[0] == 'var':
                    if lhs[1] not in local:
                        names.add(lhs[1])
                elif lhs[0] == 'fld' and self.is_self(lhs[1]):
                    selfmod.add('s')
                else:
                    err('%s: unsupported assignment target' % self.what)
                selfmod |= self._st(self.touches(st[3]))
            elif k == 'expr':
                selfmod |= self._st(self.touches(st[1]))
            elif k in ('return', 'tail'):
                selfmod |= self._st(self.touches(st[1]))
            elif k == 'if':
                selfmod |= self._st(self.touches(st[1]))
                for blk in (st[2], st[3] or []):
                    n2, s2 = self.assigned(blk, local)
                    names |= n2
                    selfmod |= s2
            elif k in ('for', 'while'):
                selfmod |= self._st(self.touches(st[1]))
                n2, s2 = self.assigned(st[2], local)
                names |= n2
                selfmod |= s2
            elif k == 'loop':
                n2, s2 = self.assigned(st[1], local)
                names |= n2
                selfmod |= s2
        return names, selfmod

    def pack(self, stmts, env):
        """the tuple of outer variables assigned in `stmts`: ([rust names], has_self)"""
        names, selfmod = self.assigned(stmts)
        for n in names:
            if n not in env:
                err('%s: assignment to unknown variable `%s`' % (self.what, n))
        vs = [n for n in self.order if n in names]
        if not vs and not selfmod:
            err('%s: block without any effect' % self.what)
        return vs, selfmod

    def tuple_text(self, vs, selfmod):
        comps = [lname(v) for v in vs] + self.states_in(selfmod)
        return comps[0] if len(comps) == 1 else '(' + ', '.join(comps) + ')'

    def unpack_lines(self, vs, selfmod, ind):
        comps = [lname(v) for v in vs] + self.states_in(selfmod)
        if len(comps) == 1:
            return [], comps[0]
        out = []
        for i, c in enumerate(comps):
            proj = 'st' + '.2' * i + ('.1' if i < len(comps) - 1 else '')
            out.append('%slet %s := %s' % (ind, c, proj))
        return out, 'st'

    # ---- statements
    def emit(self, stmts, i, env, ind, fall, can_return):
        L = self.lines
        if i == len(stmts):
            if fall is None:
                err('%s: the body does not end in `Ok(..)`' % self.what)
            if isinstance(fall, tuple):
                err('%s: a branch of a `let x = if ..` has no value' % self.what)
            L.append(ind + fall)
            return
        st = stmts[i]
        k = st[0]
        last = i == len(stmts) - 1
        nxt = lambda env2=env: self.emit(stmts, i + 1, env2, ind, fall, can_return)
        if k == 'skip':
            L.append('%s-- (not compiled into the library) %s' % (ind, st[1]))
            return nxt()
        if k == 'dassert':
            L.append('%s-- %s' % (ind, st[2]))
            c = self.typed(st[1], env, 'BOOL', 'the asserted condition')
            L.append('%sif ¬%s then Res.dpanic else' % (ind, c))
            return nxt()
        if k == 'assert':
            L.append('%s-- %s' % (ind, st[3]))
            c = self.typed(st[1], env, 'BOOL', 'the asserted condition')
            if st[2]:
                L.append('%s%s' % (ind, self.checks_assert(c)))
            else:
                L.append('%sif ¬%s then Res.panic else' % (ind, c))
            return nxt()
        if k == 'let':
            L.append('%s-- %s' % (ind, st[4]))
            name, ann = st[1], st[2]
            want = None
            if ann is not None:
                want = self.ann_type(ann)
            if name == '_':
                self.effects(st[3], env, ind, discard=True)
                return nxt()
            if st[3][0] == 'ifexpr':
                _, cond, th, el = st[3]
                if self.touches(cond):
                    err('%s: effectful condition' % self.what)
                c = unparen(self.typed(cond, env, 'BOOL', 'the condition'))
                vs, selfmod = self.assigned(th + el)
                if vs:
                    err('%s: a branch of `let %s = if ..` assigns outer variables' % (self.what, name))
                slot = {'want': want, 'self': selfmod, 'ty': None}
                L[-1] = '%s-- %s' % (ind, st[4])
                L.append('%sRes.bind (if %s then (' % (ind, c))
                self.emit(th, 0, env, ind + '    ', ('value', slot), False)
                L[-1] += ')'
                L.append('%s  else (' % ind)
                L.append('%s    -- } else {' % ind)
                self.emit(el, 0, env, ind + '    ', ('value', slot), False)
                ty = slot['ty']
                if name not in self.order:
                    self.order.append(name)
                if selfmod:
                    L[-1] += ')) fun st =>'
                    L.append('%s-- };' % ind)
                    L.append('%slet %s : %s := st.1' % (ind, lname(name), lean_ty(ty)))
                    sts = self.states_in(selfmod)
                    for j, c in enumerate(sts):
                        L.append('%slet %s := st.2%s' % (ind, c, '.2' * j + ('.1' if j < len(sts) - 1 else '')))
                else:
                    L[-1] += ')) fun %s =>' % lname(name)
                    L.append('%s-- };' % ind)
                env2 = dict(env)
                env2[name] = ty
                return nxt(env2)
            init = self.effects(st[3], env, ind)
            t, ty = self.ex(init, env, want)
            if want is not None:
                if ty == 'LIT':
                    t, ty = self.lit(int(t), want), want
                elif ty != want:
                    err('%s: let %s: %s = <%s>' % (self.what, name, ann, ty))
            if ty == 'LIT' and name in self.inferred:
                ty = self.inferred[name]
                t = self.lit(int(t), ty)
            if ty == 'BOOL' or ty.startswith('LIT:'):
                err('%s: cannot infer an integer type for `let %s`' % (self.what, name))
            if name == self.selfname:
                err('%s: shadowing the receiver' % self.what)
            if name not in self.order:
                self.order.append(name)
            if ty == 'LIT':
                # resolved by a later use (`unify`); the translators re-run the emission then
                self.placeholders.append(name)
                ty = 'LIT:' + name
                L.append('%slet %s := %s' % (ind, lname(name), unparen(t)))
            else:
                L.append('%slet %s : %s := %s' % (ind, lname(name), lean_ty(ty), unparen(t)))
            env2 = dict(env)
            env2[name] = ty
            return nxt(env2)
        if k == 'assign':
            L.append('%s-- %s' % (ind, st[4]))
            lhs, op, rhs = st[1], st[2], st[3]
            if lhs[0] not in ('var', 'fld'):
                err('%s: unsupported assignment target' % self.what)
            rhs = self.effects(rhs, env, ind)
            cur, ty = self.ex(lhs, env)
            if op == '=':
                val = unparen(self.typed(rhs, env, ty, 'the assigned value'))
            else:
                bop = op[:-1]
                if bop == '^' or (bop == '*' and not self.ALLOW_MUL):
                    err('%s: operator `%s` is not supported' % (self.what, op))
                val, ty2 = self.ex(('bin', bop, lhs, rhs), env)
                if ty2 != ty:
                    err('%s: `%s` changes the type' % (self.what, op))
                val = unparen(val)
            if lhs[0] == 'var':
                L.append('%slet %s : %s := %s' % (ind, lname(lhs[1]), lean_ty(ty), val))
            else:
                L.append('%slet s : %s := %s' % (ind, self.STATE, self.field_set(lhs[2], val)))
            return nxt()
        if k == 'expr':
            if not self.expr_stmt(st, env, ind):
                err('%s: unsupported expression statement `%s`' % (self.what, st[2]))
            return nxt()
        if k == 'tail' and isinstance(fall, tuple):
            slot = fall[1]
            L.append('%s-- %s' % (ind, st[2]))
            v = self.effects(st[1], env, ind)
            t, ty = self.ex(v, env, slot['want'])
            if ty in ('LIT', 'BOOL') or ty.startswith('LIT:'):
                err('%s: cannot type the value `%s`' % (self.what, st[2]))
            if slot['want'] is not None and ty != slot['want']:
                err('%s: the value `%s` has type %s, expected %s' % (self.what, st[2], ty, slot['want']))
            if slot['ty'] is not None and slot['ty'] != ty:
                err('%s: the branches have different types (%s, %s)' % (self.what, slot['ty'], ty))
            slot['ty'] = ty
            L.append('%sRes.ok %s' % (ind, '(%s, %s)' % (unparen(t), ', '.join(self.states_in(slot['self']))) if slot['self'] else t))
            return
        if k in ('return', 'tail'):
            if not last:
                err('%s: statements after `%s`' % (self.what, st[2]))
            if not can_return:
                err('%s: `%s` inside a loop or a joined branch' % (self.what, st[2]))
            if k == 'tail' and (fall is not None or self.in_loop):
                err('%s: value expression `%s` at the end of an inner block' % (self.what, st[2]))
            L.append('%s-- %s' % (ind, st[2]))
            L.append('%s%s' % (ind, self.ret_text(st[1], env, ind)))
            return
        if k == 'if':
            cond, th, el, hdr = st[1], st[2], st[3], st[4]
            if self.touches(cond):
                err('%s: effectful condition' % self.what)
            c = unparen(self.typed(cond, env, 'BOOL', 'the condition'))
            diverges = bool(th) and th[-1][0] == 'return'
            if diverges and el is None and can_return:
                L.append('%s-- %s' % (ind, hdr))
                L.append('%sif %s then (' % (ind, c))
                self.emit(th, 0, env, ind + '  ', None, True)
                L[-1] += ')'
                L.append('%selse' % ind)
                L.append('%s-- }' % ind)
                return nxt()
            both = th + (el or [])
            vs, selfmod = self.pack(both, env)
            tup = self.tuple_text(vs, selfmod)
            L.append('%s-- %s' % (ind, hdr))
            L.append('%sRes.bind (if %s then (' % (ind, c))
            self.emit(th, 0, env, ind + '    ', 'Res.ok %s' % tup, False)
            L[-1] += ')'
            L.append('%s  else (' % ind)
            if el is not None:
                L.append('%s    -- } else {' % ind)
                self.emit(el, 0, env, ind + '    ', 'Res.ok %s' % tup, False)
            else:
                L.append('%s    Res.ok %s' % (ind, tup))
            un, binder = self.unpack_lines(vs, selfmod, ind)
            L[-1] += ')) fun %s =>' % binder
            L.append('%s-- }' % ind)
            L.extend(un)
            return nxt()
        if k == 'for':
            hi, body, hdr = st[1], st[2], st[3]
            t, ty = self.ex(hi, env)
            if ty in ('U64', 'U128'):
                cnt = '%s.toNat' % t
            elif ty in ('USZ', 'U32', 'U8'):       # modelled as `Nat`
                cnt = t
            else:
                err('%s: loop bound of type %s' % (self.what, ty))
            vs, selfmod = self.pack(body, env)
            tup = self.tuple_text(vs, selfmod)
            un_in, binder = self.unpack_lines(vs, selfmod, ind + '    ')
            L.append('%s-- %s' % (ind, hdr))
            L.append('%sRes.bind (forN %s %s fun %s =>' % (ind, cnt, tup, binder))
            L.extend(un_in)
            self.emit(body, 0, env, ind + '    ', 'Res.ok %s' % tup, False)
            un, binder = self.unpack_lines(vs, selfmod, ind)
            L[-1] += ') fun %s =>' % binder
            L.append('%s-- }' % ind)
            L.extend(un)
            return nxt()
        if k == 'while':
            cond, body, hdr = st[1], st[2], st[3]
            if self.in_loop:
                err('%s: nested loops are not supported' % self.what)
            if self.touches(cond):
                err('%s: effectful loop condition' % self.what)
            fuel = self.fuel('while', env)
            vs, selfmod = self.pack(body, env)
            tup = self.tuple_text(vs, selfmod)
            un_in, binder = self.unpack_lines(vs, selfmod, ind + '    ')
            c = unparen(self.typed(cond, env, 'BOOL', 'the loop condition'))
            L.append('%s-- %s' % (ind, hdr))
            L.append('%sRes.bind (whileN %s %s (fun %s =>' % (ind, fuel, tup, binder))
            L.extend(un_in)
            L.append('%s    decide (%s)) fun %s =>' % (ind, c, binder))
            L.extend(un_in)
            self.emit(body, 0, env, ind + '    ', 'Res.ok %s' % tup, False)
            un, binder = self.unpack_lines(vs, selfmod, ind)
            L[-1] += ') fun %s =>' % binder
            L.append('%s-- }' % ind)
            L.extend(un)
            return nxt()
        if k == 'loop':
            body, hdr = st[1], st[2]
            if not last or not can_return or fall is not None or self.in_loop:
                err('%s: a `loop` must be the last statement of the function body' % self.what)
            fuel = self.fuel('loop', env)
            vs, selfmod = self.pack(body, env)
            tup = self.tuple_text(vs, selfmod)
            un_in, binder = self.unpack_lines(vs, selfmod, ind + '    ')
            L.append('%s-- %s' % (ind, hdr))
            L.append('%sloopN %s %s fun %s =>' % (ind, fuel, tup, binder))
            L.extend(un_in)
            self.in_loop = True
            self.emit(body, 0, env, ind + '    ', 'Res.ok (Step.next %s)' % tup, True)
            self.in_loop = False
            L.append('%s-- }' % ind)
            return
        err('%s: unsupported statement' % self.what)

    @classmethod
    def run(cls, make, body, env, fall, can_return):
        """emit `body` with `make()` (a fresh instance per pass), repeating while a pass learns the
        type of a `let x = <untyped literal>` from a later use; returns the instance of the last pass"""
        inferred = {}
        for _ in range(16):
            f = make()
            f.inferred = dict(inferred)
            failure = None
            try:
                f.emit(body, 0, dict(env), '  ', fall, can_return)
            except Ctx.TE as ex:
                failure = ex
            if f.inferred != inferred:
                inferred = f.inferred
                continue
            if failure is not None:
                raise failure
            if f.placeholders:
                err('%s: cannot infer an integer type for `let %s`' % (f.what, f.placeholders[0]))
            return f
        err('internal: type inference does not settle')

    def ann_type(self, ann):
        if ann not in PRIM2TY:
            err('%s: unsupported type annotation %s' % (self.what, ann))
        return PRIM2TY[ann]
