#!/usr/bin/env python3
"""run the checks relevant to each harmless patch; usage: run.py <verif-root> <k> [<k> ...]"""
import sys, os, re, json, subprocess
root = sys.argv[1]
sys.path.insert(0, os.path.join(root, 'tools'))
import hygiene
res = {}
for k in sys.argv[2:]:
    pf = '%s' % os.path.join(root, 'harmless', 'h' + k, 'patch.diff')
    files = re.findall(r'^\+\+\+ b/(\S+)', open(pf).read(), re.M)
    props = sorted(set(p for f in files for p in hygiene.relevant_props(f)))
    r = subprocess.run([sys.executable, os.path.join(root, 'tools', 'seedtest.py'), pf, ','.join(props)], capture_output=True, text=True)
    last = r.stdout.strip().splitlines()[-1] if r.stdout.strip() else '{}'
    try:
        d = json.loads(last)
        res[k] = dict(files=files, alarms={p: v.get('lines') for p, v in d.items() if v.get('exit') != 0}, ran=props)
    except Exception:
        res[k] = dict(files=files, error=r.stdout[-300:] + r.stderr[-300:])
    print(k, files, 'ALARMS' if res[k].get('alarms') or res[k].get('error') else 'clean', res[k].get('alarms') or res[k].get('error') or '', flush=True)
json.dump(res, open('%s' % os.path.join(root, 'work', 'harmless-results.json'), 'w'), indent=1)
