#!/usr/bin/env python3
"""Run checks against a seeded change without touching /repo:
   tools/seedtest.py <patch.diff> <PROP>[,<PROP>…] [--tier quick]
A scratch worktree of /repo is created under /tmp/seedwt, the patch applied, the checks run with
DSI_REPO pointing at it, the generated Lean files restored, and the worktree removed."""
import os, subprocess, sys, shutil, hashlib, json
ROOT = os.path.dirname(os.path.dirname(os.path.abspath(__file__)))

def main():
    patch = os.path.abspath(sys.argv[1])
    props = sys.argv[2].split(',')
    tier = 'quick'
    if '--tier' in sys.argv:
        tier = sys.argv[sys.argv.index('--tier') + 1]
    name = hashlib.sha1(patch.encode()).hexdigest()[:8]
    wt = '/tmp/seedwt/' + name
    os.makedirs('/tmp/seedwt', exist_ok=True)
    subprocess.run(['git', '-C', '/repo', 'worktree', 'remove', '--force', wt], capture_output=True)
    r = subprocess.run(['git', '-C', '/repo', 'worktree', 'add', '-q', '--detach', wt, 'HEAD'], capture_output=True, text=True)
    if r.returncode != 0:
        print('worktree failed', r.stderr); return 2
    results = {}
    try:
        r = subprocess.run(['git', '-C', wt, 'apply', patch], capture_output=True, text=True)
        if r.returncode != 0:
            print('patch does not apply:', r.stderr); return 2
        env = dict(os.environ); env['DSI_REPO'] = wt
        for p in props:
            r = subprocess.run([os.path.join(ROOT, 'check'), p, '--tier', tier], cwd=ROOT, env=env, capture_output=True, text=True)
            viol = [l for l in r.stdout.splitlines() if l.startswith('VIOLATION') or l.startswith('KNOWN')]
            results[p] = dict(exit=r.returncode, lines=viol[:6], tail=r.stderr.strip().splitlines()[-1:] )
            print(p, 'exit', r.returncode, viol[:3])
            # keep the replays of this run
            for l in viol:
                if 'replay=' in l:
                    rp = l.split('replay=')[1].split()[0]
                    try:
                        print('   ', open(os.path.join(ROOT, rp)).read().strip().splitlines()[-1][:300])
                    except OSError:
                        pass
    finally:
        subprocess.run(['git', '-C', '/repo', 'worktree', 'remove', '--force', wt], capture_output=True)
        shutil.rmtree(wt, ignore_errors=True)
        # the harness copy and its build output for this tree
        tag = hashlib.sha1(os.path.realpath(wt).encode()).hexdigest()[:10]
        shutil.rmtree(os.path.join(ROOT, 'work', 'harness-' + tag), ignore_errors=True)
        subprocess.run([sys.executable, os.path.join(ROOT, 'tools', 'translate.py')], capture_output=True)
    print(json.dumps(results))
    return 0

if __name__ == '__main__':
    sys.exit(main())
