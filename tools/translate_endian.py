#!/usr/bin/env python3
"""Translator for src/traits/endianness.rs: the selector types `LittleEndian` / `BigEndian`, their
constants (`NAME`, `IS_LITTLE`, `IS_BIG`, through the sealed trait `private::Endianness` and the
blanket `impl<T: private::Endianness> Endianness for T`) and the aliases `BE`, `LE`,
`NativeEndian` (under `#[cfg(target_endian = ..)]`), `NE` -> lean/Dsi/Gen/EndianConsts.lean.
The theorems the model relies on are in lean/Dsi/Props/EndianGen.lean.

The model's `Endian.le` / `Endian.be` (lean/Dsi/Basic.lean) stand for the unit structs named
`LittleEndian` / `BigEndian`: this correspondence of names is the one thing taken for granted.

  impl private::Endianness for S { const _C: T = V; .. }    S one of the two structs, V a literal
                                                             (or `!`, `&&`, `||`, `Self::_D`)
        -> def _C : Endian -> T    by cases on the struct
  impl<T: private::Endianness> Endianness for T { const C: T' = T::_D; .. }
        -> def C (e : Endian) := _D e                        (`T::_D`, `!`, `&&`, `||`, literals)
  pub type A = B;                                            B a struct or an earlier alias
        -> def A : Endian := B
  #[cfg(target_endian = "little")] pub type A = B;  #[cfg(target_endian = "big")] pub type A = C;
        -> def A (target : Endian) : Endian := match target with | .le => B | .be => C
           (`target`: the endianness of the compilation target); aliases of such an alias take
           `target` too.  Both alternatives must be present.

Anything else that could change these items fails closed: another `impl` of either trait, a third
selector struct, a `cfg` other than `target_endian`, defaults in the trait declarations, macros.

`names()` / `const_true_set(c)` serve the other translators (tools/translate_codes2.py,
translate_teardown.py, translate_vbyteio.py), which decide the endianness tests of the code
(`TypeId::of::<E>() == TypeId::of::<LE>()`, `E::IS_LITTLE`, ..) with what THIS file says the aliases
and the constants are, instead of assuming it.  Several translators find the `impl` blocks of an
endianness by the alias names `BE` / `LE` in the headers: `main` therefore refuses (after writing
the faithful translation) a crate in which `BE` / `LE` are not `BigEndian` / `LittleEndian`.
"""
import os, sys
sys.path.insert(0, os.path.dirname(os.path.abspath(__file__)))
from rstok import tokenize, match_close
import rsx
from rsx import err

REL = 'src/traits/endianness.rs'
OUT = 'EndianConsts.lean'
STRUCTS = {'LittleEndian': 'Endian.le', 'BigEndian': 'Endian.be'}
ORDER = ['LittleEndian', 'BigEndian']
LEAN_TY = {'bool': 'Bool', "& 'static str": 'String', '& str': 'String'}


def default_src(rel):
    with open(os.path.join(os.environ.get('DSI_REPO', '/repo'), rel), encoding='utf-8') as f:
        return f.read()


class ConstExpr:
    """the initialiser of an associated constant -> Lean text; `assoc(owner, name)` resolves `X::_C`"""

    def __init__(self, what, assoc):
        self.what, self.assoc = what, assoc

    def ex(self, e):
        k = e[0]
        if k == 'paren':
            return '(%s)' % self.ex(e[1])
        if k == 'bool':
            return 'true' if e[1] else 'false'
        if k == 'un' and e[1] == '!':
            return '(!%s)' % self.ex(e[2])
        if k == 'bin' and e[1] in ('&&', '||'):
            return '(%s %s %s)' % (self.ex(e[2]), e[1], self.ex(e[3]))
        if k == 'path' and len(e[1]) == 2 and e[2] is None:
            r = self.assoc(e[1][0], e[1][1])
            if r is not None:
                return r
        err('%s: initialiser `%s` is not in the translated language' % (self.what, k if k != 'path' else '::'.join(e[1])))


def consts_of(toks, o, c, what, assoc):
    """the items between braces o..c must be `const NAME: TYPE = EXPR;` -> [(name, type text, Lean text)]"""
    out = []
    sofar = {}
    i = o + 1
    while i < c:
        if toks[i] == ('p', '#'):
            a = match_close(toks, i + 1)
            if toks[i + 2] == ('id', 'cfg'):
                err('%s: an item under #[%s]' % (what, rsx.text_of(toks[i + 2:a])))
            i = a + 1
            continue
        if toks[i] != ('id', 'const') or toks[i + 1][0] != 'id' or toks[i + 2] != ('p', ':'):
            err('%s: an item that is not an associated constant (near `%s`)' % (what, rsx.text_of(toks[i:i + 4])))
        name = toks[i + 1][1]
        j = i + 3
        while toks[j] != ('p', '=') and toks[j] != ('p', ';'):
            j += 1
        ty = rsx.text_of(toks[i + 3:j])
        if ty not in LEAN_TY:
            err('%s: constant %s of type `%s`' % (what, name, ty))
        if toks[j] == ('p', ';'):
            out.append((name, ty, None))
            i = j + 1
            continue
        e = j + 1
        while toks[e] != ('p', ';'):
            e += 1
        init = toks[j + 1:e]
        if len(init) == 1 and init[0][0] == 'str':
            if LEAN_TY[ty] != 'String':
                err('%s: constant %s: a string for a `%s`' % (what, name, ty))
            txt = '"%s"' % init[0][1].replace('\\', '\\\\').replace('"', '\\"')
        else:
            P = rsx.Parser(init, '%s: const %s' % (what, name))
            ex = P.expr()
            if P.i != len(init):
                P.fail('trailing tokens')
            if LEAN_TY[ty] != 'Bool' and ex[0] != 'path':
                err('%s: constant %s: initialiser of a `%s`' % (what, name, ty))
            txt = ConstExpr('%s: const %s' % (what, name), lambda a, b: assoc(a, b, sofar)).ex(ex)
        out.append((name, ty, txt))
        sofar[name] = txt
        i = e + 1
    return out


def parse(src=None):
    """-> dict(private={const: (type, {struct: Lean value})}, public=[(const, type, Lean text over `e`)],
               aliases=[(name, target-dependent?, text | {target struct: text})])"""
    src = src or default_src
    rsx.Ctx.rel = REL
    toks = tokenize(src(REL))
    rsx.check_no_alias(toks, REL)
    for i, t in enumerate(toks):
        if t == ('id', 'macro_rules'):
            err('a `macro_rules!`')
    # ---- top-level walk: structs, type aliases, impls, traits, `mod private { trait .. }`
    structs, aliases_raw, impls, traits = [], [], [], {}

    def walk(a, b, prefix):
        i = a
        while i < b:
            t = toks[i]
            if t == ('id', 'struct'):
                name = toks[i + 1][1]
                if toks[i + 2] != ('p', ';'):
                    err('struct %s is not a unit struct' % name)
                structs.append(name)
                i += 3
                continue
            if t == ('id', 'enum') or t == ('id', 'union'):
                err('an `%s`' % t[1])
            if t == ('id', 'type') and toks[i + 2] == ('p', '='):
                name = toks[i + 1][1]
                j = i + 3
                while toks[j] != ('p', ';'):
                    j += 1
                cfgs = [x for x in rsx.attrs_before(toks, i, 0) if x.startswith('cfg')]
                aliases_raw.append((name, rsx.text_of(toks[i + 3:j]), cfgs))
                i = j + 1
                continue
            if t == ('id', 'mod'):
                name = toks[i + 1][1]
                if toks[i + 2] != ('p', '{'):
                    err('`mod %s;`' % name)
                c = match_close(toks, i + 2)
                walk(i + 3, c, prefix + [name])
                i = c + 1
                continue
            if t == ('id', 'trait'):
                name = toks[i + 1][1]
                j = i + 2
                while toks[j] != ('p', '{'):
                    j += 1
                c = match_close(toks, j)
                traits['::'.join(prefix + [name])] = (rsx.text_of(toks[i + 2:j]), j, c)
                i = c + 1
                continue
            if t == ('id', 'impl'):
                j = i + 1
                while toks[j] != ('p', '{'):
                    j += 1
                c = match_close(toks, j)
                cfgs = [x for x in rsx.attrs_before(toks, i, 0) if x.startswith('cfg')]
                if cfgs:
                    err('an `impl` under #[%s]' % cfgs[0])
                impls.append((rsx.text_of(toks[i:j]), j, c))
                i = c + 1
                continue
            if t == ('p', '{'):
                i = match_close(toks, i) + 1
                continue
            if t[0] == 'id' and toks[i + 1:i + 2] == [('p', '!')]:
                err('macro invocation `%s!` at item level' % t[1])
            i += 1

    walk(0, len(toks), [])
    if sorted(structs) != sorted(STRUCTS):
        err('the selector structs are %r, expected %r' % (sorted(structs), sorted(STRUCTS)))
    if sorted(traits) != ['Endianness', 'private::Endianness']:
        err('the traits are %r' % sorted(traits))
    # trait declarations: constants without defaults
    decl = {}
    for tn, (hdr, o, c) in traits.items():
        items = consts_of(toks, o, c, 'trait %s' % tn, lambda a, b, sofar: None)
        for name, ty, txt in items:
            if txt is not None:
                err('trait %s: constant %s has a default' % (tn, name))
        decl[tn] = {name: ty for name, ty, _ in items}
    # ---- impls
    private = {name: (ty, {}) for name, ty in decl['private::Endianness'].items()}
    public = None
    for hdr, o, c in impls:
        h = hdr.replace(' ', '')
        if 'Endianness' not in h:
            # e.g. `impl core::fmt::Display for LE`: cannot define the constants
            if any(toks[q] == ('id', 'const') for q in range(o, c)):
                err('`%s` defines constants' % hdr)
            continue
        if h.startswith('implprivate::Endiannessfor'):
            S = h[len('implprivate::Endiannessfor'):]
            if S not in STRUCTS:
                err('`%s`: not an impl for one of the selector structs' % hdr)
            what = 'impl private::Endianness for %s' % S
            vals = {}

            def assoc(owner, cname, sofar):
                # an earlier constant of the same impl (a later one would be a forward use: refused)
                if owner == 'Self' and cname in sofar:
                    return sofar[cname]
                return None

            for name, ty, txt in consts_of(toks, o, c, what, assoc):
                if name not in private or private[name][0] != ty or txt is None:
                    err('%s: constant %s is not declared so in the trait' % (what, name))
                if S in private[name][1]:
                    err('two `%s`' % what)
                private[name][1][S] = txt
                vals[name] = txt
            continue
        if h.startswith('impl<') and h.endswith('>EndiannessforT') and h[5:-len('>EndiannessforT')] == 'T:private::Endianness':
            if public is not None:
                err('two blanket impls of Endianness')
            what = 'impl<T: private::Endianness> Endianness for T'

            def assoc(owner, cname, sofar):
                if owner == 'T' and cname in private:
                    return '%s e' % cname
                return None

            public = []
            for name, ty, txt in consts_of(toks, o, c, what, assoc):
                if decl['Endianness'].get(name) != ty or txt is None:
                    err('%s: constant %s is not declared so in the trait' % (what, name))
                if private and txt.endswith(' e') and txt[:-2] in private and private[txt[:-2]][0] != ty:
                    err('%s: constant %s: type mismatch' % (what, name))
                public.append((name, ty, txt))
            continue
        err('`%s`: an impl of Endianness that is not understood' % hdr)
    if public is None:
        err('no blanket impl of Endianness')
    if sorted(n for n, _, _ in public) != sorted(decl['Endianness']):
        err('the blanket impl does not define exactly the constants of the trait')
    for name, (ty, per) in private.items():
        if sorted(per) != sorted(STRUCTS):
            err('constant %s is not defined for both selector structs' % name)
    # ---- aliases (in source order; an alias may use an earlier one)
    resolved = {}          # name -> (dependent?, Lean text of the value | {target struct: text})
    order = []
    groups = {}
    for name, rhs, cfgs in aliases_raw:
        groups.setdefault(name, []).append((rhs, cfgs))
        if name not in order:
            order.append(name)

    def value(rhs):
        """(depends on target?, Lean text -- using `target` when it does --, the struct's term when it does not)"""
        if rhs in STRUCTS:
            return False, STRUCTS[rhs], STRUCTS[rhs]
        if rhs in resolved:
            dep, _, final = resolved[rhs]
            return dep, ('%s target' % rhs if dep else rhs), final
        err('alias of `%s`, which is not a selector struct or an earlier alias' % rhs)

    for name in order:
        alts = groups[name]
        if name in STRUCTS:
            err('alias named like a struct')
        if len(alts) == 1 and not alts[0][1]:
            resolved[name] = value(alts[0][0])
            continue
        per = {}
        for rhs, cfgs in alts:
            if len(cfgs) != 1:
                err('alias %s: several definitions, not each under one cfg' % name)
            c = cfgs[0].replace(' ', '')
            if c == 'cfg(target_endian="little")':
                key = 'LittleEndian'
            elif c == 'cfg(target_endian="big")':
                key = 'BigEndian'
            else:
                err('alias %s under #[%s]' % (name, cfgs[0]))
            if key in per:
                err('alias %s: two definitions for the same target' % name)
            dep, txt, _ = value(rhs)
            per[key] = txt
        if sorted(per) != sorted(STRUCTS):
            err('alias %s: not defined for both values of target_endian' % name)
        resolved[name] = (True, per, None)
    return dict(private=private, public=public, aliases=[(n,) + tuple(resolved[n]) for n in order])


def lean_body(info):
    out = []
    for name, (ty, per) in info['private'].items():
        out += ['/-- `const %s` of `private::Endianness`, per selector struct -/' % name,
                'def %s : Endian → %s' % (name, LEAN_TY[ty])]
        out += ['  | %s => %s' % (STRUCTS[S], per[S]) for S in ORDER]
        out.append('')
    for name, ty, txt in info['public']:
        out += ['/-- `const %s` of `Endianness` (the blanket impl) -/' % name,
                'def %s (e : Endian) : %s := %s' % (name, LEAN_TY[ty], txt), '']
    for name, dep, val, final in info['aliases']:
        if not dep:
            out += ['/-- `type %s` -/' % name, 'def %s : Endian := %s' % (name, val), '']
        elif isinstance(val, dict):
            out += ['/-- `type %s` under `#[cfg(target_endian = ..)]`; `target`: the endianness of the target -/' % name,
                    'def %s (target : Endian) : Endian :=' % name, '  match target with']
            out += ['  | %s => %s' % (STRUCTS[S], val[S]) for S in ORDER]
            out.append('')
        else:
            out += ['/-- `type %s` -/' % name, 'def %s (target : Endian) : Endian := %s' % (name, val), '']
    return out


# --------------------------------------------------------------------------------------
# for the other translators
# --------------------------------------------------------------------------------------

_cache = {}


def _info():
    key = os.environ.get('DSI_REPO', '/repo')
    if key not in _cache:
        rel = rsx.Ctx.rel
        try:
            _cache[key] = parse()
        finally:
            rsx.Ctx.rel = rel
    return _cache[key]


def _eval(txt, env):
    """evaluate the Lean text of a constant (`true`, `false`, `!`, `&&`, `||`, `_C e`) for one struct"""
    import re
    t = re.sub(r'\b(\w+) e\b', lambda m: ' True ' if env[m.group(1)] else ' False ', txt)
    t = t.replace('!', ' not ').replace('&&', ' and ').replace('||', ' or ')
    t = re.sub(r'\btrue\b', 'True', t)
    t = re.sub(r'\bfalse\b', 'False', t)
    return bool(eval(t, {'__builtins__': {}}, {}))


def names():
    """{type name usable in `TypeId::of::<..>` / as an endianness argument: 'Endian.le' | 'Endian.be'}:
    the selector structs and the aliases that do not depend on the target"""
    info = _info()
    out = dict(STRUCTS)
    for name, dep, val, final in info['aliases']:
        if not dep:
            out[name] = final
    return out


def const_true_set(cname):
    """the Lean endianness terms e for which `E::cname` (a bool constant of `Endianness`) is true"""
    info = _info()
    per_struct = {}
    for S in ORDER:
        env = {}
        # private constants of S, in declaration order (they may use `Self::_D`, already substituted)
        for name, (ty, per) in info['private'].items():
            if LEAN_TY[ty] == 'Bool':
                env[name] = _eval(per[S], {})
        per_struct[S] = env
    for name, ty, txt in info['public']:
        if name == cname:
            if LEAN_TY[ty] != 'Bool':
                err('constant %s is not a bool' % cname)
            return [STRUCTS[S] for S in ORDER if _eval(txt, per_struct[S])]
    err('Endianness has no constant %s' % cname)


def endian_test(cname, term):
    """Lean proposition for `E::cname` with E denoted by `term` -- in the same form as the
    translation of the `TypeId` tests, so that rewriting one as the other changes nothing"""
    ts = const_true_set(cname)
    if len(ts) == 2:
        return 'True'
    if not ts:
        return 'False'
    return '%s = %s' % (term, ts[0])


class EndianNames:
    """`names()` as a read-only mapping, evaluated when used (after the caller has set `rsx.Ctx.TE`)"""

    def __contains__(self, k):
        return k in names()

    def __getitem__(self, k):
        return names()[k]


ENDIAN_NAMES = EndianNames()
CONST_TESTS = ('IS_LITTLE', 'IS_BIG')


def render(HEADER, body, failure=None):
    head = [HEADER.rstrip('\n'),
            '-- (tools/translate_endian.py: the constants and aliases of %s; `Endian.le` / `Endian.be`' % REL,
            '-- stand for the structs `LittleEndian` / `BigEndian`.)',
            'import Dsi.Basic', '', 'namespace Dsi.Gen.Endianness', 'open Dsi', 'set_option linter.unusedVariables false', '']
    if failure is not None:
        return '\n'.join(head + ['-- TRANSLATION FAILED: %s' % failure.replace('\n', ' '), '', 'end Dsi.Gen.Endianness', ''])
    return '\n'.join(head + body + ['end Dsi.Gen.Endianness', ''])


def main(write_if_changed, HEADER, src, TranslateError):
    rsx.Ctx.TE = TranslateError
    try:
        info = parse(src)
        body = lean_body(info)
    except TranslateError as ex:
        write_if_changed(OUT, render(HEADER, [], str(ex)))
        raise
    changed = write_if_changed(OUT, render(HEADER, body))
    al = {n: (d, f) for n, d, v, f in info['aliases']}
    for a, want in (('BE', 'Endian.be'), ('LE', 'Endian.le')):
        if al.get(a) != (False, want):
            rsx.Ctx.rel = REL
            err('the alias %s is not %s: the translators of the reader / writer bodies identify the impls of an '
                'endianness by the names BE / LE and cannot be trusted on this crate' % (a, want))
    return ['EndianConsts'] if changed else []


if __name__ == '__main__':
    import translate
    try:
        print(main(translate.write_if_changed, translate.HEADER, translate.src, translate.TranslateError))
    except translate.TranslateError as ex:
        print('translate: ERROR: %s' % ex)
        sys.exit(3)
