"""A small Rust tokenizer + brace matcher (no line regexes, so rustfmt-level rewrites do not matter).

Tokens are (kind, text) with kind in {'id','num','str','char','life','p'}.
"""
import re, unicodedata

PUNCT3 = ['<<=', '>>=', '...', '..=']
PUNCT2 = ['::', '=>', '->', '==', '!=', '<=', '>=', '&&', '||', '+=', '-=', '*=', '/=', '%=', '^=', '&=', '|=', '<<', '>>', '..']

def _is_id_start(c):
    return c == '_' or c.isalpha() or unicodedata.category(c) in ('Ll', 'Lu', 'Lo', 'Lm', 'Lt', 'Nl')

def _is_id_cont(c):
    return _is_id_start(c) or c.isdigit() or unicodedata.category(c) in ('Mn', 'Mc', 'Nd', 'Pc')

def tokenize(src):
    toks = []
    i, n = 0, len(src)
    while i < n:
        c = src[i]
        if c.isspace():
            i += 1; continue
        if src.startswith('//', i):
            j = src.find('\n', i)
            i = n if j < 0 else j
            continue
        if src.startswith('/*', i):
            depth, i = 1, i + 2
            while i < n and depth:
                if src.startswith('/*', i): depth += 1; i += 2
                elif src.startswith('*/', i): depth -= 1; i += 2
                else: i += 1
            continue
        # raw strings / byte strings
        m = re.match(r'b?r(#*)"', src[i:])
        if m:
            hashes = m.group(1)
            end = src.find('"' + hashes, i + len(m.group(0)))
            toks.append(('str', src[i + len(m.group(0)):end])); i = end + 1 + len(hashes); continue
        if c == '"' or (c == 'b' and i + 1 < n and src[i + 1] == '"'):
            j = i + (2 if c == 'b' else 1); buf = []
            while src[j] != '"':
                if src[j] == '\\':
                    e = src[j + 1]
                    if e == 'n': buf.append('\n'); j += 2
                    elif e == 't': buf.append('\t'); j += 2
                    elif e == '\\' or e == '"' or e == "'": buf.append(e); j += 2
                    elif e == 'u':
                        k = src.find('}', j); buf.append(chr(int(src[j + 3:k], 16))); j = k + 1
                    elif e == 'x': buf.append(chr(int(src[j + 2:j + 4], 16))); j += 4
                    elif e == '\n':
                        j += 2
                        while src[j].isspace(): j += 1
                    else: buf.append(e); j += 2
                else: buf.append(src[j]); j += 1
            toks.append(('str', ''.join(buf))); i = j + 1; continue
        if c == "'":
            # char literal or lifetime
            m = re.match(r"'(\\.[^']*|[^'\\])'", src[i:])
            if m:
                toks.append(('char', m.group(1))); i += len(m.group(0)); continue
            j = i + 1
            while j < n and _is_id_cont(src[j]): j += 1
            toks.append(('life', src[i:j])); i = j; continue
        if c.isdigit():
            m = re.match(r'0x[0-9a-fA-F_]+|0b[01_]+|0o[0-7_]+|[0-9][0-9_]*(\.[0-9][0-9_]*)?([eE][+-]?[0-9_]+)?', src[i:])
            txt = m.group(0); j = i + len(txt)
            # do not swallow the first dot of a range `0..x`
            if '.' in txt and src.startswith('..', i + txt.index('.')):
                txt = txt[:txt.index('.')]; j = i + len(txt)
            # suffix
            m2 = re.match(r'_?(u8|u16|u32|u64|u128|usize|i8|i16|i32|i64|i128|isize|f32|f64)', src[j:])
            suffix = ''
            if m2: suffix = m2.group(1); j += len(m2.group(0))
            toks.append(('num', txt.replace('_', '') + ('' if not suffix else ':' + suffix))); i = j; continue
        if _is_id_start(c):
            j = i + 1
            while j < n and _is_id_cont(src[j]): j += 1
            toks.append(('id', src[i:j])); i = j; continue
        for plist, ln in ((PUNCT3, 3), (PUNCT2, 2)):
            if src[i:i + ln] in plist:
                toks.append(('p', src[i:i + ln])); i += ln; break
        else:
            toks.append(('p', c)); i += 1
    return toks

OPEN = {'(': ')', '[': ']', '{': '}'}

def match_close(toks, i):
    """toks[i] is an opening bracket; return index of its matching closer."""
    o = toks[i][1]; c = OPEN[o]; depth = 0
    for j in range(i, len(toks)):
        k, t = toks[j]
        if k == 'p':
            if t in OPEN: depth += 1
            elif t in (')', ']', '}'):
                depth -= 1
                if depth == 0: return j
    raise ValueError('unbalanced at %d' % i)

def num_value(t):
    txt = t.split(':')[0]
    if txt.startswith('0x'): return int(txt, 16)
    if txt.startswith('0b'): return int(txt, 2)
    if txt.startswith('0o'): return int(txt, 8)
    return int(txt)

def find_seq(toks, seq, start=0):
    """index of first occurrence of token-text sequence seq (list of texts) at/after start, or -1"""
    L = len(seq)
    for i in range(start, len(toks) - L + 1):
        if all(toks[i + k][1] == seq[k] and toks[i + k][0] != 'str' for k in range(L)):
            return i
    return -1

def split_top(toks, sep=','):
    """split a token list at top-level separators"""
    out, cur, depth = [], [], 0
    for k, t in toks:
        if k == 'p' and t in OPEN: depth += 1
        elif k == 'p' and t in (')', ']', '}'): depth -= 1
        if k == 'p' and t == sep and depth == 0:
            out.append(cur); cur = []
        else: cur.append((k, t))
    if cur: out.append(cur)
    return out
