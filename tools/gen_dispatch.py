"""Generators for the `D` (dispatch, C10) and `T` (text / identifiers, C16) request families.
Seeded by the caller's PRNG; small spaces (identifiers, variants x parameters, dispatcher kinds,
malformed strings) are enumerated, values come from gen.value_grid."""
import gen
from gen import U64

PARAMETERLESS = ['Unary', 'Gamma', 'Delta', 'Omega', 'VByteLe', 'VByteBe']
PARAMETRIC = ['Zeta', 'Pi', 'Golomb', 'ExpGolomb', 'Rice']
GEN_NAME = {'Unary': 'unary', 'Gamma': 'gamma', 'Delta': 'delta', 'Omega': 'omega', 'VByteLe': 'vble', 'VByteBe': 'vbbe',
            'Zeta': 'zeta', 'Pi': 'pi', 'Golomb': 'golomb', 'ExpGolomb': 'expg', 'Rice': 'rice'}

# the 61 documented constant names (API of dispatch::code_consts) and the identifiers beyond
CONST_NAMES = (['UNARY', 'GAMMA', 'DELTA', 'OMEGA', 'VBYTE_BE', 'VBYTE_LE'] + ['ZETA%d' % i for i in range(1, 11)]
               + ['RICE%d' % i for i in range(0, 11)] + ['PI%d' % i for i in range(0, 11)]
               + ['GOLOMB%d' % i for i in range(1, 11)] + ['EXP_GOLOMB%d' % i for i in range(0, 11)])
# must be among the identifiers the harness instantiates ConstCode for (harness/src/dispatch.rs)
EXTRA_IDS = [51, 52, 53, 60, 63, 64, 100, 127, 128, 255, 256, 1000, 65535, 65536, 4294967295, 4294967296,
             9223372036854775807, 18446744073709551615]


def text(v, k):
    return v if k is None else '%s(%d)' % (v, k)


def vk(v, k):
    return '%s %s' % (v, '-' if k is None else k)


def params(tier, v):
    ks = list(range(0, 13)) + [63, 64]
    if tier != 'quick':
        ks += list(range(13, 63))
    if v == 'Golomb':
        ks += [100, 1 << 32, (1 << 63) + 1]
    return ks


def all_codes(tier):
    out = [(v, None) for v in PARAMETERLESS]
    for v in PARAMETRIC:
        out += [(v, k) for k in params(tier, v)]
    return out


def max_value(v, k):
    """largest value worth sending: keeps unary parts below ~2000 and stays inside u64"""
    g = GEN_NAME[v]
    if k is None:
        return gen.max_value(g, 0)
    if v == 'Golomb' and k == 0:
        return 50
    if v == 'Rice' and k >= 64:
        return 1000      # `v >> 64` wraps to `v` in the optimised build: keep the unary part short
    return gen.max_value(g, k)


def values(rng, tier, v, k, n):
    mv = max_value(v, k)
    grid = gen.value_grid(rng, tier == 'quick', mv)
    if len(grid) > n:
        keep = set(grid[:n // 3]) | set(grid[-3:]) | set(rng.sample(grid, n // 2))
        grid = sorted(keep)
    return grid


def gen_C10(rng, tier):
    quick = tier == 'quick'
    lines = []
    nv = 60 if quick else 120
    for (v, k) in all_codes(tier):
        t = text(v, k)
        for x in values(rng, tier, v, k, nv):
            for e in gen.ES:
                lines.append('D codes write %s %s %d' % (e, t, x))
                lines.append('D codes read %s %s %d' % (e, t, x))
                lines.append('D func write %s %s %d' % (e, t, x))
                lines.append('D func read %s %s %d' % (e, t, x))
                lines.append('D factory read %s %s %d' % (e, t, x))
                lines.append('D stats write %s %s %d' % (e, t, x))
                lines.append('D stats read %s %s %d' % (e, t, x))
            lines.append('D codes len %s %d' % (t, x))
            lines.append('D func len %s %d' % (t, x))
    # lengths need no stream: the codes with an unbounded unary part at values beyond 2^32
    bigv = [(1 << 31) - 1, (1 << 32) - 2, (1 << 32) - 1, 1 << 32, (1 << 32) + 1, 1 << 40, (1 << 63) - 1, 1 << 63, U64 - 1]
    for (v, k) in [('Unary', None)] + [('Rice', k) for k in (0, 1, 5, 31, 32, 33, 63)] + [('Golomb', b) for b in (1, 2, 3, 10, (1 << 32) - 1, 1 << 32, (1 << 32) + 1, (1 << 63) + 1)]:
        t = text(v, k)
        for x in bigv:
            lines.append('D codes len %s %d' % (t, x))
            lines.append('D func len %s %d' % (t, x))
    for name in ('UNARY', 'RICE0', 'RICE1', 'RICE10', 'GOLOMB1', 'GOLOMB2', 'GOLOMB10'):
        for x in bigv:
            lines.append('D const len %s %d' % (name, x))
    # ConstCode: every name (aliases included), every identifier 0..=50, identifiers beyond
    nc = 30 if quick else 80
    for name in CONST_NAMES:
        fam, k = split_const(name)
        for x in values(rng, tier, fam, k, nc):
            for e in gen.ES:
                lines.append('D const write %s %s %d' % (e, name, x))
                lines.append('D const read %s %s %d' % (e, name, x))
            lines.append('D const len %s %d' % (name, x))
    for i in range(0, 51):
        # the value grid of a small code keeps every plausible reading short
        for x in values(rng, tier, 'Golomb', 1, nc):
            for e in gen.ES:
                lines.append('D const write %s %d %d' % (e, i, x))
                lines.append('D const read %s %d %d' % (e, i, x))
            lines.append('D const len %d %d' % (i, x))
    for i in EXTRA_IDS:
        for x in (0, 1, 5, 1000, 1 << 40):
            for e in gen.ES:
                lines.append('D const write %s %d %d' % (e, i, x))
                lines.append('D const read %s %d %d' % (e, i, x))
            lines.append('D const len %d %d' % (i, x))
    return lines


def split_const(name):
    for pre, fam in (('EXP_GOLOMB', 'ExpGolomb'), ('GOLOMB', 'Golomb'), ('ZETA', 'Zeta'), ('RICE', 'Rice'), ('PI', 'Pi')):
        if name.startswith(pre):
            return fam, int(name[len(pre):])
    return {'UNARY': 'Unary', 'GAMMA': 'Gamma', 'DELTA': 'Delta', 'OMEGA': 'Omega', 'VBYTE_BE': 'VByteBe',
            'VBYTE_LE': 'VByteLe'}[name], None


MALFORMED = [
    '', ' ', 'gamma', 'GAMMA', 'Gamma ', ' Gamma', 'Gama', 'Unary()', 'Gamma(3)', 'Delta(0)', 'Omega(', 'VByteLe(1)',
    'VByteBe)', 'VByte', 'VByteLE', 'Vbytele', 'Zeta', 'Zeta()', 'Zeta(', 'Zeta)', 'Zeta(-1)', 'Zeta(x)', 'Zeta(+3)',
    'Zeta(+)', 'Zeta(++3)', 'Zeta(3', 'Zeta(3))', 'Zeta((3)', 'Zeta(3)(4)', 'Zeta(3)x', 'Zeta( 3)', 'Zeta(3 )',
    'Zeta(0x3)', 'Zeta(3.0)', 'Zeta(1e3)', 'Zeta(003)', 'Zeta(99999999999999999999999)', 'Zeta(18446744073709551615)',
    'Zeta(18446744073709551616)', 'Zeta(+18446744073709551615)', 'Zeta(000000000000000000000000000001)', 'zeta(3)',
    'ZETA(3)', 'Zeta (3)', 'Zeta[3]', 'Zeta{3}', 'Zeta{k:3}', 'Zeta { k: 3 }', 'Codes::Zeta(3)', 'Pi', 'Pi()', 'Pi(-0)',
    'Pi(٣)', 'Pi(３)', 'Golomb(', 'Golomb(1,2)', 'Golomb(b=3)', 'ExpGolomb(k)', 'Exp_Golomb(3)', 'ExpGolomb(3)',
    'Rice(log2_b)', 'Rice(2)', 'Rice(-)', 'Rice(+-2)', 'Rice(2+)', '(3)', '()', '(', ')', '3', 'Unary\n', 'Unary\t',
    'Unary(', 'Unary)', 'UnaryGamma', 'Minimal(3)', 'MinimalBinary(3)', 'Zeta(3)Zeta(4)', 'Zeta(', 'Zeta(é)', 'Ζeta(3)',
]


def hexs(s):
    return s.encode('utf-8').hex() or '-'


def mutate(rng, s):
    alphabet = '()+-0123456789 xZetaPiGolmbRcExp_\t'
    s = list(s)
    for _ in range(rng.randrange(1, 3)):
        op = rng.randrange(4)
        i = rng.randrange(0, len(s) + 1)
        if op == 0:
            s.insert(i, rng.choice(alphabet))
        elif op == 1 and s:
            del s[min(i, len(s) - 1)]
        elif op == 2 and s:
            s[min(i, len(s) - 1)] = rng.choice(alphabet)
        elif s:
            j = min(i, len(s) - 1)
            s[j] = s[j].swapcase()
    return ''.join(s)


def gen_C16(rng, tier):
    quick = tier == 'quick'
    lines = []
    big = [100, 255, 256, 65535, 1 << 31, 1 << 32, (1 << 63) - 1, 1 << 63, U64 - 1, U64, rng.randrange(1 << 64)]
    ks = list(range(0, 65)) + big
    codes = [(v, None) for v in PARAMETERLESS] + [(v, k) for v in PARAMETRIC for k in ks]
    for (v, k) in codes:
        lines.append('T display %s' % vk(v, k))
        lines.append('T rt %s' % vk(v, k))
        lines.append('T parse %s' % hexs(text(v, k)))
        lines.append('T toconst %s' % vk(v, k))
    for s in MALFORMED:
        lines.append('T parse %s' % hexs(s))
    valid = [text(v, k) for (v, k) in codes]
    for _ in range(1500 if quick else 20000):
        lines.append('T parse %s' % hexs(mutate(rng, rng.choice(valid))))
    for v in PARAMETRIC:
        for _ in range(40 if quick else 400):
            n = rng.randrange(1 << rng.randrange(1, 80))
            lines.append('T parse %s' % hexs('%s(%s%d)' % (v, rng.choice(['', '', '+', '0', '00']), n)))
    for i in list(range(0, 61)) + [100, 255, 256, 1000, 65535, 1 << 32, U64]:
        lines.append('T fromconst %d' % i)
        lines.append('T constrt %d' % i)
    # code -> identifier -> code keeps the codewords (the identifier table and the two conversion
    # lists must agree with each other, not only each with itself)
    for v in PARAMETERLESS:
        for x in values(rng, tier, v, None, 6 if quick else 24):
            for e in gen.ES:
                lines.append('T crt %s %s %d' % (e, vk(v, None), x))
    for v in PARAMETRIC:
        for k in list(range(0, 13)) + [63]:
            for x in values(rng, tier, v, k, 6 if quick else 24):
                if x > max_value(v, k):
                    continue
                for e in gen.ES:
                    lines.append('T crt %s %s %d' % (e, vk(v, k), x))
    # PartialEq: all pairs over a set that contains every literal of the arms and neighbours
    eks = [0, 1, 2, 3, 4, 5, 7, 8, 9, 10, 11, 16, 63]
    ecodes = [(v, None) for v in PARAMETERLESS] + [(v, k) for v in PARAMETRIC for k in eks]
    for a in ecodes:
        for b in ecodes:
            lines.append('T eq %s %s' % (vk(*a), vk(*b)))
    # codes that compare equal write the same bits
    classes = [[('Unary', None), ('Rice', 0), ('Golomb', 1)], [('Gamma', None), ('Zeta', 1), ('ExpGolomb', 0), ('Pi', 0)],
               [('Golomb', 2), ('Rice', 1)], [('Golomb', 4), ('Rice', 2)], [('Golomb', 8), ('Rice', 3)],
               [('Golomb', 16), ('Rice', 4)], [('Zeta', 3), ('Zeta', 3)], [('Delta', None), ('Omega', None)],
               [('VByteLe', None), ('VByteBe', None)]]
    for cl in classes:
        for a in cl:
            for b in cl:
                mv = min(max_value(*a), max_value(*b))
                for x in values(rng, tier, a[0], a[1], 24 if quick else 80):
                    if x > mv:
                        continue
                    for e in gen.ES:
                        lines.append('T eqw %s %s %s %d' % (e, vk(*a), vk(*b), x))
    return lines
