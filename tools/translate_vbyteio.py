#!/usr/bin/env python3
"""Translator for the `std::io` VByte functions of src/codes/vbyte.rs (`vbyte_write_be/le`,
`vbyte_read_be/le` and the dispatching `vbyte_write` / `vbyte_read`) -> lean/Dsi/Gen/VByteIOBodies.lean
as `BProg` terms (lean/Dsi/Impl/ByteProg.lean), via the engines of tools/rscps.py and
tools/translate_codes2.py.  The equality theorems are in lean/Dsi/Props/VByteIOGen.lean.

Effects (receiver = the `&mut W` / `&mut R` parameter):
   w.write_all(bytes)?          .writeAll bytes <|          bytes: `&buf[pos..]` -> buf.drop pos, `&[b]` -> [b]
   r.read_exact(&mut buf)?      .readExact buf.length fun buf =>      (`buf` a local array, rebound)
   f(args, recv) for a translated f (the tail call of the dispatch functions)
   TypeId::of::<E>() == TypeId::of::<BigEndian>()      e = Endian.be   (`e`: the endianness parameter)
   E::IS_BIG / E::IS_LITTLE                            e = Endian.be / e = Endian.le: decided with the constants
                                                       src/traits/endianness.rs defines (tools/translate_endian.py),
                                                       like the names `BigEndian`, `BE`, .. in the `TypeId` form
A local array `[0u8; N]` is a `List Nat`: `buf[i]` is `buf.getD i 0`, `buf[i] = v` is `buf.set i v`
(indices outside the array are outside the domain of the theorems); `x as u8` is `x % 256`.
"""
import os, sys
sys.path.insert(0, os.path.dirname(os.path.abspath(__file__)))
from rstok import tokenize
import rsx, rscps
import translate_codes2 as C2
from rsx import err, lean_id, par, P_ATOM, P_APP
from rscps import UNIT, lean_ty

REL = 'src/codes/vbyte.rs'

FUEL = {
    'vbyte_write_be': ('10', '.dpanic', [
        'every round performs `value >>= 7` after `value -= 1` and stops at 0: from a u64 at most 9',
        'rounds follow the first byte (10 bytes in all).']),
    'vbyte_write_le': ('10', '.dpanic', [
        'every round performs `value >>= 7` and stops at 0 (`value -= 1` only makes it smaller): a u64',
        'is exhausted after at most 10 rounds.']),
    'vbyte_read_be': ('fuel', '.dpanic', [
        'one round per continuation byte of the input: any bound not below the number of input bytes.']),
    'vbyte_read_le': ('fuel', '.dpanic', [
        'one round per byte of the input: any bound not below the number of input bytes.']),
}


class ByteDomain(C2.ProgDomain):
    def prog_type(self, cps):
        return 'BProg %s' % par((lean_ty(cps.retval), P_ATOM), P_ATOM)

    def is_effect(self, cps, e):
        k = e[0]
        if k == 'try':
            x = e[1]
            if x[0] == 'method' and self.is_recv(x[1]) and x[2] in ('write_all', 'read_exact'):
                return True
            cps.fail('`?` on something that is not `write_all` / `read_exact` on the stream')
        if k == 'method' and self.is_recv(e[1]):
            cps.fail('`.%s(..)` on the stream without `?`' % e[2])
        return False

    def effect(self, cps, e, env, hint):
        x = e[1]
        name, args = x[2], x[4]
        if len(args) != 1 or x[3]:
            cps.fail('`%s` with %d arguments' % (name, len(args)))
        if name == 'write_all':
            if self.kind != 'BW':
                cps.fail('write_all on a reader')
            a = args[0]
            if not (a[0] == 'un' and a[1] == '&'):
                cps.fail('write_all of something that is not `&..`')
            t = cps.pure.ex(a, env)
            if not (isinstance(t[2], tuple) and t[2][0] == 'list'):
                cps.fail('write_all of a %r' % (t[2],))
            return (['.writeAll %s <|' % par(t, P_ATOM)], UNIT)
        if self.kind != 'BR':
            cps.fail('read_exact on a writer')
        a = args[0]
        if not (a[0] == 'un' and a[1] == '&mut' and a[2][0] == 'var'):
            cps.fail('read_exact into something that is not `&mut <local array>`')
        v = a[2][1]
        ty = env.get(v)
        if not (isinstance(ty, tuple) and ty[0] == 'list'):
            cps.fail('read_exact into `%s`, which is not a local array' % v)
        return (['.readExact %s.length fun %s =>' % (lean_id(v), lean_id(v))], UNIT)

    def type_id(self, cps, e):
        return C2.ProgDomain.type_id(self, cps, e)

    FUEL = FUEL


def gen(src):
    rsx.Ctx.rel = REL
    toks = tokenize(src(REL))
    rsx.check_no_alias(toks, REL)
    known = {}
    out = []
    for name, kind in (('vbyte_write_be', 'BW'), ('vbyte_write_le', 'BW'), ('vbyte_write', 'BW'),
                       ('vbyte_read_be', 'BR'), ('vbyte_read_le', 'BR'), ('vbyte_read', 'BR')):
        i = C2.find_one(toks, name, REL)
        c, info = C2.one_fn(toks, i, 'fn %s' % name, REL, kind, known, name, dom_cls=ByteDomain, fuel_table=FUEL)
        fn = c.fn
        want = 'std::io::Write' if kind == 'BW' else 'std::io::Read'
        tys = [g for g in fn['generics'] if g[0] == 'type' and g[2].replace(' ', '') != 'Endianness']
        if len(tys) != 1 or tys[0][2].replace(' ', '') != want:
            err('%s: fn %s: the stream is not bounded by `%s`' % (REL, name, want))
        if 'checks' in c.used:
            err('%s: fn %s: unexpected use of the `checks` feature' % (REL, name))
        info['fuel'] = 'fuel' if 'fuel' in info['implicits'] and FUEL.get(name, ('',))[0] == 'fuel' else info['fuel']
        known[name] = info
        out += c.lines + ['']
    return out


def main(write_if_changed, HEADER, src, TranslateError):
    rsx.Ctx.TE = TranslateError
    head = [HEADER.rstrip('\n'),
            '-- (tools/translate_vbyteio.py: the `std::io` VByte functions of src/codes/vbyte.rs as `BProg` terms;',
            '-- `e` is the endianness type parameter `E` of the dispatch functions.)',
            'import Dsi.Impl.ByteProg', '', 'namespace Dsi.Gen', 'open Dsi BProg',
            'set_option linter.unusedVariables false', '']
    try:
        body = gen(src)
    except TranslateError as ex:
        write_if_changed('VByteIOBodies.lean', '\n'.join(head + ['-- TRANSLATION FAILED: %s' % str(ex).replace('\n', ' '), '',
                                                                 'end Dsi.Gen', '']))
        raise
    return ['VByteIOBodies'] if write_if_changed('VByteIOBodies.lean', '\n'.join(head + body + ['end Dsi.Gen', ''])) else []


if __name__ == '__main__':
    import translate
    try:
        print(main(translate.write_if_changed, translate.HEADER, translate.src, translate.TranslateError))
    except translate.TranslateError as ex:
        print('translate: ERROR: %s' % ex)
        sys.exit(3)
