#!/usr/bin/env python3
"""The emission engine shared by tools/translate_codes2.py (table functions, `*Param` impls, ω, VByte
over bit streams), translate_vbyteio.py (VByte over `std::io`), translate_count.py and
translate_findchange.py: a parsed Rust body (tools/rsx.py) -> a Lean term, statement by statement,
same names, same order, in continuation-passing style.

  * `let` and every assignment become a (shadowing) `let x := ..`; the text that follows an
    `if` / `if let` / `match` is repeated in every branch that falls through, so a join needs no
    tuple of the assigned variables;
  * an effect (`recv.read_bits(n)?`, a call of a translated function, a table lookup that can
    panic) is hoisted in Rust's evaluation order and becomes one line ending in `fun r =>`;
  * `return e`, `break` and falling off the end of a block are continuations;
  * `while` / `loop` / `for x in list` become an auxiliary definition `<fn>_<kind><i>` that is
    recursive on a fuel argument (or on the list); its other arguments are the variables of the
    enclosing scope it reads, the variables it assigns and, when the loop can be left other than
    by `return`, the continuation `k` applied to the assigned variables;
  * `#[cfg(feature = "checks")]` statements become `if checks then .. else ..`.

What the effects are, what `Ok(e)` / `Some(e)` / `None` become and which expressions exist besides
the integer ones is the business of the *domain* (a subclass of `Domain`).  Everything else raises
TranslateError.
"""
import os, sys
sys.path.insert(0, os.path.dirname(os.path.abspath(__file__)))
import rsx
from rsx import err, lean_id, par, Pure, P_ATOM, P_APP, P_CMP, mentions, pat_binds, assigned_vars, WIDTH


def lean_ty(ty):
    if isinstance(ty, tuple):
        if ty[0] == 'list':
            return 'List Nat'
        if ty[0] == 'opt':
            return 'Option %s' % par((lean_ty(ty[1]), P_APP if isinstance(ty[1], tuple) and ty[1][0] != 'tuple' else P_ATOM), P_ATOM)
        if ty[0] == 'tuple':
            if not ty[1]:
                return 'Unit'
            return '(%s)' % ' × '.join(lean_ty(t) for t in ty[1])
    if ty == 'bool':
        return 'Bool'
    if ty == 'endian':
        return 'Endian'
    if ty in WIDTH or ty == 'lit':
        return 'Nat'
    err('internal: no Lean type for %r' % (ty,))


UNIT = ('()', P_ATOM, ('tuple', []))


def wrap(lines):
    """parenthesise a block of lines"""
    if not lines:
        err('internal: empty block')
    first = lines[0]
    n = len(first) - len(first.lstrip())
    out = [first[:n] + '(' + first[n:]] + lines[1:]
    if out[-1].lstrip().startswith('--'):
        err('internal: block ending in a comment')
    out[-1] = out[-1] + ')'
    return out


class K:
    """the continuations of a statement list"""

    def __init__(self, fall=None, value=None, ret=None, brk=None):
        self.fall, self.value, self.ret, self.brk = fall, value, ret, brk

    def but(self, **kw):
        k = K(self.fall, self.value, self.ret, self.brk)
        for a, b in kw.items():
            setattr(k, a, b)
        return k


class Domain:
    """hooks; `cps` is the running Cps instance"""
    IMPLICIT_ORDER = ('fuel', 'e', 'checks')
    IMPLICIT_TY = {'fuel': 'Nat', 'e': 'Endian', 'checks': 'Bool'}

    def prog_type(self, cps):
        """Lean type of the function / of its loops"""
        raise NotImplementedError

    def final(self, cps, e, env, ind):
        """lines for `return e` / the value of the body"""
        raise NotImplementedError

    def effect(self, cps, e, env, hint):
        """if `e` (with its `?`, if any) is an effect: (lines, (text, prec, type)) else None.
        The lines end in `fun <var> =>`-like openings; sub-expressions have been hoisted."""
        return None

    def is_effect(self, cps, e):
        return False

    def pure(self, cps, e, env):
        """extra pure expressions: (text, prec, type) or None"""
        return None

    def iflet(self, cps, pat, e, env, ind, then_k, else_k):
        """`if let pat = e`: lines, with then_k(env, ind) / else_k(env, ind) producing the branches; or None"""
        return None

    def assign_other(self, cps, lhs, rhs_text, env, ind):
        """assignment to something that is not a variable / an element of a local list:
        (lines, env) or None"""
        return None

    def stmt_other(self, cps, s, env, ind, after):
        """statements the engine does not know (macros, ..): lines or None"""
        return None

    def out_of_fuel(self, cps, loop_name, state, has_k):
        raise NotImplementedError

    def fuel_of(self, cps, loop_name):
        """Lean text of the fuel passed at the call site: a number, or 'fuel' (the implicit parameter)"""
        raise NotImplementedError

    def loop_scope(self, cps, body):
        """variables a loop needs besides those its body mentions (e.g. what `return` hands back)"""
        return ()


class Cps:
    def __init__(self, fn, dom, implicits=(), known=None, lean_name=None):
        self.fn, self.dom = fn, dom
        self.what = fn['what']
        self.name = lean_name or fn['name']
        self.known = known or {}
        self.implicits = tuple(implicits)     # fixed by a first pass (see `translate`)
        self.used = set()                     # implicit parameters actually used
        self.aux = []                         # [(name, lines)] of auxiliary definitions
        self.nfresh = 0
        self.nloop = {}
        self.pure = Pure(self.what, hook=self._hook)
        self.order = []                       # declaration order of locals

    def fail(self, msg):
        err('%s: %s' % (self.what, msg))

    def fresh(self):
        self.nfresh += 1
        return 'r%d' % self.nfresh

    def use(self, imp):
        self.used.add(imp)
        return imp

    # ---- pure expressions
    def _hook(self, e, env):
        if e[0] == 'tmp':
            return (e[1], e[3] if len(e) > 3 else P_ATOM, e[2])
        r = self.dom.pure(self, e, env)
        if r is not None:
            return r
        k = e[0]
        if k == 'tuple':
            if not e[1]:
                return UNIT
            ts = [self.pure.ex(x, env) for x in e[1]]
            return ('(%s)' % ', '.join(t[0] for t in ts), P_ATOM, ('tuple', [t[2] for t in ts]))
        if k == 'call' and e[1] == ('var', 'Some') and len(e[2]) == 1:
            t = self.pure.ex(e[2][0], env)
            return ('some %s' % par(t, P_ATOM), P_APP, ('opt', t[2]))
        if k == 'var' and e[1] == 'None' and 'None' not in env:
            return ('none', P_ATOM, ('opt', 'lit'))
        if k == 'var' and e[1] in env and isinstance(env[e[1]], tuple):
            return (lean_id(e[1]), P_ATOM, env[e[1]])
        if k == 'repeat':
            a = self.pure.ex(e[1], env)
            n = self.pure.ex(e[2], env)
            if a[2] not in WIDTH and a[2] != 'lit':
                self.fail('array of %r' % (a[2],))
            return ('List.replicate %s %s' % (par(n, P_ATOM), par(a, P_ATOM)), P_APP, ('list', a[2]))
        if k == 'array':
            ts = [self.pure.ex(x, env) for x in e[1]]
            return ('[%s]' % ', '.join(t[0] for t in ts), P_ATOM, ('list', ts[0][2] if ts else 'lit'))
        if k == 'un' and e[1] in ('&', '&mut'):
            t = self.pure.ex(e[2], env)
            if isinstance(t[2], tuple) and t[2][0] == 'list':
                return t
            self.fail('`&` on something that is not a local array / slice')
        if k == 'method' and e[2] == 'len' and not e[4]:
            t = self.pure.ex(e[1], env)
            if isinstance(t[2], tuple) and t[2][0] == 'list':
                return ('%s.length' % par(t, P_ATOM), P_ATOM, 'usize')
            self.fail('`.len()` on %r' % (t[2],))
        if k == 'index':
            b = self.pure.ex(e[1], env)
            if isinstance(b[2], tuple) and b[2][0] == 'list':
                if e[2][0] == 'range':
                    lo, hi = e[2][1], e[2][2]
                    if hi is not None or lo is None:
                        self.fail('only `a[i..]` slices are understood')
                    i = self.pure.ex(lo, env)
                    return ('%s.drop %s' % (par(b, P_ATOM), par(i, P_ATOM)), P_APP, b[2])
                i = self.pure.ex(e[2], env)
                # a local fixed-size array: out-of-range indices are outside the domain of the theorems
                return ('%s.getD %s 0' % (par(b, P_ATOM), par(i, P_ATOM)), P_APP, b[2][1])
            self.fail('indexing of %r' % (b[2],))
        return None

    # ---- hoisting of effects
    def hoist(self, e, env, lines, pad, hint=None):
        """returns `e` with every effect replaced by ('tmp', var, type); appends the binds to `lines`"""
        if not isinstance(e, tuple) or not e:
            return e
        k = e[0]
        if self.dom.is_effect(self, e):
            inner = self.hoist_children(e, env, lines, pad)
            r = self.dom.effect(self, inner, env, hint)
            if r is None:
                self.fail('internal: effect not emitted')
            ls, t = r
            lines.extend(pad + l for l in ls)
            return ('tmp', t[0], t[2], t[1])
        if k in ('if', 'iflet', 'match', 'block', 'closure', 'return', 'break', 'macro'):
            self.fail('`%s` nested inside an expression' % k)
        if hint is not None:
            # value-preserving wrappers keep the name of the variable being bound
            if k == 'paren':
                return ('paren', self.hoist(e[1], env, lines, pad, hint))
            if k == 'cast' and e[2] in ('u64', 'usize', '_'):
                return ('cast', self.hoist(e[1], env, lines, pad, hint), e[2])
            if k == 'method' and e[2] == 'cast' and not e[4]:
                return ('method', self.hoist(e[1], env, lines, pad, hint), e[2], e[3], e[4])
        return self.hoist_children(e, env, lines, pad)

    def hoist_children(self, e, env, lines, pad):
        k = e[0]
        if k in ('num', 'bool', 'var', 'path', 'tmp'):
            return e
        if k == 'try':
            return ('try', self.hoist_children(e[1], env, lines, pad))
        if k in ('paren',):
            return ('paren', self.hoist(e[1], env, lines, pad))
        if k == 'cast':
            return ('cast', self.hoist(e[1], env, lines, pad), e[2])
        if k == 'un':
            return ('un', e[1], self.hoist(e[2], env, lines, pad))
        if k == 'bin':
            if e[1] in ('&&', '||'):
                a = self.hoist(e[2], env, lines, pad)
                n = len(lines)
                b = self.hoist(e[3], env, lines, pad)
                if len(lines) != n:
                    self.fail('an effect on the right of `%s`' % e[1])
                return ('bin', e[1], a, b)
            a = self.hoist(e[2], env, lines, pad)
            return ('bin', e[1], a, self.hoist(e[3], env, lines, pad))
        if k == 'method':
            r = self.hoist(e[1], env, lines, pad)
            return ('method', r, e[2], e[3], [self.hoist(a, env, lines, pad) for a in e[4]])
        if k == 'call':
            f = e[1] if e[1][0] in ('var', 'path') else self.hoist(e[1], env, lines, pad)
            return ('call', f, [self.hoist(a, env, lines, pad) for a in e[2]])
        if k == 'field':
            return ('field', self.hoist(e[1], env, lines, pad), e[2])
        if k == 'index':
            b = self.hoist(e[1], env, lines, pad)
            return ('index', b, self.hoist(e[2], env, lines, pad))
        if k == 'range':
            return ('range', None if e[1] is None else self.hoist(e[1], env, lines, pad),
                    None if e[2] is None else self.hoist(e[2], env, lines, pad))
        if k == 'tuple':
            return ('tuple', [self.hoist(a, env, lines, pad) for a in e[1]])
        if k == 'array':
            return ('array', [self.hoist(a, env, lines, pad) for a in e[1]])
        if k == 'repeat':
            return ('repeat', self.hoist(e[1], env, lines, pad), e[2])
        self.fail('expression `%s` is not in the translated language' % k)

    @staticmethod
    def strip_casts(e):
        while e[0] in ('cast', 'paren'):
            e = e[1]
        return e

    # ---- values
    def value(self, e, env, ind, K_, kv, hint=None):
        """evaluate `e` and hand (text, prec, type) to kv(t, env, ind)"""
        pad = '  ' * ind
        k = e[0]
        if k == 'paren' and e[1][0] in ('if', 'iflet', 'match', 'block'):
            return self.value(e[1], env, ind, K_, kv, hint)
        if k == 'if':
            lines = []
            c = self.hoist(e[1], env, lines, pad)
            ct = self.pure.ex(c, env)
            if ct[2] == 'bool':
                ctext = ct[0] if ct[1] >= P_ATOM else '%s = true' % par(ct, P_CMP + 1)
            elif ct[2] == 'prop':
                ctext = ct[0]
            else:
                self.fail('condition of type %r' % (ct[2],))
            K2 = K_.but(fall=lambda env2, ind2: kv(UNIT, env2, ind2), value=kv)
            th = self.seq(e[2], env, ind + 1, K2)
            el = self.seq(e[3] or [], env, ind + 1, K2)
            return lines + [pad + 'if %s then' % ctext] + wrap(th) + [pad + 'else'] + el
        if k == 'iflet':
            K2 = K_.but(fall=lambda env2, ind2: kv(UNIT, env2, ind2), value=kv)
            r = self.dom.iflet(self, e[1], e[2], env, ind,
                               lambda env2, ind2: self.seq(e[3], env2, ind2, K2),
                               lambda env2, ind2: self.seq(e[4] or [], env2, ind2, K2))
            if r is None:
                self.fail('this `if let` is not in the translated language')
            return r
        if k == 'match':
            return self.match(e, env, ind, K_, kv)
        if k == 'block':
            K2 = K_.but(fall=lambda env2, ind2: kv(UNIT, env2, ind2), value=kv)
            self.check_shadow(e[1], env)
            return self.seq(e[1], env, ind, K2)
        if k == 'return':
            if K_.ret is None:
                self.fail('`return` where none is possible')
            return K_.ret(e[1], env, ind)
        if k == 'break':
            if K_.brk is None:
                self.fail('`break` outside a loop')
            return K_.brk(env, ind)
        lines = []
        e2 = self.hoist(e, env, lines, pad, hint)
        t = self.pure.ex(e2, env)
        return lines + kv(t, env, ind)

    def match(self, e, env, ind, K_, kv):
        """`match <pure option> { Some(x) => .., None => .. }`"""
        pad = '  ' * ind
        lines = []
        s = self.hoist(e[1], env, lines, pad)
        st = self.pure.ex(s, env)
        if not (isinstance(st[2], tuple) and st[2][0] == 'opt'):
            self.fail('`match` on a value of type %r' % (st[2],))
        arms = e[2]
        if len(arms) != 2:
            self.fail('`match` with %d arms' % len(arms))
        K2 = K_.but(fall=lambda env2, ind2: kv(UNIT, env2, ind2), value=kv)
        out = lines + [pad + 'match %s with' % st[0]]
        seen = set()
        for pat, body in arms:
            if pat[0] == 'pctor' and pat[1] == 'Some' and len(pat[2]) == 1:
                ptxt, binds = self.pat_text(pat[2][0], st[2][1])
                ptxt = 'some %s' % ptxt
                tag = 'some'
            elif pat[0] == 'pctor' and pat[1] == 'None' and not pat[2]:
                ptxt, binds, tag = 'none', {}, 'none'
            else:
                self.fail('match arm pattern')
            if tag in seen:
                self.fail('duplicate match arm')
            seen.add(tag)
            env2 = dict(env)
            env2.update(binds)
            out.append(pad + '| %s =>' % ptxt)
            out += wrap(self.seq(body, env2, ind + 1, K2))
        return out

    def pat_text(self, pat, ty):
        """(Lean pattern text, {name: type})"""
        if pat[0] == 'pwild':
            return '_', {}
        if pat[0] == 'pbind':
            return lean_id(pat[1]), {pat[1]: ty}
        if pat[0] == 'pref':
            return self.pat_text(pat[1], ty)
        if pat[0] == 'ptuple':
            if not (isinstance(ty, tuple) and ty[0] == 'tuple' and len(ty[1]) == len(pat[1])):
                self.fail('tuple pattern against a value of type %r' % (ty,))
            parts, binds = [], {}
            for p, t in zip(pat[1], ty[1]):
                a, b = self.pat_text(p, t)
                parts.append(a)
                binds.update(b)
            return '(%s)' % ', '.join(parts), binds
        self.fail('pattern `%s`' % pat[0])

    def check_shadow(self, blk, env):
        for s in blk:
            if s[0] == 'let':
                for x in pat_binds(s[1]):
                    if x in env:
                        self.fail('block-local `%s` shadows an outer variable' % x)

    # ---- statements
    def seq(self, ss, env, ind, K_):
        pad = '  ' * ind
        if not ss:
            if K_.fall is None:
                self.fail('the body can end without a value')
            return K_.fall(env, ind)
        s, rest = ss[0], ss[1:]
        after = lambda env2, ind2=ind: self.seq(rest, env2, ind2, K_)
        k = s[0]
        if k == 'cfg':
            pos = self.cfg_pred(s[1])
            other = None
            rest2 = rest
            if rest and rest[0][0] == 'cfg' and self.cfg_pred(rest[0][1]) == (not pos):
                other = rest[0][2]
                rest2 = rest[1:]
            a = [s[2]] + rest2
            b = ([other] if other is not None else []) + rest2
            if not pos:
                a, b = b, a
            for blk in (s[2], other):
                if blk is not None and blk[0] == 'expr' and blk[1][0] == 'block':
                    self.check_shadow(blk[1][1], env)
            self.use('checks')
            return [pad + 'if checks then'] + wrap(self.seq(a, env, ind + 1, K_)) + [pad + 'else'] + \
                self.seq(b, env, ind + 1, K_)
        if k == 'let':
            pat, ty, init = s[1], s[2], s[3]
            if init is None:
                if pat[0] != 'pbind' or ty not in WIDTH:
                    self.fail('`let` without an initialiser')
                env2 = dict(env)
                env2[pat[1]] = '!uninit:' + ty
                self.note(pat[1])
                return [pad + '-- let %s: %s;' % (pat[1], ty)] + after(env2)
            if pat[0] == 'pbind':
                hint = lean_id(pat[1])
            else:
                hint = None

            def kv(t, env2, ind2):
                pad2 = '  ' * ind2
                tty = t[2]
                if ty is not None and ty in WIDTH:
                    if tty == 'lit' or tty == ty:
                        tty = ty
                    else:
                        self.fail('let %s: %s = <%r>' % (text_pat(pat), ty, tty))
                env3 = dict(env2)
                if pat[0] == 'pwild':
                    return after(env3, ind2)
                ptxt, binds = self.pat_text(pat, tty)
                for x in binds:
                    self.note(x)
                env3.update(binds)
                if pat[0] == 'pbind' and t[0] == lean_id(pat[1]) and t[1] >= P_ATOM:
                    return after(env3, ind2)          # the bind already carries the name
                return [pad2 + 'let %s := %s' % (ptxt, t[0])] + after(env3, ind2)
            return self.value(init, env, ind, K_, kv, hint)
        if k == 'assign':
            lhs, op, rhs = s[1], s[2], s[3]
            if op is not None:
                rhs = ('bin', op, lhs, rhs)
            if lhs[0] == 'var':
                x = lhs[1]
                if x not in env:
                    self.fail('assignment to unknown variable `%s`' % x)
                cur = env[x]
                uninit = isinstance(cur, str) and cur.startswith('!uninit:')
                if uninit and op is not None:
                    self.fail('`%s` used before it is assigned' % x)

                def kv(t, env2, ind2):
                    pad2 = '  ' * ind2
                    want = cur[len('!uninit:'):] if uninit else cur
                    tty = t[2]
                    if isinstance(want, str) and want in WIDTH or want == 'lit':
                        u = Pure.unify(want, tty) if isinstance(tty, str) else None
                        if u is None:
                            self.fail('assignment of a %r to `%s` of type %s' % (tty, x, want))
                        want = u
                    env3 = dict(env2)
                    env3[x] = want
                    if t[0] == lean_id(x) and t[1] >= P_ATOM:
                        return after(env3, ind2)
                    return [pad2 + 'let %s := %s' % (lean_id(x), t[0])] + after(env3, ind2)
                if rhs[0] == 'match':
                    # the arms bind names of their own (`Some(step) => step`): the value is named first
                    return self.value(rhs, env, ind, K_, kv)
                return self.value(rhs, env, ind, K_, kv, lean_id(x))
            if lhs[0] == 'index' and lhs[1][0] == 'var' and isinstance(env.get(lhs[1][1]), tuple) \
                    and env[lhs[1][1]][0] == 'list':
                x = lhs[1][1]
                lines = []
                i = self.hoist(lhs[2], env, lines, pad)
                v = self.hoist(rhs, env, lines, pad)
                it = self.pure.ex(i, env)
                vt = self.pure.ex(v, env)
                if Pure.unify(env[x][1], vt[2]) is None:
                    self.fail('element of type %r stored into `%s`' % (vt[2], x))
                return lines + [pad + 'let %s := %s.set %s %s' % (lean_id(x), lean_id(x), par(it, P_ATOM), par(vt, P_ATOM))] + after(env)
            lines = []
            v = self.hoist(rhs, env, lines, pad)
            vt = self.pure.ex(v, env)
            r = self.dom.assign_other(self, lhs, vt, env, ind)
            if r is None:
                self.fail('unsupported assignment target')
            ls, env2 = r
            return lines + ls + after(env2)
        if k == 'expr':
            e, semi = s[1], s[2]
            r = self.dom.stmt_other(self, s, env, ind, after)
            if r is not None:
                return r
            if not rest and not semi and e[0] not in ('if', 'iflet', 'match', 'block', 'return', 'break'):
                if K_.value is None:
                    self.fail('a value where the block has none')
                return self.value(e, env, ind, K_, K_.value)
            if not rest and not semi and K_.value is not None:
                # a block-like tail expression: its value is the value of the block (unit falls through)
                return self.value(e, env, ind, K_, K_.value)
            if e[0] in ('if', 'iflet', 'match', 'block'):
                return self.value(e, env, ind, K_.but(value=None), lambda t, env2, ind2: self.unit_then(t, after, env2, ind2))
            if e[0] in ('return', 'break'):
                if rest:
                    self.fail('statements after `%s`' % e[0])
                return self.value(e, env, ind, K_, None)
            return self.value(e, env, ind, K_, lambda t, env2, ind2: after(env2, ind2), '_')
        if k in ('while', 'loop', 'for'):
            return self.loop(s, rest, env, ind, K_)
        self.fail('statement `%s` is not in the translated language' % k)

    def unit_then(self, t, after, env, ind):
        if t[2] != ('tuple', []):
            self.fail('the value of a statement-level `if` / `match` is dropped')
        return after(env, ind)

    def note(self, x):
        if x not in self.order:
            self.order.append(x)

    def cfg_pred(self, pred):
        p = pred.replace(' ', '')
        if p == 'feature="checks"':
            return True
        if p == 'not(feature="checks")':
            return False
        self.fail('cfg(%s) on a statement' % pred)

    # ---- loops
    @staticmethod
    def has_break(stmts):
        """a `break` that belongs to this loop"""
        def in_e(e):
            if not isinstance(e, tuple) or not e:
                return False
            if e[0] == 'break':
                return True
            if e[0] == 'closure':
                return False
            if e[0] in ('if',):
                return in_e(e[1]) or Cps.has_break(e[2]) or Cps.has_break(e[3] or [])
            if e[0] == 'iflet':
                return Cps.has_break(e[3]) or Cps.has_break(e[4] or [])
            if e[0] == 'match':
                return any(Cps.has_break(b) for _, b in e[2])
            if e[0] == 'block':
                return Cps.has_break(e[1])
            return any(in_e(x) for x in e[1:] if isinstance(x, tuple)) or \
                any(in_e(y) for x in e[1:] if isinstance(x, list) for y in x if isinstance(y, tuple))
        for s in stmts:
            if s[0] == 'expr' and in_e(s[1]):
                return True
            if s[0] in ('let',) and s[3] is not None and in_e(s[3]):
                return True
            if s[0] == 'assign' and in_e(s[3]):
                return True
            if s[0] == 'cfg' and Cps.has_break([s[2]]):
                return True
        return False

    def loop(self, s, rest, env, ind, K_):
        pad = '  ' * ind
        kind = s[0]
        if kind == 'for':
            pat, it, body = s[1], s[2], s[3]
            cond = None
        elif kind == 'while':
            cond, body = s[1], s[2]
        else:
            cond, body = None, s[1]
        n = self.nloop.get(kind, 0) + 1
        self.nloop[kind] = n
        lname = '%s_%s%d' % (self.name, kind, n)
        self.check_shadow(body, env)
        asg = assigned_vars(body)
        for v in asg:
            if v not in env:
                self.fail('assignment to unknown variable `%s` in a loop' % v)
        state = [v for v in self.order if v in asg and v in env]
        has_k = kind in ('while', 'for') or self.has_break(body)
        if not has_k and rest:
            self.fail('statements after a `loop` without `break`')
        scope = [v for v in self.order if v in env and v not in state and isinstance(env[v], (str, tuple))
                 and not (isinstance(env[v], str) and env[v].startswith('!uninit')) and
                 (mentions(body, v) or (cond is not None and mentions(cond, v)) or v in self.dom.loop_scope(self, body))]
        # the auxiliary definition
        used_before = set(self.used)
        self.used = set()
        callk = 'k %s' % ' '.join(lean_id(v) for v in state) if state else 'k'
        if kind == 'for':
            ptxt = None
            lines_it = []
            itv = self.hoist(it, env, lines_it, pad)
            itt = self.pure.ex(itv, env)
            if not (isinstance(itt[2], tuple) and itt[2][0] == 'list'):
                self.fail('`for` over something that is not a local array / slice')
            elem_pat, binds = self.pat_text(pat, itt[2][1])
            rec = lambda env2, ind2: ['  ' * ind2 + ' '.join([lname] + self.imp_args() + [lean_id(v) for v in scope] + ['l'] +
                                                             [lean_id(v) for v in state] + ['k'])]
            env_b = dict(env)
            env_b.update(binds)
            Kb = K(fall=rec, value=None, ret=K_.ret, brk=(lambda env2, ind2: ['  ' * ind2 + callk]))
            body_lines = self.seq(body, env_b, 3, Kb)
            hdr_args = lambda: self.imp_binders() + ''.join('(%s : %s) ' % (lean_id(v), lean_ty(env[v])) for v in scope) + \
                '(l : List Nat) ' + ''.join('(%s : %s) ' % (lean_id(v), lean_ty(env[v])) for v in state)
            aux = ['  match l with', '  | [] => %s' % callk, '  | %s :: l =>' % elem_pat] + body_lines
        else:
            rec = lambda env2, ind2: ['  ' * ind2 + ' '.join([lname, 'fuel'] + self.imp_args(skip_fuel=True) + [lean_id(v) for v in scope] +
                                                             [lean_id(v) for v in state] + (['k'] if has_k else []))]
            Kb = K(fall=rec, value=None, ret=K_.ret, brk=(lambda env2, ind2: ['  ' * ind2 + callk]) if has_k else None)
            if kind == 'while':
                lines_c = []
                c = self.hoist(cond, env, lines_c, '      ')
                if lines_c:
                    self.fail('effectful loop condition')
                ct = self.pure.cond(c, env)
                body_lines = ['    if %s then' % ct[0]] + wrap(self.seq(body, env, 3, Kb)) + ['    else %s' % callk]
            else:
                body_lines = self.seq(body, env, 2, Kb)
            hdr_args = lambda: self.imp_binders(skip_fuel=True) + ''.join('(%s : %s) ' % (lean_id(v), lean_ty(env[v])) for v in scope) + \
                ''.join('(%s : %s) ' % (lean_id(v), lean_ty(env[v])) for v in state)
            oof = self.dom.out_of_fuel(self, lname, state, has_k)
            aux = ['  match fuel with', '  | 0 => %s' % oof, '  | fuel + 1 =>'] + body_lines
        T = self.dom.prog_type(self)
        kty = ' → '.join([lean_ty(env[v]) for v in state] + [T]) if state else T
        body_used = set(self.used)
        self.used = used_before | body_used
        hdr = 'def %s %s%s%s: %s :=' % (lname, '(fuel : Nat) ' if kind != 'for' else '', hdr_args(),
                                       '(k : %s) ' % kty if has_k else '', T)
        doc = '/-- the %s `%s` of `%s`%s -/' % (
            {1: 'first', 2: 'second', 3: 'third'}.get(n, '%dth' % n), kind, self.fn['name'],
            '; state: %s' % ', '.join(state) if state else '')
        self.aux.append((lname, [doc, hdr] + aux + ['']))
        # the call
        if kind == 'for':
            call = [lname] + self.imp_args() + [lean_id(v) for v in scope] + [par(itt, P_ATOM)] + [lean_id(v) for v in state]
            pre = lines_it
        else:
            fuel = self.dom.fuel_of(self, lname)
            if fuel == 'fuel':
                self.use('fuel')
            call = [lname, fuel] + self.imp_args(skip_fuel=True) + [lean_id(v) for v in scope] + [lean_id(v) for v in state]
            pre = []
        if not has_k:
            return pre + [pad + ' '.join(call)]
        if state:
            cont = 'fun %s =>' % ' '.join(lean_id(v) for v in state)
            return pre + [pad + ' '.join(call) + ' ' + cont] + self.seq(rest, env, ind, K_)
        return pre + [pad + ' '.join(call) + ' <|'] + self.seq(rest, env, ind, K_)

    def imp_list(self, skip_fuel=False):
        return [i for i in self.dom.IMPLICIT_ORDER if i in self.implicits and not (skip_fuel and i == 'fuel')]

    def imp_args(self, skip_fuel=False):
        out = self.imp_list(skip_fuel)
        for i in out:
            self.used.add(i)
        return out

    def imp_binders(self, skip_fuel=False):
        return ''.join('(%s : %s) ' % (i, self.dom.IMPLICIT_TY[i]) for i in self.imp_list(skip_fuel))


def text_pat(p):
    if p[0] == 'pbind':
        return p[1]
    return p[0]


def translate(make, fn):
    """two passes: the first finds which implicit parameters (fuel, e, checks) the function needs"""
    c = make(())
    c.run()
    used = tuple(i for i in c.dom.IMPLICIT_ORDER if i in c.used)
    for _ in range(4):
        c = make(used)
        c.run()
        used2 = tuple(i for i in c.dom.IMPLICIT_ORDER if i in c.used)
        if used2 == used:
            return c
        used = used2
    err('%s: the set of implicit parameters does not settle' % fn['what'])
