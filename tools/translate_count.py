#!/usr/bin/env python3
"""Translator for src/utils/count.rs: the `BitWrite` / `BitRead` impls of `CountBitWriter` /
`CountBitReader` and their `GammaWrite` / `DeltaWrite` / `ZetaWrite` / `GammaRead` / `DeltaRead` /
`ZetaRead` impls -> lean/Dsi/Gen/CountBodies.lean, as functions on the states `CountW ω` /
`CountR ρ` of lean/Dsi/Glue/Wrappers.lean.  The equality theorems (against `CountW.impl`,
`CountR.impl`, `CountW.forward`, `CountR.forward`) are in lean/Dsi/Props/CountGen.lean.

Every method body must have one of the shapes

    self.<inner>.m(args).inspect(|x| { STMTS })         -- forward, then update the counter on `Ok`
    STMTS  self.<inner>.m(args)                         -- update the counter, then forward
    self.<inner>.m(args)                                -- forward

with STMTS among   self.<counter> += e;   if PRINT { eprintln!(..); .. }   (the `PRINT` branch may
only print: its `eprintln!` arguments must be plain names, field accesses and `*x`).

  self.<inner>.m(args) for m a `BitWrite` / `BitRead` method     wi.writeBits s.inner .. / ri.readBits s.inner ..
  self.<inner>.m(args) for m a method of the code traits         inner_m s.inner ..   (`inner_m`: a parameter
                                                                  of the generated definition: the inner
                                                                  object's implementation of that method)
  r.inspect(|x| { .. })     Res.bind r fun (x, inner) => let s := { s with inner := inner }; ..; .ok (x, s)
  self.<counter> += e;      let s := { s with <counter> := s.<counter> + e }
  len_gamma(e) / len_delta(e) / len_zeta(e, k)                   the definitions of lean/Dsi/Gen/LenFormulas.lean
`Result::inspect` calls the closure on the `Ok` value only and returns the result unchanged; an
`Err` leaves the function with that error (the model's `Res.err` carries no state).
"""
import os, re, sys
sys.path.insert(0, os.path.dirname(os.path.abspath(__file__)))
from rstok import tokenize, match_close
import rsx
from rsx import err, lean_id, par, Pure, P_ATOM, P_APP, WIDTH

REL = 'src/utils/count.rs'

# trait -> (struct, [(method, kind)]); kind: 'prim' = a field of WImpl / RImpl, 'code' = a code-trait method
W_PRIMS = {'write_bits': ('writeBits', 2, 'res'), 'write_unary': ('writeUnary', 1, 'res'), 'flush': ('flush', 0, 'res')}
R_PRIMS = {'read_bits': ('readBits', 1, 'res'), 'read_unary': ('readUnary', 0, 'res'), 'peek_bits': ('peekBits', 1, 'res'),
           'skip_bits': ('skipBits', 1, 'unitres'), 'skip_bits_after_peek': ('skipAfterPeek', 1, 'pure')}
IMPLS = [
    ('BitWrite', 'CountBitWriter', ['write_bits', 'write_unary', 'flush']),
    ('GammaWrite', 'CountBitWriter', ['write_gamma']),
    ('DeltaWrite', 'CountBitWriter', ['write_delta']),
    ('ZetaWrite', 'CountBitWriter', ['write_zeta', 'write_zeta3']),
    ('BitRead', 'CountBitReader', ['read_bits', 'read_unary', 'peek_bits', 'skip_bits', 'skip_bits_after_peek']),
    ('GammaRead', 'CountBitReader', ['read_gamma']),
    ('DeltaRead', 'CountBitReader', ['read_delta']),
    ('ZetaRead', 'CountBitReader', ['read_zeta', 'read_zeta3']),
]
LEN_FUNCS = {'len_gamma': 1, 'len_delta': 1, 'len_zeta': 2}
STRUCTS = {'CountBitWriter': dict(state='CountW ω', tyvar='ω', impl='wi', impl_ty='WImpl ω', inner_bound='BitWrite',
                                  counter_lean='bitsWritten', prims=W_PRIMS),
           'CountBitReader': dict(state='CountR ρ', tyvar='ρ', impl='ri', impl_ty='RImpl ρ', inner_bound='BitRead',
                                  counter_lean='bitsRead', prims=R_PRIMS)}


def struct_fields(toks, name):
    """{field: type text} of `struct name<..> { .. }`; the inner-object field (its type is a generic
    parameter) and the counter field (usize)"""
    for i in range(len(toks) - 1):
        if toks[i] == ('id', 'struct') and toks[i + 1] == ('id', name):
            j = i + 2
            generics = []
            if toks[j] == ('p', '<'):
                p = rsx.Parser(toks, 'struct %s' % name)
                p.i = j
                a = p.i
                p._angles()
                inner = toks[a + 1:p.i - 1]
                generics = [inner[k][1] for k in range(len(inner)) if inner[k][0] == 'id' and (k == 0 or inner[k - 1] == ('p', ','))
                            and k + 1 < len(inner) and inner[k + 1] == ('p', ':')]
                j = p.i
            while toks[j] != ('p', '{'):
                if toks[j] == ('p', ';'):
                    err('struct %s has no named fields' % name)
                j += 1
            c = match_close(toks, j)
            fields = {}
            from rstok import split_top
            for part in split_top(toks[j + 1:c]):
                part = [t for t in part]
                while part and part[0] == ('p', '#'):
                    k = 1
                    close = match_close(part, k)
                    part = part[close + 1:]
                if part and part[0] == ('id', 'pub'):
                    part = part[1:]
                if len(part) >= 3 and part[1] == ('p', ':'):
                    fields[part[0][1]] = rsx.text_of(part[2:])
            inner = [f for f, t in fields.items() if t in generics]
            counter = [f for f, t in fields.items() if t == 'usize']
            if len(inner) != 1 or len(counter) != 1:
                err('struct %s: cannot tell the inner object / the counter (fields %r)' % (name, fields))
            return inner[0], counter[0]
    err('struct %s not found' % name)


class Method:
    def __init__(self, fn, S, inner_f, counter_f, what):
        self.fn, self.S, self.inner_f, self.counter_f, self.what = fn, S, inner_f, counter_f, what
        self.pure = Pure(what, hook=self.hook)
        self.externs = []           # code-trait methods of the inner object: parameters
        self.uses_impl = False

    def fail(self, msg):
        err('%s: %s' % (self.what, msg))

    def hook(self, e, env):
        k = e[0]
        if k == 'field' and e[1] == ('var', 'self'):
            if e[2] == self.counter_f:
                return ('s.%s' % self.S['counter_lean'], P_ATOM, 'usize')
            self.fail('use of `self.%s`' % e[2])
        if k == 'call' and e[1][0] == 'var' and e[1][1] in LEN_FUNCS:
            if len(e[2]) != LEN_FUNCS[e[1][1]]:
                self.fail('`%s` with %d arguments' % (e[1][1], len(e[2])))
            ts = [self.pure.ex(a, env) for a in e[2]]
            return (' '.join([e[1][1]] + [par(t, P_ATOM) for t in ts]), P_APP, 'usize')
        return None

    def inner_call(self, e, env):
        """`self.<inner>.m(args)` -> (Lean text of the call, kind, method name)"""
        if not (e[0] == 'method' and e[1] == ('field', ('var', 'self'), self.inner_f) and not e[3]):
            self.fail('expected a call `self.%s.<method>(..)`' % self.inner_f)
        m, args = e[2], e[4]
        ats = [par(self.pure.ex(a, env), P_ATOM) for a in args]
        for a in args:
            if rsx.mentions(a, 'self'):
                self.fail('`self` in an argument of the forwarded call')
        prims = self.S['prims']
        if m in prims:
            fld, n, kind = prims[m]
            if len(args) != n:
                self.fail('`%s` with %d arguments' % (m, len(args)))
            self.uses_impl = True
            return ' '.join(['%s.%s' % (self.S['impl'], fld), 's.inner'] + ats), kind, m
        ext = 'inner_' + m
        if (ext, len(args)) not in self.externs:
            self.externs.append((ext, len(args)))
        return ' '.join([ext, 's.inner'] + ats), 'res', m

    def print_only(self, blk):
        for st in blk:
            if not (st[0] == 'expr' and st[1][0] == 'macro' and st[1][1] == 'eprintln'):
                self.fail('the `PRINT` branch does more than print')
            for arg in st[1][2]:
                for t in arg:
                    if t[0] == 'str' or t[0] == 'id' or (t[0] == 'p' and t[1] in ('.', '*')) or t[0] == 'num':
                        continue
                    self.fail('an `eprintln!` argument is not a plain name / field (`%s`)' % rsx.text_of(arg))

    def stmts(self, ss, env, pad):
        """counter updates / print branches -> lines"""
        out = []
        for st in ss:
            if st[0] == 'assign' and st[1] == ('field', ('var', 'self'), self.counter_f) and st[2] == '+':
                t = self.pure.ex(st[3], env)
                c = self.S['counter_lean']
                out.append('%slet s := { s with %s := s.%s + %s }' % (pad, c, c, par(t, rsx.P_ADD + 1)))
                continue
            if st[0] == 'expr' and st[1][0] == 'if' and st[1][1] == ('var', 'PRINT') and st[1][3] is None:
                self.print_only(st[1][2])
                out.append('%s-- if PRINT { eprintln!(..) }   (prints only)' % pad)
                continue
            self.fail('statement `%s` is not in the translated language' % st[0])
        return out

    def emit(self):
        fn = self.fn
        if fn['recv'] != '&mut self':
            self.fail('receiver `%s`' % fn['recv'])
        env = {}
        binders = ''
        for x, mut, ty in fn['params']:
            if ty not in WIDTH or mut:
                self.fail('parameter `%s` of type `%s`' % (x, ty))
            env[x] = ty
            binders += '(%s : Nat) ' % lean_id(x)
        body = list(fn['body'])
        if not body or body[-1][0] != 'expr' or body[-1][2]:
            self.fail('the body does not end in an expression')
        tail = body[-1][1]
        pre = self.stmts(body[:-1], env, '  ')
        lines = list(pre)
        S = self.S
        if tail[0] == 'method' and tail[2] == 'inspect' and len(tail[4]) == 1 and tail[4][0][0] == 'closure' and not tail[3]:
            if pre:
                self.fail('statements before a forwarded call with `.inspect`')
            clo = tail[4][0]
            if len(clo[1]) != 1:
                self.fail('`.inspect` closure with %d parameters' % len(clo[1]))
            x = clo[1][0]
            call, kind, m = self.inner_call(tail[1], env)
            if kind != 'res':
                self.fail('`.inspect` on the result of `%s`' % m)
            env2 = dict(env)
            env2[x] = 'u64'
            lines.append('  Res.bind (%s) fun (%s, inner) =>' % (call, lean_id(x)))
            lines.append('  let s := { s with inner := inner }')
            lines += self.stmts(clo[2], env2, '  ')
            lines.append('  .ok (%s, s)' % lean_id(x))
            ret = 'Res (Nat × %s)' % S['state']
        else:
            call, kind, m = self.inner_call(tail, env)
            if kind == 'res':
                lines.append('  Res.bind (%s) fun (r, inner) =>' % call)
                lines.append('  .ok (r, { s with inner := inner })')
                ret = 'Res (Nat × %s)' % S['state']
            elif kind == 'unitres':
                lines.append('  Res.bind (%s) fun inner =>' % call)
                lines.append('  .ok { s with inner := inner }')
                ret = 'Res (%s)' % S['state']
            else:
                lines.append('  { s with inner := %s }' % call)
                ret = S['state']
        # return type of the Rust method must fit
        r = (fn['ret'] or '').replace(' ', '')
        if kind == 'pure' and fn['ret'] is not None:
            self.fail('return type `%s`' % fn['ret'])
        if kind == 'unitres' and not r.startswith('Result<(),'):
            self.fail('return type `%s`' % fn['ret'])
        if kind == 'res' and not r.startswith('Result<'):
            self.fail('return type `%s`' % fn['ret'])
        tv = S['tyvar']
        hdr = '{%s : Type} ' % tv
        if self.uses_impl:
            hdr += '(%s : %s) ' % (S['impl'], S['impl_ty'])
        for ext, n in self.externs:
            hdr += '(%s : %s) ' % (ext, ' → '.join([tv] + ['Nat'] * n + ['Res (Nat × %s)' % tv]))
        hdr += '(PRINT : Bool) (s : %s) ' % S['state']
        return hdr + binders, ret, lines


def gen(src):
    rsx.Ctx.rel = REL
    toks = tokenize(src(REL))
    rsx.check_no_alias(toks, REL)
    out = []
    fields = {}
    for sname in STRUCTS:
        fields[sname] = struct_fields(toks, sname)
    for trait, sname, methods in IMPLS:
        S = STRUCTS[sname]
        pred = lambda hdr, trait=trait, sname=sname: re.search(r'> %s < E > for %s <' % (trait, sname), hdr) is not None
        found = rsx.find_impls(toks, pred)
        if len(found) != 1:
            err('expected exactly one `impl %s<E> for %s`, found %d' % (trait, sname, len(found)))
        hdr, o, c = found[0]
        if 'const PRINT : bool' not in hdr:
            err('`impl %s<E> for %s`: no `const PRINT: bool` parameter' % (trait, sname))
        for m in methods:
            hits = rsx.find_fns(toks, o + 1, c, m)
            if len(hits) != 1:
                err('`impl %s<E> for %s`: expected exactly one fn %s, found %d' % (trait, sname, m, len(hits)))
            what = 'impl %s<E> for %s: fn %s' % (trait, sname, m)
            fn = rsx.parse_fn_at(toks, hits[0], what)
            if fn['generics']:
                err('%s: generic method' % what)
            M = Method(fn, S, fields[sname][0], fields[sname][1], what)
            hdrtxt, ret, lines = M.emit()
            out.append('/-- `%s` (%s) -/' % (what, REL))
            out.append('def %s.%s %s: %s :=' % (sname, m, hdrtxt, ret))
            out += lines
            out.append('')
    return out


def main(write_if_changed, HEADER, src, TranslateError):
    rsx.Ctx.TE = TranslateError
    head = [HEADER.rstrip('\n'),
            '-- (tools/translate_count.py: the trait impls of `CountBitWriter` / `CountBitReader`, src/utils/count.rs,',
            '-- on the states of lean/Dsi/Glue/Wrappers.lean; `inner_m` is the inner object\'s method `m`.)',
            'import Dsi.Glue.Wrappers', 'import Dsi.Gen.LenFormulas', '', 'namespace Dsi.Gen', 'open Dsi',
            'set_option linter.unusedVariables false', '']
    try:
        body = gen(src)
    except TranslateError as ex:
        write_if_changed('CountBodies.lean', '\n'.join(head + ['-- TRANSLATION FAILED: %s' % str(ex).replace('\n', ' '), '',
                                                               'end Dsi.Gen', '']))
        raise
    return ['CountBodies'] if write_if_changed('CountBodies.lean', '\n'.join(head + body + ['end Dsi.Gen', ''])) else []


if __name__ == '__main__':
    import translate
    try:
        print(main(translate.write_if_changed, translate.HEADER, translate.src, translate.TranslateError))
    except translate.TranslateError as ex:
        print('translate: ERROR: %s' % ex)
        sys.exit(3)
