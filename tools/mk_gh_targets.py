#!/usr/bin/env python3
"""Regenerates tools/gh_targets.json: audited theorem name (lean/props.json) -> GH target(s) of
`ghdriver` (lean/GH.lean), for the equality theorems of lean/Dsi/Props/*Gen.lean.

    python3 tools/mk_gh_targets.py            # rewrite the table, print the coverage
The rules below are per proof module: a regular expression on the short theorem name and the targets
it maps to (`\\1` … refer to groups).  A theorem with no target carries the reason.
"""
import json, os, re, sys
ROOT = os.path.dirname(os.path.dirname(os.path.abspath(__file__)))
sys.path.insert(0, os.path.join(ROOT, 'tools'))
import gen_gh

FILES = ("BufWriterGen BufReaderGen BitReaderGen LenGen CodeBodiesGen OmegaGen VByteGen VByteIOGen MemWordGen CountGen "
         "StatsGen ZigZagGen AdapterGen FindChangeGen CopyGen BufWriterCopyGen IOGen TableFnsGen TeardownGen DbgGen CheckTablesGen").split()

ARITH = 'arithmetic / combinator lemma used by the equality proofs: its statement does not mention a generated definition'
HAND = 'about the hand model (or the session interpreter) only: no generated definition occurs in the statement'
GENERIC = 'stated for arbitrary tables / programs / implementations: the instances that mention generated text have their own targets'

BUFR = ['refill', 'peek_bits', 'skip_bits_after_peek', 'read_bits', 'read_unary', 'skip_bits', 'set_bit_pos', 'bit_pos']
DBG_R = ['dbg_read_bits', 'dbg_peek_bits', 'dbg_read_unary', 'dbg_skip_bits', 'dbg_skip_bits_after_peek', 'dbg_read_gamma',
         'dbg_read_delta', 'dbg_read_zeta', 'dbg_read_zeta3']
DBG_W = ['dbg_write_bits', 'dbg_write_unary', 'dbg_flush', 'dbg_write_gamma', 'dbg_write_delta', 'dbg_write_zeta', 'dbg_write_zeta3']
IO_R = ['io_read_bufr_be', 'io_read_bufr_le', 'io_read_bitr_be', 'io_read_bitr_le']


def both(x):
    return [x + '_be', x + '_le']


RULES = {
    'BufWriterGen': [
        (r'(flush|write_bits|write_unary)_(be|le)_eq(_nat)?$', lambda m: ['%s_%s' % (m.group(1), m.group(2))]),
        (r'(genImpl_writeBits|gen_writeBits_sim)$', lambda m: both('write_bits')),
        (r'(genImpl_writeUnary|gen_writeUnary_sim)$', lambda m: both('write_unary')),
        (r'(genImpl_flush|gen_flush_sim)$', lambda m: both('flush')),
    ],
    'BufReaderGen': [
        (r'(%s)_(be|le)_eq$' % '|'.join(BUFR), lambda m: ['bufr_%s_%s' % (m.group(1), m.group(2))]),
        (r'(whileN_readWords|readWords)(LE|BE)(_bound)?$', lambda m: ['bufr_read_bits_' + m.group(2).lower()]),
        (r'read_bits_(le|be)_fuel$', lambda m: ['bufr_read_bits_' + m.group(1)]),
        (r'loopN_unaryWords(LE|BE)$', lambda m: ['bufr_read_unary_' + m.group(1).lower()]),
        (r'(whileN_skipWords|skipWords_bound|skip_bits_fuel)$', lambda m: both('bufr_skip_bits')),
        (r'(toNat_ofNat_add|ofNat_toNat_of_lt|whileN_fuel_irrelevant)$', ARITH),
        (r'(genImpl_readBits|gen_readBits_sim)$', lambda m: both('bufr_read_bits')),
        (r'(genImpl_peekBits|gen_peekBits_sim)$', lambda m: both('bufr_peek_bits')),
        (r'genImpl_skipAfterPeek$', lambda m: both('bufr_skip_bits_after_peek')),
        (r'(genImpl_skipBits|gen_skipBits_sim)$', lambda m: both('bufr_skip_bits')),
        (r'(genImpl_readUnary|gen_readUnary_sim)$', lambda m: both('bufr_read_unary')),
        (r'gen_setBitPos_sim$', lambda m: both('bufr_set_bit_pos')),
        (r'gen_bitPos_eq$', lambda m: both('bufr_bit_pos')),
    ],
    'BitReaderGen': [
        (r'(%s)_(be|le)_eq$' % '|'.join(BUFR), lambda m: ['bitr_%s_%s' % (m.group(1), m.group(2))]),
        (r'loopN_unaryLoop_(be|le)$', lambda m: ['bitr_read_unary_' + m.group(1)]),
        (r'(ofNat_toNat_of_lt|idx_div|idx_mod|idx_add|ofNat_lt_iff|off_ofNat|biw_ofNat)$', ARITH),
        (r'(setWordPos_data|readWord_data)$', HAND),
        (r'(genImpl_readBits|gen_bitr_readBits_sim)$', lambda m: both('bitr_read_bits')),
        (r'(genImpl_peekBits|gen_bitr_peekBits_sim)$', lambda m: both('bitr_peek_bits')),
        (r'genImpl_skipAfterPeek$', lambda m: both('bitr_skip_bits_after_peek')),
        (r'(genImpl_skipBits|gen_bitr_skipBits)$', lambda m: both('bitr_skip_bits')),
        (r'(genImpl_readUnary|gen_bitr_readUnary_sim)$', lambda m: both('bitr_read_unary')),
        (r'gen_bitr_bitPos$', lambda m: both('bitr_bit_pos')),
        (r'gen_bitr_setBitPos$', lambda m: both('bitr_set_bit_pos')),
    ],
    'LenGen': [
        (r'(len_\w+?|byte_len_vbyte|bit_len_vbyte)_(eq|true|false)$', lambda m: [m.group(1)]),
    ],
    'CodeBodiesGen': [
        (r"((default_)?write_\w+?)_eq'?$", lambda m: [m.group(1)]),
        (r'((default_)?read_\w+?)_guarded$', lambda m: [m.group(1)]),
        (r'(refR_bounded|Guarded\.sound|Guarded\.bind)$', GENERIC),
    ],
    'OmegaGen': [
        (r'recursive_write_eq$', lambda m: ['recursive_write']), (r'write_omega_eq$', lambda m: ['write_omega']),
        (r'read_omega_loop_guarded$', lambda m: ['read_omega_loop']), (r'read_omega_guarded$', lambda m: ['read_omega']),
    ],
    'VByteGen': [
        (r'read_vbyte_(be|le)(_loop)?_guarded$', lambda m: ['read_vbyte_' + m.group(1)]),
        (r'(for_eq|be_while_eq|write_vbyte_be_eq)$', lambda m: ['write_vbyte_be']),
        (r'(le_loop_eq|write_vbyte_le_eq)$', lambda m: ['write_vbyte_le']),
    ],
    'VByteIOGen': [
        (r'(be_while_eq|vbyte_write_be_run)$', lambda m: ['vbyte_write_be']), (r'(le_loop_run|vbyte_write_le_run)$', lambda m: ['vbyte_write_le']),
        (r'vbyte_write_dispatch$', lambda m: ['vbyte_write_dispatch']),
        (r'(be_read_loop_run|vbyte_read_be_run)$', lambda m: ['vbyte_read_be']), (r'(le_read_loop_run|vbyte_read_le_run)$', lambda m: ['vbyte_read_le']),
        (r'vbyte_read_dispatch$', lambda m: ['vbyte_read_dispatch']),
    ],
    'MemWordGen': [
        (r'(read_word|word_pos|set_word_pos)_(inf|strict)_eq$', lambda m: ['memr_%s_%s' % (m.group(1), m.group(2))]),
        (r'(read_word|word_pos|set_word_pos|len|write_word)_(slice|vec)_eq$', lambda m: ['memw_%s_%s' % (m.group(1), m.group(2))]),
        (r'resize_set$', lambda m: ['memw_write_word_vec']),
    ],
    'CountGen': [
        (r"(write_bits|write_unary|flush|write_gamma|write_delta|write_zeta3|write_zeta|read_bits|read_unary|peek_bits|skip_bits_after_peek|skip_bits|read_gamma|read_delta|read_zeta3|read_zeta)_eq'?$",
         lambda m: ['count_' + m.group(1)]),
        (r'forward_congr$', HAND),
    ],
    'StatsGen': [
        (r'(update_many|update|add|add_assign|add_trait|default|sum|best_code|read_dyn|read_static|write_dyn|write_static)_eq$', lambda m: ['stats_' + m.group(1)]),
        (r'best_code_spec$', lambda m: ['stats_best_code']), (r'runUpdates_exact$', lambda m: ['stats_run_updates', 'stats_update_many']),
        (r'new_eq$', lambda m: ['stats_wrapper_new']), (r'into_inner_eq$', lambda m: ['stats_wrapper_into_inner']),
    ],
    'ZigZagGen': [
        (r'(to_int|to_nat)(_[ui]\w+)?_eq$', lambda m: [m.group(1) + (m.group(2) or '')]),
        (r'(impls_eq|impl_widths)$', lambda m: ['zz_impls']),
        (r'(gen_roundtrip|gen_spec)$', lambda m: ['to_int', 'to_nat']),
    ],
    'AdapterGen': [
        (r'divCeil_eq$', lambda m: ['ad_div_ceil']), (r'fromNeBytes_toNeBytes$', HAND),
        (r'(new_eq|into_inner_eq)$', lambda m: ['ad_new_into_inner']),
        (r'(read_word_eq|read_word_source_eq)$', lambda m: ['ad_read_word_source', 'ad_read_word_cursor']),
        (r'(read_word_cursor_eq|ad_rw_is_gen)$', lambda m: ['ad_read_word_cursor']),
        (r'(write_word_eq|write_word_sink_eq)$', lambda m: ['ad_write_word_sink']), (r'flush_eq$', lambda m: ['ad_flush']),
        (r'(word_pos_eq|word_pos_cursor_eq|ad_wp_is_gen)$', lambda m: ['ad_word_pos']),
        (r'(set_word_pos_eq|set_word_pos_cursor_eq|ad_sp_is_gen)$', lambda m: ['ad_set_word_pos']),
        (r'set_word_pos_cursor_wraps$', lambda m: ['ad_set_word_pos_wraps']),
    ],
    'FindChangeGen': [(r'(exp_eq|bin_eq|next_eq)$', lambda m: ['fc_next'])],
    'CopyGen': [
        (r'copy_to_(be|le)_eq$', lambda m: ['copy_to_' + m.group(1)]),
        (r'(whileN_copyBuffered|whileN_copyWords|genCopyTo_eq|gen_copyTo_sim)$', lambda m: both('copy_to')),
        (r'(readBits_in_buffer|copyWords_bound)$', HAND),
        (r'whileN_copyGeneric$', lambda m: ['copy_to_default', 'copy_from_default']),
        (r'(copy_to_default|copy_from_default)_eq$', lambda m: [m.group(1)]),
    ],
    'BufWriterCopyGen': [
        (r'(cast64|ofNat64_toNat)$', ARITH),
        (r'copy_from_(be|le)_eq$', lambda m: ['copy_from_' + m.group(1)]),
        (r'(forN_copyWordsFrom|copyWordsFrom_upd|genCopyFrom_eq|gen_copyFrom_sim)$', lambda m: both('copy_from')),
    ],
    'IOGen': [
        (r'(fold_toNat|cut_be|cut_le|ioReadLoop_length)$', ARITH),
        (r'(forEachN_chunks|write_eq_aux)$', lambda m: both('io_write')),
        (r'write_(be|le)_eq$', lambda m: ['io_write_' + m.group(1)]),
        (r'(forRange_readLoop|read_eq_aux)$', lambda m: IO_R),
        (r'read_(bufr|bitr)_(be|le)_eq$', lambda m: ['io_read_%s_%s' % (m.group(1), m.group(2))]),
    ],
    'TableFnsGen': [
        (r'(readTableG|lenTableG|writeTableG)_(guarded|eq)$', GENERIC),
        (r'(gamma|delta|zeta)_(read|len|write)_table_(shape|guarded|eq)$', lambda m: ['%s_%s_table' % (m.group(1), m.group(2))]),
        (r'(read_gamma_param|default_read_delta_param|read_delta_param|read_zeta_param|read_zeta3_param)_guarded$', lambda m: [m.group(1)]),
        (r'(write_gamma_param|default_write_delta_param|write_delta_param|write_zeta_param|write_zeta3_param)_eq$', lambda m: [m.group(1)]),
    ],
    'TeardownGen': [
        (r'flush_eq$', lambda m: ['td_flush']), (r'(drop_eq|drop_flushed)$', lambda m: ['td_drop']), (r'into_inner_eq$', lambda m: ['td_into_inner']),
        (r'(into_inner_ok|into_inner_err|sess_wdrop|sess_winto|sess_winto_gen|dump_of_backend)$', HAND),
        (r'(bufr|countw|countr|memw_slice|memw_vec|memr)_into_inner_eq$', lambda m: ['td_%s_into_inner' % m.group(1)]),
    ],
    'DbgGen': [
        (r'(bind_ok_eta|bind_ok_id)$', ARITH),
        (r'(reader_new_eq|writer_new_eq)$', 'the constructor is the identity on the wrapped state (`rfl`): every dbg target goes through it'),
        (r'(read_bits|peek_bits|read_unary|skip_bits_after_peek|skip_bits|write_bits|write_unary|flush|read_gamma|read_delta|read_zeta3|read_zeta|write_gamma|write_delta|write_zeta3|write_zeta)_eq$',
         lambda m: ['dbg_' + m.group(1)]),
        (r'(reader_impl_eq|rprog_transparent|rcode_transparent)$', lambda m: DBG_R),
        (r'(writer_impl_eq|wprog_transparent|wcode_transparent)$', lambda m: DBG_W),
        (r'copyGeneric_transparent$', lambda m: DBG_R + DBG_W),
        (r'(reader_methods|writer_methods)$', lambda m: ['dbg_methods']),
    ],
    'CheckTablesGen': [
        (r'check_tables_eq$', lambda m: ['check_tables']), (r'(compared_eq|callers_eq)$', lambda m: ['check_tables_consts']),
        (r'(buf_peek_bits_eq|buf_diag_eq|buf_diag_mem)$', lambda m: ['check_tables_buf', 'check_tables']),
        (r'(bit_peek_bits_eq|bit_diag_eq|bit_diag_mem|bitR_peek_beyond)$', lambda m: ['check_tables_bit', 'check_tables']),
        (r'session_peekMax$', lambda m: ['check_tables_buf', 'check_tables_bit']),
    ],
}

# documented caps (lean/Dsi/GH/*.lean answer `capped` beyond them) and the family a witness is replayed through
CAPS = {
    'write_unary_be': 'inherently linear in value/W (one backend word per W zeros): value <= 65536 unless the state has a capacity (cap <= out+4096), where the loop stops at the capacity',
    'write_unary_le': 'as write_unary_be',
    'copy_from_be': 'a zero-extended reference reader never ends: n <= 2^20 there (scripted / strict readers: any n); writer capacity as write_unary_be',
    'copy_from_le': 'as copy_from_be',
    'copy_to_be': 'zero-extended backend: n <= 2^22 (strict backend: any n, the copy stops at the end of the data)',
    'copy_to_le': 'as copy_to_be',
    'copy_to_default': 'zero-extended reference reader: n <= 2^20', 'copy_from_default': 'zero-extended reference reader: n <= 2^20',
    'memw_write_word_vec': 'resizing the vector is linear in the position: pos <= 65536',
    'stats_sum': 'at most 64 summands', 'stats_run_updates': 'at most 256 observations',
}
for _e in ('be', 'le'):
    CAPS['bufr_skip_bits_' + _e] = 'zero-extended backend: n <= 2^22 (one backend word per W bits); strict backend: any n'
    for _m in ('peek_bits', 'read_bits', 'skip_bits_after_peek'):
        CAPS['bufr_%s_%s' % (_m, _e)] = 'n <= 65536 (a shift by n is materialised)'
    for _m in ('peek_bits', 'read_bits'):
        CAPS['bitr_%s_%s' % (_m, _e)] = 'n <= 65536 (a shift by n is materialised)'
    for _m in ('read_unary',):
        CAPS['bufr_%s_%s' % (_m, _e)] = 'at most 65536 backend words (each is scanned once)'
        CAPS['bitr_%s_%s' % (_m, _e)] = 'at most 65536 backend words (each is scanned once)'
for _t in ('len_zeta_param', 'len_zeta', 'len_rice', 'len_pi', 'len_exp_golomb', 'read_rice', 'read_pi', 'read_exp_golomb',
           'default_read_zeta', 'read_zeta_param', 'count_read_zeta'):
    CAPS[_t] = 'parameter <= 65536 (2^k is materialised)'


def replay_family(target):
    probe = {
        'LEN1': gen_gh.LEN1, 'S wc': gen_gh.CODE_W, 'S rc': gen_gh.CODE_R,
    }
    for fam, tab in probe.items():
        if target in tab:
            return fam
    if target.startswith('to_nat') or target.startswith('to_int'):
        return 'Z'
    if target.startswith('stats_'):
        return 'ST' if target in ('stats_best_code', 'stats_update_many', 'stats_update', 'stats_run_updates', 'stats_add', 'stats_add_assign', 'stats_add_trait', 'stats_sum') else None
    if target == 'fc_next':
        return 'FC'
    if target.startswith('mem'):
        return 'MW'
    if target in ('ad_word_pos', 'ad_set_word_pos', 'ad_set_word_pos_wraps', 'ad_read_word_cursor'):
        return 'AD seek'
    if target.startswith('vbyte_'):
        return 'VB'
    if target in ('check_tables_buf', 'check_tables_bit'):
        return 'TB'
    if re.match(r'(flush|write_bits|write_unary|copy_from|copy_to)_(be|le)$', target) or target in ('td_flush', 'td_drop', 'td_into_inner', 'copy_to_default', 'copy_from_default'):
        return 'S'
    if target.startswith('bufr_') or target.startswith('bitr_') or target.startswith('io_'):
        return 'S'
    if target.startswith('count_'):
        return 'S wrap=count'
    return None


def main():
    lean = os.path.join(ROOT, 'lean')
    props = json.load(open(os.path.join(lean, 'props.json')))
    audited = {}
    for pid, v in props.items():
        for t in v['theorems']:
            audited.setdefault(t, []).append(pid)
    theorems = {}
    unmatched = []
    for f in FILES:
        ns = []
        for l in open(os.path.join(lean, 'Dsi', 'Props', f + '.lean'), encoding='utf-8'):
            m = re.match(r'namespace\s+(\S+)', l)
            if m:
                ns.append(m.group(1))
            m = re.match(r'end\s+(\S+)', l)
            if m and ns and ns[-1] == m.group(1):
                ns.pop()
            m = re.match(r'(?:@\[[^\]]*\]\s*)?(?:private\s+|protected\s+)?(theorem|lemma)\s+(\S+)', l)
            if not m:
                continue
            short = m.group(2)
            full = '.'.join(ns + [short])
            if full not in audited:
                continue
            for rx, act in RULES[f]:
                mm = re.match(rx, short)
                if mm:
                    if isinstance(act, str):
                        theorems[full] = dict(module=f, props=audited[full], targets=[], why=act)
                    else:
                        theorems[full] = dict(module=f, props=audited[full], targets=act(mm))
                    break
            else:
                unmatched.append(full)
    targets = {}
    for t, spec in gen_gh.SPECS.items():
        targets[t] = dict(args=spec, replay=replay_family(t))
        if t in CAPS:
            targets[t]['cap'] = CAPS[t]
    bad = sorted(set(x for v in theorems.values() for x in v['targets'] if x not in targets))
    out = dict(
        note='generated by tools/mk_gh_targets.py; theorem -> targets of lean/GH.lean (`ghdriver`); replay = the correspondence '
             'family a witness is replayed through on the implementation (tools/gen_gh.py gh_to_request), null = model-level only',
        targets=targets, theorems=theorems)
    with open(os.path.join(ROOT, 'tools', 'gh_targets.json'), 'w') as fo:
        json.dump(out, fo, indent=1, sort_keys=True)
    n_with = sum(1 for v in theorems.values() if v['targets'])
    print('theorems: %d audited in the *Gen modules, %d with targets, %d without (reasons recorded), %d unmatched' % (
        len(theorems) + len(unmatched), n_with, len(theorems) - n_with, len(unmatched)))
    used = set(x for v in theorems.values() for x in v['targets'])
    print('targets: %d, used by a theorem: %d, unused: %s' % (len(targets), len(used), sorted(set(targets) - used)))
    if unmatched:
        print('UNMATCHED:', unmatched)
    if bad:
        print('UNKNOWN TARGETS:', bad)
    return 1 if unmatched or bad else 0


if __name__ == '__main__':
    sys.exit(main())
