#!/usr/bin/env python3
"""Translator for the METHOD BODIES of the unbuffered `BitReader` (src/impls/bit_reader.rs)
-> lean/Dsi/Gen/BitReaderBodies.lean.

For XX in {be, le} (namespace Dsi.Gen.BitR; the state is the model's `BitR`: `data : MemR 64`,
`bitIndex : Nat`):

    skip_bits_XX            (s : BitR) (n_bits : Nat)        : Res BitR
    read_bits_XX            (s : BitR) (n_bits : Nat)        : Res (BitVec 64 × BitR)
    peek_bits_XX            (s : BitR) (n_bits : Nat)        : Res (Nat × BitR)     (u32 as Nat, reduced at the cast)
    read_unary_XX           (s : BitR)                       : Res (BitVec 64 × BitR)
    skip_bits_after_peek_XX (s : BitR) (n : Nat)             : Res BitR             (always `ok`)
    bit_pos_XX              (s : BitR)                       : Res (BitVec 64 × BitR)
    set_bit_pos_XX          (s : BitR) (bit_index : BitVec 64) : Res BitR

which lean/Dsi/Props/BitReaderGen.lean proves EQUAL to the hand-written model
(lean/Dsi/Impl/BitReader.lean).  Engine: tools/rsbody.py; backend calls as in tools/translate_bufr.py
(the word reader is the field `data`, its words are `u64`).  Specific to this struct:

  self.bit_index   a `u64` in Rust, a `Nat` in the model's state: read as `BitVec.ofNat 64 s.bitIndex`,
                   stored as `.toNat` (so the arithmetic on it is the Rust `u64` arithmetic)
  #[cfg(feature = "checks")] assert!(c)  -> `dpanic` when violated (the model's `BitR` carries no
                   `checks` flag; the hand model treats this assertion the same way)
  let x = if c { ..; v } else { ..; v };   let x = 0;  (typed by its first typed use)
  the fuel of the `loop` of `read_unary` is the hand model's: `s.data.data.length + 3 - s.data.pos`
                   (evaluated at loop entry, after the first word has been read)
"""
import os, sys
sys.path.insert(0, os.path.dirname(os.path.abspath(__file__)))
from rstok import tokenize
import rsbody
from rsbody import err, Parser, find_fn, find_assoc_type, parse_sig, FnBase, lname, lean_ty, NATS
import translate_bufr

REL = 'src/impls/bit_reader.rs'
STRUCT = 'BitReader'

FNS = [
    ('skip_bits', 'BitRead', ['USZ'], 'UNIT', []),
    ('read_bits', 'BitRead', ['USZ'], 'U64', []),
    ('peek_bits', 'BitRead', ['USZ'], 'U32', []),
    ('read_unary', 'BitRead', [], 'U64', [('lean', 's.data.data.length + 3 - s.data.pos')]),
    ('skip_bits_after_peek', 'BitRead', ['USZ'], 'NONE', []),
    ('bit_pos', 'BitSeek', [], 'U64', []),
    ('set_bit_pos', 'BitSeek', ['U64'], 'UNIT', []),
]


class Fn(translate_bufr.Fn):
    STATE = 'BitR'
    ALLOW_MUL = False
    RUST_BACK = 'data'
    LEAN_BACK = 'data'
    WORD = 'U64'

    def field(self, name):
        if name == 'bit_index':
            return 'bitIndex', 'U64'
        return None

    def field_get(self, name):
        return '(BitVec.ofNat 64 s.bitIndex)', 'U64'

    def field_set(self, name, val):
        return '{ s with bitIndex := (%s).toNat }' % val

    def checks_assert(self, c):
        return 'if ¬%s then Res.dpanic else' % c

    def path(self, segs):
        return None

    def method(self, recv, name, args, env, want):
        if name in ('leading_zeros', 'trailing_zeros'):
            return translate_bufr.Fn.method(self, recv, name, args, env, want)
        return None

    def call(self, segs, args, env, want):
        return None

    def ann_type(self, ann):
        return FnBase.ann_type(self, ann)

    def expr_stmt(self, st, env, ind):
        e = st[1]
        if e[0] == 'try' and e[1][0] == 'mcall' and e[1][1] == ('var', self.selfname):
            return False            # no `self.refill()` here
        return translate_bufr.Fn.expr_stmt(self, st, env, ind)


def parse_ret(ret, what):
    if not ret:
        return 'NONE'
    if ret[:3] != ['->', 'Result', '<']:
        err('%s: return type is not a Result' % what)
    j = ret.index(',') if ',' in ret else len(ret)
    t = ret[3:j]
    if t == ['u64']:
        return 'U64'
    if t == ['u32']:
        return 'U32'
    if t == ['(', ')']:
        return 'UNIT'
    err('%s: unsupported return type `%s`' % (what, ' '.join(t)))


def lean_ret(ret):
    if ret in ('UNIT', 'NONE'):
        return 'Res BitR'
    return 'Res (%s × BitR)' % lean_ty(ret)


def translate_fn(toks, sig, o, c, what, endian, lean_name, expect_params, expect_ret, fuels):
    selfname, params, ret = parse_sig(sig, what)
    if selfname != 'self':
        err('%s: no `&mut self` receiver' % what)
    if [t for _, t in params] != expect_params:
        err('%s: parameters %r, expected types %r' % (what, params, expect_params))
    r = parse_ret(ret, what)
    if r != expect_ret:
        err('%s: returns %s, expected %s' % (what, r, expect_ret))
    body = Parser(toks[o:c + 1], what).block()
    make = lambda: Fn(what, endian, selfname, params, 'UNIT' if r == 'NONE' else r, fuels, {})
    if r == 'NONE':
        f = Fn.run(make, body, dict(params), 'Res.ok s', False)
    else:
        f = Fn.run(make, body, dict(params), None, True)
    if f.fuels:
        err('%s: %d configured loop fuel(s) unused (a loop disappeared)' % (what, len(f.fuels)))
    ps = ''.join(' (%s : %s)' % (lname(n), lean_ty(t)) for n, t in params)
    head = ['/-- `%s` -/' % what,
            'def %s (s : BitR)%s : %s :=' % (lean_name, ps, lean_ret(r))]
    return '\n'.join(head + f.lines) + '\n'


def generate(src):
    rsbody.Ctx.rel = REL
    toks = tokenize(src(REL))
    defs = []
    for endian, E in (('be', 'BE'), ('le', 'LE')):
        impls = {
            'BitRead': (rsbody.find_impl(toks, 'BitRead < %s > for %s < %s ,' % (E, STRUCT, E), 'impl BitRead<%s> for %s' % (E, STRUCT)),
                        'impl BitRead<%s> for %s' % (E, STRUCT)),
            'BitSeek': (rsbody.find_impl(toks, 'BitSeek for %s < %s ,' % (STRUCT, E), 'impl BitSeek for %s<%s, ..>' % (STRUCT, E)),
                        'impl BitSeek for %s<%s, ..>' % (STRUCT, E)),
        }
        (o, c), w = impls['BitRead']
        # the backend's words are u64 (`WR: WordRead<.., Word = u64>` in the impl header) and the peek word u32
        hdr_start = o
        while toks[hdr_start] != ('id', 'impl'):
            hdr_start -= 1
        if 'Word = u64' not in ' '.join(x for _, x in toks[hdr_start:o]):
            err('%s: the header does not fix `Word = u64`' % w)
        if find_assoc_type(toks, o + 1, c, 'PeekWord', w) != ['u32']:
            err('%s: `type PeekWord` is not u32' % w)
        for name, impl, ptypes, ret, fuels in FNS:
            (o, c), w = impls[impl]
            sig, bo, bc = find_fn(toks, o + 1, c, name, w)
            defs.append(translate_fn(toks, sig, bo, bc, '%s::%s' % (w, name), endian, '%s_%s' % (name, endian),
                                     ptypes, ret, fuels))
    return defs


def main(write_if_changed, HEADER, src, TranslateError):
    rsbody.Ctx.TE = TranslateError
    rsbody.Ctx.rel = REL
    head = [HEADER.rstrip('\n'),
            '-- Source: %s, method bodies translated statement by statement by tools/translate_bitr.py.' % REL,
            'import Dsi.Impl.BitReader',
            'import Dsi.Impl.GenPrelude',
            'namespace Dsi.Gen.BitR',
            'open Dsi',
            'set_option linter.unusedVariables false',
            '']
    try:
        defs = generate(src)
    except TranslateError as ex:
        write_if_changed('BitReaderBodies.lean', '\n'.join(
            head + ['-- TRANSLATION FAILED: %s' % str(ex).replace('\n', ' '), '', 'end Dsi.Gen.BitR\n']))
        raise
    changed = write_if_changed('BitReaderBodies.lean', '\n'.join(head + defs + ['end Dsi.Gen.BitR\n']))
    return ['BitReaderBodies'] if changed else []


if __name__ == '__main__':
    import translate
    rsbody.Ctx.TE = translate.TranslateError
    try:
        print('\n'.join(generate(translate.src)) if '--print' in sys.argv else main(translate.write_if_changed, translate.HEADER, translate.src, translate.TranslateError))
    except translate.TranslateError as ex:
        print('translate: ERROR: %s' % ex)
        sys.exit(3)
