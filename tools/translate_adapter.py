#!/usr/bin/env python3
"""Translator for src/impls/word_adapter.rs (`WordAdapter<W, B>`) -> lean/Dsi/Gen/AdapterBodies.lean.

One Lean definition per method body (`new`, `into_inner`, `WordRead::read_word`,
`WordWrite::write_word`, `WordWrite::flush`, `WordSeek::word_pos`, `WordSeek::set_word_pos`),
translated statement by statement on the state `WordAdapter β` of lean/Dsi/Impl/AdapterSeek.lean.
The equality theorems against the hand model (lean/Dsi/Impl/Adapter.lean: `Sink.writeWord`,
`Source.readWord`; lean/Dsi/Impl/AdapterSeek.lean: `AdCursor.readWord / wordPos / setWordPos`, what the
driver answers the `AD seek` requests with) are in lean/Dsi/Props/AdapterGen.lean.

The `std` calls on the wrapped object are PARAMETERS of the generated definitions (`β` is the type of
the wrapped object; an `std::io::Error` is its canonical kind `Err`; a call that fails leaves the
function through `?` / as the returned `Result`, and `Res.err` carries no state):

  self.<backend>.read_exact(buf.as_mut())     backend_read_exact self'.backend buf  : Res (List Nat × β)
                                              (the buffer in, the filled buffer out; `&mut buf` likewise)
  self.<backend>.write_all(e.as_ref())        backend_write_all self'.backend e     : Res β
  self.<backend>.flush()                      backend_flush self'.backend           : Res β
  self.<backend>.stream_position()            backend_stream_position self'.backend : Res (Nat × β)
  self.<backend>.seek(SeekFrom::Start(e))     backend_seek self'.backend (StdIO.SeekFrom.start e) : Res (Nat × β)
        (`SeekFrom::Current(n)` / `SeekFrom::End(n)` with a literal `n` likewise; signed arithmetic is
         not in the translated language)
  r.map_err(|e| E)                            StdIO.mapErr (fun e => E) r
  r?                                          Res.bind r fun (x, backend') => let self' := { self' with backend := backend' } ..
  a Result-valued call in tail position       the same binding, then `.ok (x, self')`
  Ok(e)                                       .ok (e, self')            Ok(())  ->  .ok self'

and the pure vocabulary (integers are `Nat`; `W::Bytes` / byte slices are `List Nat`):

  W::BYTES                                    BYTES            (a parameter: the size of `W` in bytes)
  let mut b: W::Bytes = Default::default();   let b : List Nat := List.replicate BYTES 0
  W::from_ne_bytes(b) / w.to_ne_bytes()       StdIO.fromNeBytes b / StdIO.toNeBytes BYTES w
                                              (native = little-endian: the recorded assumption, in AdapterSeek.lean)
  W::from_le_bytes / from_be_bytes, to_le_bytes / to_be_bytes      leVal / beVal, leBytes / beBytes
  b.as_ref(), b.as_mut(), &b                  b
  a * b, a + b, a - b   (u64 / usize)         (a * b) % 2 ^ 64, (a + b) % 2 ^ 64, (a + 2 ^ 64 - b) % 2 ^ 64
                                              WRAPPING IS VISIBLE (a build with overflow checks panics instead:
                                              the theorems state `.. < 2 ^ 64` as a hypothesis)
  a / b, a % b                                a / b, a % b     (a zero divisor panics in Rust: hypothesis `0 < BYTES`)
  a.div_ceil(b)                               StdIO.divCeil a b
  e as u64 / usize / uN                       e, or e % 2 ^ N when narrowing; casts to signed types are refused
  e.kind()                                    e                (an error is its kind)
  std::io::Error::new(k, format!(..))         k                (the message is not modelled; the `format!`
                                                                arguments must be literals, names and paths)
  std::io::ErrorKind::{UnexpectedEof, Interrupted, WriteZero, Other}      Err.{eof, interrupted, writeZero, io}
  match k { ErrorKind::X => a, .., _ => b }   (match k with | .x => a .. | _ => b)
  Self { backend, _marker: core::marker::PhantomData }                    { backend := backend }
  self.<backend>   (a method taking `self`)   self'.backend

Fail closed: anything else raises TranslateError and AdapterBodies.lean becomes a stub.  Internal names
(`self'`, `backend'`, `r'N`) contain a prime, so they cannot clash with a Rust identifier.
"""
import os, sys
sys.path.insert(0, os.path.dirname(os.path.abspath(__file__)))
from rstok import tokenize, match_close, split_top
import rsx
from rsx import err, lean_id, par, P_ATOM, P_APP, P_ADD, P_MUL, WIDTH

REL = 'src/impls/word_adapter.rs'
OUT = 'AdapterBodies.lean'
STRUCT = 'WordAdapter'

# (trait or None for the inherent impl, bound required of the wrapped object, the fns it must consist of)
IMPLS = [
    (None, None, ['new', 'into_inner']),
    ('WordRead', 'Read', ['read_word']),
    ('WordWrite', 'Write', ['write_word', 'flush']),
    ('WordSeek', 'Seek', ['word_pos', 'set_word_pos']),
]
# method of the wrapped object -> (std trait, number of arguments, Lean type of the primitive)
PRIMS = {
    'read_exact': ('Read', 1, 'β → List Nat → Res (List Nat × β)'),
    'write_all': ('Write', 1, 'β → List Nat → Res β'),
    'flush': ('Write', 0, 'β → Res β'),
    'stream_position': ('Seek', 0, 'β → Res (Nat × β)'),
    'seek': ('Seek', 1, 'β → StdIO.SeekFrom → Res (Nat × β)'),
}
ERRKINDS = {'UnexpectedEof': 'eof', 'Interrupted': 'interrupted', 'WriteZero': 'writeZero', 'Other': 'io'}
SEEKFROM = {'Start': 'start', 'Current': 'current', 'End': 'fromEnd'}
FROM_BYTES = {'from_ne_bytes': 'StdIO.fromNeBytes', 'from_le_bytes': 'leVal', 'from_be_bytes': 'beVal'}
TO_BYTES = {'to_ne_bytes': 'StdIO.toNeBytes BYTES %s', 'to_le_bytes': 'leBytes %s BYTES', 'to_be_bytes': 'beBytes %s BYTES'}
LEAN_TY = {'W': 'Nat', 'bytes': 'List Nat', 'B': 'β', 'unit': 'Unit', 'ioerr': 'Err', 'kind': 'Err'}
SELF, BACK = "self'", "backend'"


class AdParser(rsx.Parser):
    """rsx.Parser + path patterns (`std::io::ErrorKind::UnexpectedEof`) + the struct literal `Self { .. }`"""

    def pattern(self):
        k, x = self.peek()
        if k == 'id' and x not in rsx.KEYWORDS_BAD and x != 'mut' and self.at('::', 1):
            segs = [self.ident()]
            while self.at('::'):
                self.i += 1
                segs.append(self.ident())
            if self.at('(') or self.at('{'):
                self.fail('constructor pattern with a path')
            return ('ppath', segs)
        return super().pattern()

    def primary(self, nostruct):
        if self.peek() == ('id', 'Self') and self.peek(1) == ('p', '{') and not nostruct:
            self.i += 2
            fields = []
            while not self.at('}'):
                if self.at('..'):
                    self.fail('struct update syntax')
                name = self.ident()
                if self.at(':'):
                    self.i += 1
                    val = self.expr()
                else:
                    val = ('var', name)
                fields.append((name, val))
                if self.at(','):
                    self.i += 1
                elif not self.at('}'):
                    self.fail('expected `,` or `}` in a struct literal')
            self.eat('}')
            return ('struct', 'Self', fields)
        return super().primary(nostruct)


def parse_fn(toks, i, what):
    old = rsx.Parser
    rsx.Parser = AdParser
    try:
        return rsx.parse_fn_at(toks, i, what)
    finally:
        rsx.Parser = old


# --------------------------------------------------------------------------------------
# the file's declarations
# --------------------------------------------------------------------------------------

def std_io_imports(toks):
    """names imported by `use std::io::{..};` / `use std::io::X;`"""
    names = set()
    i = 0
    while i < len(toks):
        if toks[i] == ('id', 'use'):
            j = i
            while toks[j] != ('p', ';'):
                j += 1
            t = [x for _, x in toks[i + 1:j]]
            if t[:4] == ['std', '::', 'io', '::']:
                rest = t[4:]
                if rest and rest[0] == '{':
                    names |= {x for x in rest[1:-1] if x != ','}
                elif len(rest) == 1:
                    names.add(rest[0])
            i = j
        i += 1
    return names


def struct_decl(toks):
    """-> (word parameter, backend parameter, backend field, [marker fields])"""
    hits = [i for i in range(len(toks) - 1) if toks[i] == ('id', 'struct') and toks[i + 1] == ('id', STRUCT)]
    if len(hits) != 1:
        err('expected exactly one `struct %s`, found %d' % (STRUCT, len(hits)))
    j = hits[0] + 2
    if toks[j] != ('p', '<'):
        err('struct %s has no generic parameters' % STRUCT)
    p = rsx.Parser(toks, 'struct %s' % STRUCT)
    p.i = j
    p._angles()
    inner = toks[j + 1:p.i - 1]
    params = []
    for part in split_top_angles(inner):
        if not part or part[0][0] != 'id' or part[0][1] == 'const':
            err('struct %s: unrecognised generic parameter `%s`' % (STRUCT, rsx.text_of(part)))
        params.append(part[0][1])
    if len(params) != 2:
        err('struct %s: expected two type parameters (word, wrapped object), found %r' % (STRUCT, params))
    wp, bp = params
    j = p.i
    while toks[j] != ('p', '{'):
        if toks[j] == ('p', ';') or toks[j] == ('p', '('):
            err('struct %s has no named fields' % STRUCT)
        j += 1
    c = match_close(toks, j)
    backend, markers = [], []
    for part in split_top(toks[j + 1:c]):
        while part and part[0] == ('p', '#'):
            part = part[match_close(part, 1) + 1:]
        if part and part[0] == ('id', 'pub'):
            part = part[1:]
            if part and part[0] == ('p', '('):
                part = part[match_close(part, 0) + 1:]
        if not part:
            continue
        if len(part) < 3 or part[0][0] != 'id' or part[1] != ('p', ':'):
            err('struct %s: unrecognised field `%s`' % (STRUCT, rsx.text_of(part)))
        ty = rsx.text_of(part[2:])
        if ty == bp:
            backend.append(part[0][1])
        elif ty in ('core :: marker :: PhantomData < %s >' % wp, 'std :: marker :: PhantomData < %s >' % wp,
                    'PhantomData < %s >' % wp):
            markers.append(part[0][1])
        else:
            err('struct %s: field `%s` of type `%s` carries data the model does not have' % (STRUCT, part[0][1], ty))
    if len(backend) != 1:
        err('struct %s: expected exactly one field of type `%s`, found %r' % (STRUCT, bp, backend))
    return wp, bp, backend[0], markers


def split_top_angles(toks):
    out, cur, depth = [], [], 0
    for k, x in toks:
        if k == 'p' and x in ('<', '(', '['):
            depth += 1
        elif k == 'p' and x in ('>', ')', ']'):
            depth -= 1
        elif k == 'p' and x == '>>':
            depth -= 2
        if k == 'p' and x == ',' and depth == 0:
            out.append(cur)
            cur = []
        else:
            cur.append((k, x))
    if cur:
        out.append(cur)
    return out


def impl_bounds(toks, start, o, bp):
    """the bounds of the wrapped-object parameter in the generics of `impl< .. >` (tokens start..o)"""
    if toks[start + 1] != ('p', '<'):
        err('an impl for %s without generic parameters' % STRUCT)
    p = rsx.Parser(toks, 'impl header')
    p.i = start + 1
    p._angles()
    for part in split_top_angles(toks[start + 2:p.i - 1]):
        if part and part[0] == ('id', bp):
            if len(part) == 1:
                return []
            if part[1] != ('p', ':'):
                err('impl header: `%s`' % rsx.text_of(part))
            return [rsx.text_of(b) for b in split_plus(part[2:])]
    err('impl header: no parameter `%s`' % bp)


def split_plus(toks):
    out, cur, depth = [], [], 0
    for k, x in toks:
        if k == 'p' and x in ('<', '('):
            depth += 1
        elif k == 'p' and x in ('>', ')'):
            depth -= 1
        if k == 'p' and x == '+' and depth == 0:
            out.append(cur)
            cur = []
        else:
            cur.append((k, x))
    if cur:
        out.append(cur)
    return out


def impl_items(toks, o, c):
    """the fn names and the `type X = ..;` items at depth 0 of the impl body toks[o..c]"""
    fns, types = [], {}
    i = o + 1
    while i < c:
        k, x = toks[i]
        if k == 'p' and x in ('{', '(', '['):
            i = match_close(toks, i) + 1
            continue
        if (k, x) == ('id', 'fn'):
            fns.append(toks[i + 1][1])
        if (k, x) == ('id', 'type'):
            j = i
            while toks[j] != ('p', ';'):
                j += 1
            if toks[i + 2] != ('p', '='):
                err('impl item `%s`' % rsx.text_of(toks[i:j]))
            types[toks[i + 1][1]] = rsx.text_of(toks[i + 3:j])
            i = j
        if (k, x) == ('id', 'const') or (k, x) == ('id', 'macro_rules'):
            err('impl item `%s ..` is not in the translated language' % x)
        i += 1
    return fns, types


# --------------------------------------------------------------------------------------
# bodies
# --------------------------------------------------------------------------------------

class Body:
    def __init__(self, fn, D, bounds, what):
        self.fn, self.D, self.bounds, self.what = fn, D, bounds, what
        self.out = []
        self.prims = []
        self.uses_bytes = False
        self.mut = set()
        self.n = 0
        self.has_state = fn['recv'] is not None

    def fail(self, msg):
        err('%s: %s' % (self.what, msg))

    def fresh(self):
        self.n += 1
        return "r'%d" % self.n

    def line(self, t):
        self.out.append('  ' + t)

    # ---- types
    def ty_of(self, text):
        t = text.replace(' ', '')
        if t in WIDTH:
            return t
        if t == self.D['wp'] or t == 'Self::Word':
            return 'W'
        if t == self.D['bp']:
            return 'B'
        if t == '%s::Bytes' % self.D['wp']:
            return 'bytes'
        if t == '()':
            return 'unit'
        if t == 'Self':
            return 'adapter'
        self.fail('type `%s`' % text)

    def lean_ty(self, ty):
        if ty in WIDTH:
            return 'Nat'
        if ty == 'adapter':
            return 'WordAdapter β'
        return LEAN_TY[ty]

    @staticmethod
    def compat(a, b):
        """is a value of type a usable where b is expected"""
        return a == b or (a == 'lit' and b in WIDTH)

    def bytes_const(self):
        self.uses_bytes = True
        return 'BYTES'

    # ---- pure expressions (effects of `?` are emitted as lines before)
    def val(self, e, env):
        k = e[0]
        if k == 'num':
            if e[2] is not None and e[2] not in WIDTH:
                self.fail('literal of type %s' % e[2])
            return (str(e[1]), P_ATOM, e[2] or 'lit')
        if k == 'paren':
            return self.val(e[1], env)
        if k == 'tuple' and not e[1]:
            return ('()', P_ATOM, 'unit')
        if k == 'var':
            if e[1] == 'self':
                self.fail('`self` used as a value')
            if e[1] not in env:
                self.fail('unknown variable `%s`' % e[1])
            return (lean_id(e[1]), P_ATOM, env[e[1]])
        if k == 'path':
            segs, gen = e[1], e[2]
            if gen is None and segs == [self.D['wp'], 'BYTES']:
                return (self.bytes_const(), P_ATOM, 'usize')
            kind = self.errkind(segs) if gen is None else None
            if kind is not None:
                return ('Err.%s' % kind, P_ATOM, 'kind')
            self.fail('path `%s`' % '::'.join(segs))
        if k == 'field':
            if e[1] == ('var', 'self') and e[2] == self.D['backend']:
                if self.fn['recv'] != 'self':
                    self.fail('`self.%s` used as a value in a method that borrows `self`' % e[2])
                return ('%s.backend' % SELF, P_ATOM, 'B')
            self.fail('field access `.%s`' % e[2])
        if k == 'un':
            if e[1] in ('&', '*'):
                t = self.val(e[2], env)
                if e[1] == '&' and t[2] != 'bytes':
                    self.fail('`&` on a value of type %s' % t[2])
                if e[1] == '*' and t[2] not in WIDTH and t[2] != 'W':
                    self.fail('`*` on a value of type %s' % t[2])
                return t
            self.fail('unary `%s`' % e[1])
        if k == 'cast':
            t, p, ty = self.val(e[1], env)
            to = e[2].replace(' ', '')
            if to not in WIDTH:
                self.fail('cast to `%s` (signed arithmetic is not in the translated language)' % e[2])
            if ty == 'lit':
                return (t, p, to)
            if ty not in WIDTH:
                self.fail('cast of a value of type %s' % ty)
            if WIDTH[to] < WIDTH[ty]:
                return ('%s %% 2 ^ %d' % (par((t, p), P_MUL), WIDTH[to]), P_MUL, to)
            return (t, p, to)
        if k == 'bin':
            op = e[1]
            a = self.val(e[2], env)
            b = self.val(e[3], env)
            ty = rsx.Pure.unify(a[2], b[2])
            if ty == 'lit':
                ty = 'u64'
            if ty is None or ty not in WIDTH:
                self.fail('operands of `%s` have types %s and %s' % (op, a[2], b[2]))
            w = WIDTH[ty]
            if op == '*':
                return ('(%s * %s) %% 2 ^ %d' % (par(a, P_MUL), par(b, P_MUL + 1), w), P_MUL, ty)
            if op == '+':
                return ('(%s + %s) %% 2 ^ %d' % (par(a, P_ADD), par(b, P_ADD + 1), w), P_MUL, ty)
            if op == '-':
                return ('(%s + 2 ^ %d - %s) %% 2 ^ %d' % (par(a, P_ADD), w, par(b, P_ADD + 1), w), P_MUL, ty)
            if op in ('/', '%'):
                return ('%s %s %s' % (par(a, P_MUL), op, par(b, P_MUL + 1)), P_MUL, ty)
            self.fail('operator `%s`' % op)
        if k == 'try':
            return self.bind(self.comp(e[1], env), env)
        if k == 'method':
            recv, name, gen, args = e[1], e[2], e[3], e[4]
            if gen:
                self.fail('turbofish on `.%s`' % name)
            if name == 'div_ceil' and len(args) == 1:
                a = self.val(recv, env)
                b = self.val(args[0], env)
                ty = rsx.Pure.unify(a[2], b[2])
                if ty is None or ty not in WIDTH:
                    self.fail('`div_ceil` on values of types %s and %s' % (a[2], b[2]))
                return ('StdIO.divCeil %s %s' % (par(a, P_ATOM), par(b, P_ATOM)), P_APP, ty)
            if name in TO_BYTES and not args:
                a = self.val(recv, env)
                if a[2] != 'W':
                    self.fail('`.%s()` on a value of type %s' % (name, a[2]))
                self.bytes_const()
                return (TO_BYTES[name] % par(a, P_ATOM), P_APP, 'bytes')
            if name == 'as_ref' and not args:
                a = self.val(recv, env)
                if a[2] != 'bytes':
                    self.fail('`.as_ref()` on a value of type %s' % a[2])
                return a
            if name == 'kind' and not args:
                a = self.val(recv, env)
                if a[2] != 'ioerr':
                    self.fail('`.kind()` on a value of type %s' % a[2])
                return (a[0], a[1], 'kind')
            self.fail('method `.%s(..)` is not in the translated language' % name)
        if k == 'call':
            f, args = e[1], e[2]
            if f[0] == 'path' and f[2] is None:
                segs = f[1]
                if len(segs) == 2 and segs[0] == self.D['wp'] and segs[1] in FROM_BYTES and len(args) == 1:
                    a = self.val(args[0], env)
                    if a[2] != 'bytes':
                        self.fail('`%s` of a value of type %s' % ('::'.join(segs), a[2]))
                    return ('%s %s' % (FROM_BYTES[segs[1]], par(a, P_ATOM)), P_APP, 'W')
                if segs in (['std', 'io', 'Error', 'new'], ['io', 'Error', 'new']) and len(args) == 2:
                    if segs[0] == 'io' and 'io' not in self.D['std_names']:
                        self.fail('`io::Error` without `use std::io`')
                    kd = self.val(args[0], env)
                    if kd[2] != 'kind':
                        self.fail('`Error::new` with a first argument of type %s' % kd[2])
                    self.message(args[1])
                    return (kd[0], kd[1], 'ioerr')
            self.fail('call of `%s` is not in the translated language' %
                      ('::'.join(f[1]) if f[0] in ('path',) else f[1] if f[0] == 'var' else f[0]))
        if k == 'match':
            return self.match_kind(e, env)
        if k == 'block':
            return self.blockval(e[1], env)
        if k == 'struct':
            names = [n for n, _ in e[2]]
            want = [self.D['backend']] + self.D['markers']
            if sorted(names) != sorted(want):
                self.fail('struct literal with fields %r (the struct has %r)' % (names, want))
            bt = None
            for n, v in e[2]:
                if n == self.D['backend']:
                    bt = self.val(v, env)
                    if bt[2] != 'B':
                        self.fail('field `%s` initialised with a value of type %s' % (n, bt[2]))
                else:
                    if not (v[0] == 'path' and v[1][-1] == 'PhantomData' and
                            v[1][:-1] in (['core', 'marker'], ['std', 'marker'], [])):
                        self.fail('marker field `%s` is not initialised with `PhantomData`' % n)
            return ('{ backend := %s }' % bt[0], P_ATOM, 'adapter')
        self.fail('expression `%s` is not in the translated language' % k)

    def errkind(self, segs):
        if segs[:-1] in (['std', 'io', 'ErrorKind'],) or \
                (segs[:-1] == ['io', 'ErrorKind'] and 'io' in self.D['std_names']) or \
                (segs[:-1] == ['ErrorKind'] and 'ErrorKind' in self.D['std_names']):
            if segs[-1] not in ERRKINDS:
                self.fail('error kind `%s` has no canonical counterpart in the model' % segs[-1])
            return ERRKINDS[segs[-1]]
        return None

    def message(self, e):
        """the message of an `Error::new`: a string, or `format!` whose arguments only print"""
        if e[0] == 'macro' and e[1] in ('format', 'concat', 'stringify'):
            for arg in e[2]:
                self.print_only(arg)
            return
        self.fail('the message of `Error::new` is not a `format!(..)`')

    def print_only(self, arg):
        if not arg:
            return
        if all(t[0] == 'str' for t in arg):
            return
        if arg[0] == ('id', 'concat') and len(arg) >= 4 and arg[1] == ('p', '!') and arg[2] == ('p', '(') \
                and match_close(arg, 2) == len(arg) - 1:
            for a in split_top(arg[3:-1]):
                self.print_only(a)
            return
        # a name or a path: x, W::BYTES
        ok = len(arg) % 2 == 1 and all((t[0] == 'id' and t[1] not in ('self',)) if i % 2 == 0 else t == ('p', '::')
                                      for i, t in enumerate(arg))
        if not ok:
            self.fail('a `format!` argument is not a literal, a name or a path (`%s`)' % rsx.text_of(arg))

    def match_kind(self, e, env):
        sc = self.val(e[1], env)
        if sc[2] != 'kind':
            self.fail('`match` on a value of type %s' % sc[2])
        arms = []
        ty = None
        seen_wild = False
        for pat, body in e[2]:
            if seen_wild:
                self.fail('match arm after `_`')
            if pat[0] == 'pwild':
                lp = '_'
                seen_wild = True
            elif pat[0] == 'ppath':
                kd = self.errkind(pat[1])
                if kd is None:
                    self.fail('pattern `%s`' % '::'.join(pat[1]))
                lp = '.%s' % kd
            else:
                self.fail('pattern `%s` in a `match` on an error kind' % pat[0])
            v = self.blockval(body, env)
            if ty is None:
                ty = v[2]
            elif ty != v[2]:
                self.fail('match arms of types %s and %s' % (ty, v[2]))
            arms.append('| %s => %s' % (lp, v[0]))
        if not seen_wild:
            self.fail('`match` on an error kind without a `_` arm')
        return ('match %s with %s' % (sc[0], ' '.join(arms)), 0, ty)

    def blockval(self, stmts, env):
        """a block of pure `let`s ending in an expression, as one Lean term"""
        env = dict(env)
        lets = []
        if not stmts or stmts[-1][0] != 'expr' or stmts[-1][2]:
            self.fail('a block that does not end in an expression')
        mark = len(self.out)
        for st in stmts[:-1]:
            if st[0] == 'let' and st[1][0] == 'pbind' and not st[1][2] and st[3] is not None:
                v = self.val(st[3], env)
                if st[2] is not None and not self.compat(v[2], self.ty_of(st[2])):
                    self.fail('`let %s: %s` initialised with a value of type %s' % (st[1][1], st[2], v[2]))
                ty = self.ty_of(st[2]) if st[2] is not None else ('u64' if v[2] == 'lit' else v[2])
                env[st[1][1]] = ty
                lets.append('let %s : %s := %s; ' % (lean_id(st[1][1]), self.lean_ty(ty), v[0]))
                continue
            self.fail('statement `%s` inside an expression block' % st[0])
        v = self.val(stmts[-1][1], env)
        if len(self.out) != mark:
            self.fail('`?` inside an expression block')
        if not lets:
            return v
        return (''.join(lets) + v[0], 0, v[2])

    # ---- calls on the wrapped object
    def comp(self, e, env):
        """a Result-valued call -> dict(term, shape 'pair' | 'state', ty payload type, rebind variable | None)"""
        if e[0] == 'method' and e[2] == 'map_err' and not e[3]:
            if len(e[4]) != 1 or e[4][0][0] != 'closure' or len(e[4][0][1]) != 1:
                self.fail('`map_err` whose argument is not a one-parameter closure')
            c = self.comp(e[1], env)
            x = e[4][0][1][0]
            env2 = dict(env)
            env2[x] = 'ioerr'
            mark = len(self.out)
            v = self.blockval(e[4][0][2], env2)
            if len(self.out) != mark:
                self.fail('`?` inside a closure')
            if v[2] not in ('ioerr', 'kind'):
                self.fail('the `map_err` closure returns a value of type %s' % v[2])
            c = dict(c)
            c['term'] = 'StdIO.mapErr (fun %s => %s) (%s)' % (lean_id(x), v[0], c['term'])
            return c
        if e[0] == 'method' and e[1] == ('field', ('var', 'self'), self.D['backend']) and not e[3]:
            m, args = e[2], e[4]
            if m not in PRIMS:
                self.fail('method `.%s(..)` of the wrapped object is not in the translated language' % m)
            trait, n, _ = PRIMS[m]
            if len(args) != n:
                self.fail('`%s` with %d arguments' % (m, len(args)))
            if trait not in self.bounds or trait not in self.D['std_names']:
                self.fail('`.%s(..)` but the wrapped object is not bound by `std::io::%s` here' % (m, trait))
            if self.fn['recv'] != '&mut self':
                self.fail('`.%s(..)` in a method whose receiver is `%s`' % (m, self.fn['recv']))
            prim = 'backend_' + m
            if prim not in self.prims:
                self.prims.append(prim)
            head = '%s %s.backend' % (prim, SELF)
            if m == 'read_exact':
                a = args[0]
                if a[0] == 'method' and a[2] == 'as_mut' and not a[3] and not a[4]:
                    a = a[1]
                elif a[0] == 'un' and a[1] == '&mut':
                    a = a[2]
                else:
                    self.fail('the argument of `read_exact` is not `x.as_mut()` / `&mut x`')
                if a[0] != 'var' or env.get(a[1]) != 'bytes' or a[1] not in self.mut:
                    self.fail('the buffer of `read_exact` is not a mutable local of type `%s::Bytes`' % self.D['wp'])
                return dict(term='%s %s' % (head, lean_id(a[1])), shape='pair', ty='unit', rebind=a[1])
            if m == 'write_all':
                a = self.val(args[0], env)
                if a[2] != 'bytes':
                    self.fail('`write_all` of a value of type %s' % a[2])
                return dict(term='%s %s' % (head, par(a, P_ATOM)), shape='state', ty='unit', rebind=None)
            if m == 'flush':
                return dict(term=head, shape='state', ty='unit', rebind=None)
            if m == 'stream_position':
                return dict(term=head, shape='pair', ty='u64', rebind=None)
            if m == 'seek':
                return dict(term='%s %s' % (head, self.seek_from(args[0], env)), shape='pair', ty='u64', rebind=None)
        self.fail('expected a call of a method of `self.%s` (optionally with `.map_err(..)`)' % self.D['backend'])

    def seek_from(self, a, env):
        if not (a[0] == 'call' and a[1][0] == 'path' and a[1][2] is None and len(a[2]) == 1):
            self.fail('the argument of `seek` is not `SeekFrom::X(..)`')
        segs = a[1][1]
        if not (segs[:-1] == ['std', 'io', 'SeekFrom'] or (segs[:-1] == ['SeekFrom'] and 'SeekFrom' in self.D['std_names'])
                or (segs[:-1] == ['io', 'SeekFrom'] and 'io' in self.D['std_names'])):
            self.fail('the argument of `seek` is not `SeekFrom::X(..)`')
        if segs[-1] not in SEEKFROM:
            self.fail('`SeekFrom::%s`' % segs[-1])
        v = self.val(a[2][0], env)
        if segs[-1] == 'Start':
            if not self.compat(v[2], 'u64'):
                self.fail('`SeekFrom::Start` of a value of type %s' % v[2])
        elif v[2] != 'lit':
            self.fail('`SeekFrom::%s` of a non-literal (signed arithmetic is not in the translated language)' % segs[-1])
        return '(StdIO.SeekFrom.%s %s)' % (SEEKFROM[segs[-1]], par(v, P_ATOM))

    def bind(self, c, env):
        """emit the binding of a computation; -> the bound value"""
        if c['shape'] == 'state':
            self.line('Res.bind (%s) fun %s =>' % (c['term'], BACK))
            val = ('()', P_ATOM, 'unit')
        elif c['rebind'] is not None:
            self.line('Res.bind (%s) fun (%s, %s) =>' % (c['term'], lean_id(c['rebind']), BACK))
            val = ('()', P_ATOM, 'unit')
        else:
            x = self.fresh()
            self.line('Res.bind (%s) fun (%s, %s) =>' % (c['term'], x, BACK))
            val = (x, P_ATOM, c['ty'])
        self.line('let %s := { %s with backend := %s }' % (SELF, SELF, BACK))
        return val

    # ---- the function
    def emit(self):
        fn = self.fn
        env = {}
        binders = ''
        for x, mut, ty in fn['params']:
            t = self.ty_of(ty)
            if mut:
                self.fail('`mut` parameter `%s`' % x)
            if t not in WIDTH and t not in ('W', 'B'):
                self.fail('parameter `%s` of type `%s`' % (x, ty))
            env[x] = t
            binders += '(%s : %s) ' % (lean_id(x), self.lean_ty(t))
        if fn['generics']:
            self.fail('generic method')
        ret = (fn['ret'] or '()').replace(' ', '')
        result = None
        if ret.startswith('Result<') and ret.endswith('>'):
            parts = self._split_commas(ret[7:-1])
            if len(parts) != 2:
                self.fail('return type `%s`' % fn['ret'])
            okty, ety = parts
            if ety not in ('Self::Error', 'std::io::Error'):
                self.fail('error type `%s`' % ety)
            result = self.ty_of(okty)
        else:
            plain = self.ty_of(fn['ret'] or '()')
        body = list(fn['body'])
        if not body or body[-1][0] != 'expr' or body[-1][2]:
            self.fail('the body does not end in an expression')
        for st in body[:-1]:
            self.stmt(st, env)
        tail = body[-1][1]
        if result is None:
            v = self.val(tail, env)
            if not self.compat(v[2], plain):
                self.fail('the body has type %s, the function returns `%s`' % (v[2], fn['ret']))
            self.line(v[0])
            lean_ret = self.lean_ty(plain)
        else:
            if not self.has_state or fn['recv'] != '&mut self':
                self.fail('a `Result`-valued function whose receiver is `%s`' % fn['recv'])
            if tail[0] == 'call' and tail[1] == ('var', 'Ok') and len(tail[2]) == 1:
                v = self.val(tail[2][0], env)
            else:
                v = self.bind(self.comp(tail, env), env)
            if not self.compat(v[2], result):
                self.fail('the body returns `Ok` of a value of type %s, the function `%s`' % (v[2], fn['ret']))
            if result == 'unit':
                self.line('.ok %s' % SELF)
                lean_ret = 'Res (WordAdapter β)'
            else:
                self.line('.ok (%s, %s)' % (v[0], SELF))
                lean_ret = 'Res (%s × WordAdapter β)' % self.lean_ty(result)
        hdr = '{β : Type} '
        if self.uses_bytes:
            hdr += '(BYTES : Nat) '
        for p in self.prims:
            hdr += '(%s : %s) ' % (p, PRIMS[p[len('backend_'):]][2])
        if self.has_state:
            hdr += '(%s : WordAdapter β) ' % SELF
        return hdr + binders, lean_ret, self.out

    @staticmethod
    def _split_commas(s):
        """split a type text (no spaces) at its top-level commas"""
        out, cur, depth = [], '', 0
        for c in s:
            if c in '<(':
                depth += 1
            elif c in '>)':
                depth -= 1
            if c == ',' and depth == 0:
                out.append(cur)
                cur = ''
            else:
                cur += c
        out.append(cur)
        return out

    def stmt(self, st, env):
        if st[0] == 'let':
            pat, ty, init = st[1], st[2], st[3]
            if pat[0] != 'pbind':
                self.fail('`let` with a pattern')
            if init is None:
                self.fail('`let` without an initialiser')
            x = pat[1]
            if init == ('call', ('path', ['Default', 'default'], None), []):
                if ty is None or self.ty_of(ty) != 'bytes':
                    self.fail('`Default::default()` for a `let` that is not of type `%s::Bytes`' % self.D['wp'])
                v = ('List.replicate %s 0' % self.bytes_const(), P_APP, 'bytes')
            else:
                v = self.val(init, env)
            t = self.ty_of(ty) if ty is not None else ('u64' if v[2] == 'lit' else v[2])
            if not self.compat(v[2], t):
                self.fail('`let %s: %s` initialised with a value of type %s' % (x, ty, v[2]))
            if t == 'adapter':
                self.fail('a local of type `Self`')
            self.line('let %s : %s := %s' % (lean_id(x), self.lean_ty(t), v[0]))
            env[x] = t
            if pat[2]:
                self.mut.add(x)
            else:
                self.mut.discard(x)
            return
        if st[0] == 'expr' and st[2] and st[1][0] == 'try':
            self.val(st[1], env)
            return
        self.fail('statement `%s` is not in the translated language' % st[0])


def gen(src):
    rsx.Ctx.rel = REL
    toks = tokenize(src(REL))
    rsx.check_no_alias(toks, REL)
    wp, bp, backend, markers = struct_decl(toks)
    D = dict(wp=wp, bp=bp, backend=backend, markers=markers, std_names=std_io_imports(toks))
    # every impl that mentions the struct (the derives are attributes, not impls)
    impls = []
    i = 0
    while i < len(toks):
        if toks[i] == ('id', 'impl'):
            j = i + 1
            while toks[j] != ('p', '{'):
                j += 1
            c = match_close(toks, j)
            hdr = rsx.text_of(toks[i:j])
            if STRUCT in [x for _, x in toks[i:j]]:
                impls.append((i, j, c, hdr))
            i = c + 1
            continue
        if toks[i] == ('p', '{'):
            i = match_close(toks, i) + 1
            continue
        i += 1
    if len(impls) != len(IMPLS):
        err('expected %d impls for %s, found %d' % (len(IMPLS), STRUCT, len(impls)))
    out = []
    target = '%s < %s , %s >' % (STRUCT, wp, bp)
    for trait, bound, methods in IMPLS:
        if trait is None:
            found = [x for x in impls if ' for ' not in x[3] and x[3].endswith('> ' + target)]
        else:
            found = [x for x in impls if x[3].endswith('> %s for %s' % (trait, target))]
        if len(found) != 1:
            err('expected exactly one `impl %s%s`, found %d' % ((trait + ' for ') if trait else '', target, len(found)))
        start, o, c, hdr = found[0]
        bounds = impl_bounds(toks, start, o, bp)
        fns, types = impl_items(toks, o, c)
        if sorted(fns) != sorted(methods):
            err('`impl %s`: expected the fns %r, found %r' % (trait or STRUCT, methods, fns))
        if trait is not None:
            if types.get('Error') != 'std :: io :: Error':
                err('`impl %s`: `type Error` is `%s`, not std::io::Error' % (trait, types.get('Error')))
            if 'Word' in types and types['Word'] != wp:
                err('`impl %s`: `type Word = %s`' % (trait, types['Word']))
            if bound not in bounds:
                err('`impl %s`: the wrapped object is not bound by `%s` (%r)' % (trait, bound, bounds))
        for m in methods:
            hits = rsx.find_fns(toks, o + 1, c, m)
            what = 'impl %s: fn %s' % ((trait + ' for ' + STRUCT) if trait else STRUCT, m)
            fn = parse_fn(toks, hits[0], what)
            hdrtxt, ret, lines = Body(fn, D, bounds, what).emit()
            out.append('/-- `%s` (%s) -/' % (what, REL))
            out.append('def %s.%s %s: %s :=' % (STRUCT, m, hdrtxt, ret))
            out += lines
            out.append('')
    return out


def main(write_if_changed, HEADER, src, TranslateError):
    rsx.Ctx.TE = TranslateError
    head = [HEADER.rstrip('\n'),
            '-- (tools/translate_adapter.py: the method bodies of `WordAdapter<W, B>`, src/impls/word_adapter.rs, on the state',
            '-- `WordAdapter β` of lean/Dsi/Impl/AdapterSeek.lean; `backend_m` is the wrapped object\'s `std::io` method `m`;',
            '-- u64 arithmetic wraps visibly (`% 2 ^ 64`); native byte order = little-endian is the recorded assumption.)',
            'import Dsi.Impl.AdapterSeek', '', 'namespace Dsi.Gen', 'open Dsi',
            'set_option linter.unusedVariables false', '']
    try:
        body = gen(src)
    except TranslateError as ex:
        write_if_changed(OUT, '\n'.join(head + ['-- TRANSLATION FAILED: %s' % str(ex).replace('\n', ' '), '',
                                                'end Dsi.Gen', '']))
        raise
    return ['AdapterBodies'] if write_if_changed(OUT, '\n'.join(head + body + ['end Dsi.Gen', ''])) else []


if __name__ == '__main__':
    import translate
    try:
        print(main(translate.write_if_changed, translate.HEADER, translate.src, translate.TranslateError))
    except translate.TranslateError as ex:
        print('translate: ERROR: %s' % ex)
        sys.exit(3)
