#!/usr/bin/env python3
"""Translator for `check_tables` (src/traits/bits.rs) and its callers
-> lean/Dsi/Gen/CheckTablesBodies.lean.  The equality theorems (against `checkTables`,
`bufReaderDiag`, `bitReaderDiag` of lean/Dsi/Glue/CheckTables.lean, and of the argument each reader
constructor passes against the look-ahead capacity of the model, `bufReaderCapacity` /
`bitReaderCapacity`) are in lean/Dsi/Props/CheckTablesGen.lean.

`fn check_tables(peek_bits: usize)`: the body must be a sequence of statements

    if COND { eprintln!(..); .. }          (no `else`; the branch may only print)

COND a comparison (`< <= > >= == !=`) between integer expressions over the parameter, literals
and the constants `gamma_tables::X` / `delta_tables::X` / `zeta_tables::X` (-> `Gamma.X` ..  of
lean/Dsi/Gen/Tables*.lean) with `+ - *`; the arguments of `eprintln!` must be names / paths (they
cannot change anything).  Each statement is the diagnostic of the one table module its condition
mentions: `gamma_tables` -> "gamma", `delta_tables` -> "delta", `zeta_tables` -> "zeta3" (the
names of lean/Dsi/Glue/CheckTables.lean; the text of the message is not looked at).  Result:

    def check_tables (peek_bits : Nat) : List String :=
      (if COND1 then ["gamma"] else []) ++ (if COND2 then ["delta"] else []) ++ ..
    def checkTablesCompared : List (String × String × Nat) := [("gamma", "READ_BITS", Gamma.READ_BITS), ..]

Callers: every `check_tables( .. )` anywhere in src/.  Each must be a statement of its own at
the top of the body of `fn new` of an inherent `impl<..> BufBitReader<..>` (src/impls/buf_bit_reader.rs)
or `impl<..> BitReader<..>` (src/impls/bit_reader.rs), exactly one per constructor; a call anywhere
else (another file, another function, under an `if`, ..) fails closed.  The argument is translated:

    literal                     the number
    X::Word::BITS               W      X the generic parameter of the impl bounded by `WordRead`
                                       (the backend of the reader; W is its word width)
    uN::BITS / usize::BITS      N
    + - * /                     the `Nat` operations

    def BufBitReader.new_peek_bits (W : Nat) : Nat := W        def BitReader.new_peek_bits : Nat := 32
    def BufBitReader.new_diag (W : Nat) : List String := check_tables (BufBitReader.new_peek_bits W)
    def BitReader.new_diag : List String := check_tables BitReader.new_peek_bits
"""
import os, re, sys
sys.path.insert(0, os.path.dirname(os.path.abspath(__file__)))
from rstok import tokenize, match_close
import rsx
from rsx import err, lean_id

REL = 'src/traits/bits.rs'
OUT = 'CheckTablesBodies.lean'
TABLE_MODS = {'gamma_tables': ('Gamma', 'gamma'), 'delta_tables': ('Delta', 'delta'), 'zeta_tables': ('Zeta', 'zeta3')}
TABLE_CONSTS = ('READ_BITS', 'WRITE_MAX', 'K')
CALLERS = {
    # file: (struct, Lean namespace, has a backend word width)
    'src/impls/buf_bit_reader.rs': ('BufBitReader', True),
    'src/impls/bit_reader.rs': ('BitReader', False),
}
WIDTH = {'u8': 8, 'u16': 16, 'u32': 32, 'u64': 64, 'usize': 64, 'u128': 128}
P_CMP, P_ADD, P_MUL, P_ATOM = 50, 65, 70, 1024


def par(t, need):
    return t[0] if t[1] >= need else '(%s)' % t[0]


class Arith:
    """integer expressions -> (Lean `Nat` text, precedence); `leaf(e)` translates what is specific"""

    def __init__(self, what, leaf):
        self.what, self.leaf = what, leaf

    def fail(self, msg):
        err('%s: %s' % (self.what, msg))

    def ex(self, e):
        k = e[0]
        if k == 'paren':
            return self.ex(e[1])
        if k == 'num':
            if e[2] not in (None, 'usize'):
                self.fail('literal with suffix %s' % e[2])
            return (str(e[1]), P_ATOM)
        r = self.leaf(e)
        if r is not None:
            return r
        if k == 'bin' and e[1] in ('+', '-', '*', '/'):
            a, b = self.ex(e[2]), self.ex(e[3])
            p = P_ADD if e[1] in ('+', '-') else P_MUL
            return ('%s %s %s' % (par(a, p), e[1], par(b, p + 1)), p)
        if k == 'path' and len(e[1]) == 2 and e[1][0] in WIDTH and e[1][1] == 'BITS' and e[2] is None:
            return (str(WIDTH[e[1][0]]), P_ATOM)
        if k == 'cast' and e[2].replace(' ', '') == 'usize':
            return self.ex(e[1])
        self.fail('expression `%s` is not in the translated language' % rsx_text(e))

    def cond(self, e):
        while e[0] == 'paren':
            e = e[1]
        if e[0] == 'bin' and e[1] in ('<', '<=', '>', '>=', '==', '!='):
            lo = {'==': '=', '!=': '≠', '<': '<', '<=': '≤', '>': '>', '>=': '≥'}[e[1]]
            a, b = self.ex(e[2]), self.ex(e[3])
            return '%s %s %s' % (par(a, P_CMP + 1), lo, par(b, P_CMP + 1))
        self.fail('the condition is not a comparison')


def rsx_text(e):
    return e[0] if not (e[0] == 'path') else '::'.join(e[1])


def mods_mentioned(e, acc):
    if isinstance(e, tuple):
        if e and e[0] == 'path' and e[1][0] in TABLE_MODS:
            acc.append((e[1][0], e[1][1] if len(e[1]) > 1 else '?'))
        for x in e[1:]:
            mods_mentioned(x, acc)
    elif isinstance(e, list):
        for x in e:
            mods_mentioned(x, acc)
    return acc


def print_only(blk, what):
    if not blk:
        err('%s: empty branch' % what)
    for st in blk:
        if not (st[0] == 'expr' and st[1][0] == 'macro' and st[1][1] in ('eprintln', 'eprint')):
            err('%s: the branch does more than print' % what)
        for arg in st[1][2]:
            for t in arg:
                if t[0] in ('str', 'id', 'num') or (t[0] == 'p' and t[1] in ('::', '.')):
                    continue
                err('%s: an `eprintln!` argument is not a plain name / path (`%s`)' % (what, rsx.text_of(arg)))


def gen_check_tables(src):
    rsx.Ctx.rel = REL
    toks = tokenize(src(REL))
    rsx.check_no_alias(toks, REL)
    hits = rsx.find_fns(toks, 0, len(toks), 'check_tables')
    if len(hits) != 1:
        err('expected exactly one top-level fn check_tables, found %d' % len(hits))
    what = 'fn check_tables'
    fn = rsx.parse_fn_at(toks, hits[0], what)
    if fn['generics'] or fn['recv'] or fn['ret'] is not None or len(fn['params']) != 1:
        err('%s: unexpected signature' % what)
    x, mut, ty = fn['params'][0]
    if mut or ty != 'usize':
        err('%s: parameter `%s: %s`' % (what, x, ty))

    def leaf(e):
        if e[0] == 'var':
            if e[1] != x:
                err('%s: unknown variable `%s`' % (what, e[1]))
            return (lean_id(x), P_ATOM)
        if e[0] == 'path' and e[1][0] in TABLE_MODS:
            if len(e[1]) != 2 or e[1][1] not in TABLE_CONSTS or e[2] is not None:
                err('%s: path `%s`' % (what, '::'.join(e[1])))
            return ('%s.%s' % (TABLE_MODS[e[1][0]][0], e[1][1]), P_ATOM)
        return None

    A = Arith(what, leaf)
    parts, compared = [], []
    for st in fn['body']:
        if not (st[0] == 'expr' and st[1][0] == 'if'):
            err('%s: statement `%s` is not an `if`' % (what, st[0] if st[0] != 'expr' else st[1][0]))
        _, c, th, el = st[1]
        if el is not None:
            err('%s: `if` with an `else`' % what)
        print_only(th, what)
        ms = mods_mentioned(c, [])
        if len(set(m for m, _ in ms)) != 1:
            err('%s: a condition mentions %d table modules' % (what, len(set(m for m, _ in ms))))
        name = TABLE_MODS[ms[0][0]][1]
        parts.append('(if %s then ["%s"] else [])' % (A.cond(c), name))
        for m, cst in ms:
            compared.append('("%s", "%s", %s.%s)' % (name, cst, TABLE_MODS[m][0], cst))
    if not parts:
        parts = ['[]']
    out = ['/-- `fn check_tables` (%s): the tables a diagnostic is printed for, in the order printed -/' % REL,
           'def check_tables (%s : Nat) : List String :=' % lean_id(x),
           '  ' + ' ++\n  '.join(parts), '',
           '/-- (diagnostic, constant its condition mentions, value) in source order -/',
           'def checkTablesCompared : List (String × String × Nat) :=',
           '  [%s]' % ', '.join(compared), '']
    return out


def repo_files():
    root = os.path.join(os.environ.get('DSI_REPO', '/repo'), 'src')
    for d, _, fs in sorted(os.walk(root)):
        for f in sorted(fs):
            if f.endswith('.rs'):
                p = os.path.join(d, f)
                yield os.path.relpath(p, os.path.dirname(root)), p


def call_sites(toks):
    """indices of `check_tables` used as a call (not the definition, not in a `use`)"""
    out = []
    in_use = False
    for i, t in enumerate(toks):
        if t == ('id', 'use'):
            in_use = True
        elif t == ('p', ';'):
            in_use = False
        if t == ('id', 'check_tables') and not in_use:
            if i > 0 and toks[i - 1] == ('id', 'fn'):
                continue
            out.append(i)
    return out


def gen_callers():
    out = []
    found = {}
    for rel, p in repo_files():
        with open(p, encoding='utf-8') as f:
            toks = tokenize(f.read())
        sites = call_sites(toks)
        if not sites:
            continue
        if rel not in CALLERS:
            err('`check_tables` is used in %s: a caller that is not modelled' % rel)
        rsx.Ctx.rel = rel
        rsx.check_no_alias(toks, rel)
        struct, has_w = CALLERS[rel]
        # the inherent impls of the struct that have a `fn new`
        impls = rsx.find_impls(toks, lambda hdr: re.search(r'\bfor\b', hdr) is None and
                               re.search(r'(^|[ >])%s <' % struct, hdr) is not None)
        news = []
        for hdr, o, c in impls:
            for i in rsx.find_fns(toks, o + 1, c, 'new'):
                news.append((hdr, o, c, i))
        if len(news) != 1:
            err('expected exactly one inherent `%s::new`, found %d' % (struct, len(news)))
        hdr, o, c, i = news[0]
        what = '%s::new' % struct
        for atxt in rsx.attrs_before(toks, i, 0):
            if atxt.startswith('cfg'):
                err('%s is under #[%s]' % (what, atxt))
        # extent of the function: every use in the file must be inside it
        j = i
        while toks[j] != ('p', '{'):
            if toks[j] == ('p', ';'):
                err('%s has no body' % what)
            j += 1
        e = match_close(toks, j)
        for s in sites:
            if not (j < s < e):
                err('`check_tables` is used outside %s' % what)
        # the leading statements `check_tables(..);` of the body (the rest of the body -- a struct
        # literal -- is not parsed: it contains no other use, see below)
        P = rsx.Parser(toks, what)
        P.i = j + 1
        leading = []
        while P.at('check_tables') and P.at('(', 1):
            st = P.stmt()
            if not (st[0] == 'expr' and st[2] and st[1][0] == 'call' and st[1][1] == ('var', 'check_tables')):
                err('%s: `check_tables(..)` is not a statement of its own' % what)
            leading.append(st)
        # generics of the impl bounded by WordRead: the backend
        m = re.match(r'impl < (.*?) > %s <' % struct, hdr)
        backend = []
        if m:
            for part in m.group(1).split(' , '):
                if ':' in part:
                    nm, bound = part.split(':', 1)
                    if re.search(r'\bWordRead\b', bound):
                        backend.append(nm.strip())

        def leaf(e, backend=backend, has_w=has_w, what=what):
            if e[0] == 'path' and len(e[1]) == 3 and e[1][1:] == ['Word', 'BITS'] and e[2] is None:
                if has_w and e[1][0] in backend and len(backend) == 1:
                    return ('W', P_ATOM)
                err('%s: `%s` is not the word width of the backend' % (what, '::'.join(e[1])))
            if e[0] == 'var':
                err('%s: the argument uses the variable `%s`' % (what, e[1]))
            return None

        A = Arith(what, leaf)
        args = []
        for st in leading:
            if len(st[1][2]) != 1:
                err('%s: `check_tables` with %d arguments' % (what, len(st[1][2])))
            args.append(A.ex(st[1][2][0]))
        if len(args) != 1 or len(sites) != 1:
            err('%s: expected exactly one statement `check_tables(..);` at the top of the body (found %d, %d uses)'
                % (what, len(args), len(sites)))
        wb = '(W : Nat) ' if has_w else ''
        wa = ' W' if has_w else ''
        out += ['/-- the argument of `check_tables` in `%s` (%s)%s -/' % (what, rel, '; `W`: the word width of the backend' if has_w else ''),
                'def %s.new_peek_bits %s: Nat := %s' % (struct, wb, args[0][0]),
                '/-- the diagnostics `%s` prints -/' % what,
                'def %s.new_diag %s: List String := check_tables (%s.new_peek_bits%s)' % (struct, wb, struct, wa), '']
        found[rel] = what
    for rel, (struct, _) in CALLERS.items():
        if rel not in found:
            err('`%s::new` (%s) does not call `check_tables`' % (struct, rel))
    out += ['/-- every use of `check_tables` in src/ -/', 'def checkTablesCallers : List (String × String) :=',
            '  [%s]' % ', '.join('("%s", "%s")' % kv for kv in sorted(found.items())), '']
    return out


def render(HEADER, body, failure=None):
    head = [HEADER.rstrip('\n'),
            '-- (tools/translate_checktables.py: `check_tables`, %s, statement by statement, and the argument' % REL,
            '-- every caller in src/ passes.)',
            'import Dsi.Gen.TablesGamma', 'import Dsi.Gen.TablesDelta', 'import Dsi.Gen.TablesZeta', '',
            'namespace Dsi.Gen.CheckTables', 'open Dsi.Gen', 'set_option linter.unusedVariables false', '']
    if failure is not None:
        return '\n'.join(head + ['-- TRANSLATION FAILED: %s' % failure.replace('\n', ' '), '', 'end Dsi.Gen.CheckTables', ''])
    return '\n'.join(head + body + ['end Dsi.Gen.CheckTables', ''])


def main(write_if_changed, HEADER, src, TranslateError):
    rsx.Ctx.TE = TranslateError
    try:
        body = gen_check_tables(src) + gen_callers()
    except TranslateError as ex:
        write_if_changed(OUT, render(HEADER, [], str(ex)))
        raise
    return ['CheckTablesBodies'] if write_if_changed(OUT, render(HEADER, body)) else []


if __name__ == '__main__':
    import translate
    try:
        print(main(translate.write_if_changed, translate.HEADER, translate.src, translate.TranslateError))
    except translate.TranslateError as ex:
        print('translate: ERROR: %s' % ex)
        sys.exit(3)
