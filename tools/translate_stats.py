"""Translator part for C15: src/utils/stats.rs -> lean/Dsi/Gen/StatsOffsets.lean (data only).

Extracted (token level, so rustfmt-level rewrites do not matter):
  * the default const generics of `CodesStats` (ZETA = 10, ...);
  * `update`: the count it forwards to `update_many`;
  * `update_many`: every scalar statement `self.F += <expr>` and every family loop
    `for (i, val) in self.F.iter_mut().enumerate() { *val += (len_X(n, (i + OFF) as _) as u64) * count; }`
    as (field, length function, index->parameter offset);
  * `add`: which field of `rhs` is added to which field of `self`;
  * `best_code`: the initial candidate, the comparison operator of `check!`, the order of the scan and the
    index->parameter offset of every family;
  * `AddAssign`/`Add`/`Sum` and the four wrapper impls only have their shape checked (fail closed).
Anything that does not have one of the recognised shapes raises TranslateError.
"""
from rstok import tokenize, match_close, num_value, find_seq

REL = 'src/utils/stats.rs'

FIELDS = {'total': 'total', 'unary': 'unary', 'gamma': 'gamma', 'delta': 'delta', 'omega': 'omega', 'vbyte': 'vbyte',
          'zeta': 'zeta', 'golomb': 'golomb', 'exp_golomb': 'expGolomb', 'rice': 'rice', 'pi': 'pi'}
SCALARS = ['total', 'unary', 'gamma', 'delta', 'omega', 'vbyte']
FAMILIES = ['zeta', 'golomb', 'exp_golomb', 'rice', 'pi']
LEN1 = {'len_gamma': 'gamma', 'len_delta': 'delta', 'len_omega': 'omega', 'bit_len_vbyte': 'vbyte'}
LEN2 = {'len_zeta': 'zeta', 'len_golomb': 'golomb', 'len_exp_golomb': 'expGolomb', 'len_rice': 'rice', 'len_pi': 'pi'}
CODES0 = {'Unary': 'unary', 'Gamma': 'gamma', 'Delta': 'delta', 'Omega': 'omega', 'VByteLe': 'vbyteLe',
          'VByteBe': 'vbyteBe'}
CODES1 = {'Zeta': ('zeta', 'k'), 'Pi': ('pi', 'k'), 'Golomb': ('golomb', 'b'), 'ExpGolomb': ('expGolomb', 'k'),
          'Rice': ('rice', 'log2_b')}
GENERICS = ['ZETA', 'GOLOMB', 'EXP_GOLOMB', 'RICE', 'PI']


def texts(toks):
    return [t for _, t in toks]


def fn_body(toks, name, err, start=0):
    i = find_seq(toks, ['fn', name], start)
    if i < 0:
        raise err('%s: fn %s not found' % (REL, name))
    j = i
    while toks[j][1] != '{':
        j += 1
    e = match_close(toks, j)
    return toks[j + 1:e], e


def statements(body, err, what):
    """split a block into ('for', header, block) and ('stmt', tokens) items; a trailing expression is ('expr', tokens)"""
    out = []
    i = 0
    while i < len(body):
        k, t = body[i]
        if t == 'for' and k == 'id':
            j = i
            while body[j][1] != '{':
                j += 1
            e = match_close(body, j)
            out.append(('for', body[i + 1:j], body[j + 1:e]))
            i = e + 1
            continue
        if t == 'macro_rules' and k == 'id':
            j = i
            while body[j][1] != '{':
                j += 1
            e = match_close(body, j)
            out.append(('macro', body[i:j], body[j + 1:e]))
            i = e + 1
            continue
        j = i
        depth = 0
        while j < len(body):
            tt = body[j][1]
            if body[j][0] == 'p' and tt in '([{':
                depth += 1
            elif body[j][0] == 'p' and tt in ')]}':
                depth -= 1
            elif tt == ';' and depth == 0:
                break
            j += 1
        if j >= len(body):
            out.append(('expr', body[i:]))
            break
        out.append(('stmt', body[i:j]))
        i = j + 1
    return out


def strip_parens(ts):
    """remove redundant outer parentheses of a token-text list"""
    while len(ts) >= 2 and ts[0] == '(' and ts[-1] == ')':
        depth = 0
        ok = True
        for idx, t in enumerate(ts):
            if t == '(':
                depth += 1
            elif t == ')':
                depth -= 1
                if depth == 0 and idx != len(ts) - 1:
                    ok = False
                    break
        if not ok:
            break
        ts = ts[1:-1]
    return ts


def parse_param(ts, var, err, what):
    """`VAR as _` | `(VAR + N) as _` | `(N + VAR) as _` -> offset"""
    if ts[-2:] == ['as', '_'] or (len(ts) >= 2 and ts[-2] == 'as'):
        ts = ts[:-2]
    ts = strip_parens(ts)
    if ts == [var]:
        return 0
    if len(ts) == 3 and ts[1] == '+':
        if ts[0] == var and ts[2].split(':')[0].isdigit():
            return int(ts[2].split(':')[0])
        if ts[2] == var and ts[0].split(':')[0].isdigit():
            return int(ts[0].split(':')[0])
    raise err('%s: %s: index->parameter expression %r not recognised' % (REL, what, ' '.join(ts)))


def scalar_expr(ts, err, what):
    """right-hand side of a scalar `+=` in update_many -> LenFn tag"""
    ts = strip_parens(ts)
    if ts == ['count']:
        return 'one'
    # X * count
    if len(ts) >= 3 and ts[-2:] == ['*', 'count']:
        x = strip_parens(ts[:-2])
        if x == ['n', '+', '1'] or x == ['1', '+', 'n']:
            return 'succ'
        if len(x) >= 2 and x[-2:] == ['as', 'u64']:
            x = strip_parens(x[:-2])
        if len(x) == 4 and x[0] in LEN1 and x[1:] == ['(', 'n', ')']:
            return LEN1[x[0]]
    raise err('%s: %s: update expression %r not recognised' % (REL, what, ' '.join(ts)))


def family_expr(ts, var, err, what):
    """right-hand side of `*val +=` in a family loop -> (LenFn tag, offset)"""
    ts = strip_parens(ts)
    if len(ts) >= 3 and ts[-2:] == ['*', 'count']:
        x = strip_parens(ts[:-2])
        if len(x) >= 2 and x[-2:] == ['as', 'u64']:
            x = strip_parens(x[:-2])
        if len(x) >= 6 and x[0] in LEN2 and x[1] == '(' and x[2] == 'n' and x[3] == ',' and x[-1] == ')':
            return LEN2[x[0]], parse_param(x[4:-1], var, err, what)
    raise err('%s: %s: update expression %r not recognised' % (REL, what, ' '.join(ts)))


def loop_header(hd, method, err, what):
    """`(VAR, val) in self.F.<method>().enumerate()` -> (VAR, valname, F)"""
    ts = texts(hd)
    want_tail = ['.', method, '(', ')', '.', 'enumerate', '(', ')']
    if (len(ts) == 9 + len(want_tail) and ts[0] == '(' and ts[2] == ',' and ts[4] == ')' and ts[5] == 'in'
            and ts[6] == 'self' and ts[7] == '.' and ts[9:] == want_tail):
        return ts[1], ts[3], ts[8]
    raise err('%s: %s: loop header %r not recognised' % (REL, what, ' '.join(ts)))


def parse_update_many(toks, err):
    body, _ = fn_body(toks, 'update_many', err)
    scalars, fams = [], []
    for st in statements(body, err, 'update_many'):
        if st[0] == 'stmt':
            ts = texts(st[1])
            if len(ts) > 4 and ts[0] == 'self' and ts[1] == '.' and ts[3] == '+=':
                f = ts[2]
                if f not in SCALARS:
                    raise err('%s: update_many: scalar update of unknown field %s' % (REL, f))
                scalars.append((f, scalar_expr(ts[4:], err, 'update_many/' + f)))
            else:
                raise err('%s: update_many: statement %r not recognised' % (REL, ' '.join(ts)))
        elif st[0] == 'for':
            var, val, f = loop_header(st[1], 'iter_mut', err, 'update_many')
            if f not in FAMILIES:
                raise err('%s: update_many: loop over unknown field %s' % (REL, f))
            inner = statements(st[2], err, 'update_many/' + f)
            if len(inner) != 1 or inner[0][0] != 'stmt':
                raise err('%s: update_many: body of the %s loop not recognised' % (REL, f))
            ts = texts(inner[0][1])
            if ts[:3] != ['*', val, '+=']:
                raise err('%s: update_many: body of the %s loop not recognised' % (REL, f))
            fn, off = family_expr(ts[3:], var, err, 'update_many/' + f)
            fams.append((f, fn, off))
        elif st[0] == 'expr':
            if texts(st[1]) != ['n']:
                raise err('%s: update_many: result expression %r not recognised' % (REL, ' '.join(texts(st[1]))))
        else:
            raise err('%s: update_many: unexpected item' % REL)
    return scalars, fams


def parse_update(toks, err):
    body, _ = fn_body(toks, 'update', err)
    ts = texts(body)
    if len(ts) == 8 and ts[:6] == ['self', '.', 'update_many', '(', 'n', ','] and ts[7] == ')' and ts[6].isdigit():
        return int(ts[6])
    raise err('%s: update: body %r not recognised' % (REL, ' '.join(ts)))


def parse_add(toks, err):
    # the inherent `add(&mut self, rhs: &Self)`: the first `fn add` whose parameter list mentions `& mut self`
    start = 0
    while True:
        i = find_seq(toks, ['fn', 'add', '('], start)
        if i < 0:
            raise err('%s: inherent fn add(&mut self, ..) not found' % REL)
        if texts(toks[i + 3:i + 6]) == ['&', 'mut', 'self']:
            break
        start = i + 1
    j = i
    while toks[j][1] != '{':
        j += 1
    body = toks[j + 1:match_close(toks, j)]
    pairs = []
    for st in statements(body, err, 'add'):
        if st[0] == 'stmt':
            ts = texts(st[1])
            if len(ts) == 7 and ts[:2] == ['self', '.'] and ts[3:6] == ['+=', 'rhs', '.'] and ts[2] in SCALARS and ts[6] in SCALARS:
                pairs.append((ts[2], ts[6]))
            else:
                raise err('%s: add: statement %r not recognised' % (REL, ' '.join(ts)))
        elif st[0] == 'for':
            ts = texts(st[1])
            # (a, b) in self.F.iter_mut().zip(rhs.G.iter())
            if (len(ts) == 24 and ts[0] == '(' and ts[2] == ',' and ts[4:8] == [')', 'in', 'self', '.']
                    and ts[9:16] == ['.', 'iter_mut', '(', ')', '.', 'zip', '('] and ts[16:18] == ['rhs', '.']
                    and ts[19:] == ['.', 'iter', '(', ')', ')']):
                a, b, f, g2 = ts[1], ts[3], ts[8], ts[18]
            else:
                raise err('%s: add: loop header %r not recognised' % (REL, ' '.join(ts)))
            if f not in FAMILIES or g2 not in FAMILIES:
                raise err('%s: add: loop over unknown fields %s/%s' % (REL, f, g2))
            inner = statements(st[2], err, 'add/' + f)
            if len(inner) != 1 or inner[0][0] != 'stmt' or texts(inner[0][1]) != ['*', a, '+=', '*', b]:
                raise err('%s: add: body of the %s loop not recognised' % (REL, f))
            pairs.append((f, g2))
        else:
            raise err('%s: add: unexpected item' % REL)
    return pairs


def parse_code_expr(ts, var, err, what):
    """`Codes::X` | `Codes::X { field: PARAM as _ }` -> (fam tag, offset or None)"""
    if len(ts) == 3 and ts[:2] == ['Codes', '::'] and ts[2] in CODES0:
        return CODES0[ts[2]], None
    if len(ts) > 6 and ts[:2] == ['Codes', '::'] and ts[2] in CODES1 and ts[3] == '{' and ts[-1] == '}':
        fam, fld = CODES1[ts[2]]
        inner = ts[4:-1]
        if inner and inner[-1] == ',':
            inner = inner[:-1]
        if inner[:2] != [fld, ':'] or var is None:
            raise err('%s: %s: code expression %r not recognised' % (REL, what, ' '.join(ts)))
        return fam, parse_param(inner[2:], var, err, what)
    raise err('%s: %s: code expression %r not recognised' % (REL, what, ' '.join(ts)))


def split_check(ts, err, what):
    """`check ! ( CODE , LEN )` -> (CODE tokens, LEN tokens)"""
    if ts[:3] != ['check', '!', '('] or ts[-1] != ')':
        raise err('%s: %s: statement %r not recognised' % (REL, what, ' '.join(ts)))
    inner = ts[3:-1]
    depth = 0
    for i, t in enumerate(inner):
        if t in '([{':
            depth += 1
        elif t in ')]}':
            depth -= 1
        elif t == ',' and depth == 0:
            rest = inner[i + 1:]
            if rest and rest[-1] == ',':
                rest = rest[:-1]
            return inner[:i], rest
    raise err('%s: %s: statement %r not recognised' % (REL, what, ' '.join(ts)))


def parse_best_code(toks, err):
    body, _ = fn_body(toks, 'best_code', err)
    init_field = init_code = op = None
    scan = []   # (fam tag, field, offset or None)
    for st in statements(body, err, 'best_code'):
        if st[0] == 'stmt':
            ts = texts(st[1])
            if ts[:4] == ['let', 'mut', 'best', '='] and len(ts) == 7 and ts[4:6] == ['self', '.'] and ts[6] in SCALARS:
                init_field = ts[6]
            elif ts[:4] == ['let', 'mut', 'best_code', '=']:
                init_code, off = parse_code_expr(ts[4:], None, err, 'best_code/init')
            elif ts[:1] == ['check']:
                c, l = split_check(ts, err, 'best_code')
                fam, off = parse_code_expr(c, None, err, 'best_code')
                if len(l) != 3 or l[:2] != ['self', '.'] or l[2] not in SCALARS:
                    raise err('%s: best_code: cost expression %r not recognised' % (REL, ' '.join(l)))
                scan.append((fam, l[2], None))
            else:
                raise err('%s: best_code: statement %r not recognised' % (REL, ' '.join(ts)))
        elif st[0] == 'macro':
            mt = texts(st[2])
            # ( $code:expr, $len:expr ) => { if $len OP best { best = $len; best_code = $code; } } [;]
            want_pre = ['(', '$', 'code', ':', 'expr', ',', '$', 'len', ':', 'expr', ')', '=>', '{', 'if', '$', 'len']
            want_post = ['best', '{', 'best', '=', '$', 'len', ';', 'best_code', '=', '$', 'code', ';', '}', '}']
            tail = mt[len(want_pre) + 1:]
            if tail and tail[-1] == ';':
                tail = tail[:-1]
            if texts(st[1])[:3] != ['macro_rules', '!', 'check'] or mt[:len(want_pre)] != want_pre or tail != want_post:
                raise err('%s: best_code: macro check! not recognised' % REL)
            op = mt[len(want_pre)]
            if op not in ('<', '<='):
                raise err('%s: best_code: comparison %r not recognised' % (REL, op))
        elif st[0] == 'for':
            var, val, f = loop_header(st[1], 'iter', err, 'best_code')
            if f not in FAMILIES:
                raise err('%s: best_code: loop over unknown field %s' % (REL, f))
            inner = statements(st[2], err, 'best_code/' + f)
            if len(inner) != 1 or inner[0][0] != 'stmt':
                raise err('%s: best_code: body of the %s loop not recognised' % (REL, f))
            c, l = split_check(texts(inner[0][1]), err, 'best_code/' + f)
            if l != ['*', val]:
                raise err('%s: best_code: cost expression %r not recognised' % (REL, ' '.join(l)))
            fam, off = parse_code_expr(c, var, err, 'best_code/' + f)
            if off is None:
                raise err('%s: best_code: parameterless code in the %s loop' % (REL, f))
            scan.append((fam, f, off))
        elif st[0] == 'expr':
            if texts(st[1]) != ['(', 'best_code', ',', 'best', ')']:
                raise err('%s: best_code: result %r not recognised' % (REL, ' '.join(texts(st[1]))))
        else:
            raise err('%s: best_code: unexpected item' % REL)
    if init_field is None or init_code is None or op is None:
        raise err('%s: best_code: initial candidate or check! macro not found' % REL)
    return init_code, init_field, op, scan


def parse_generics(toks, err):
    i = find_seq(toks, ['pub', 'struct', 'CodesStats', '<'])
    if i < 0:
        raise err('%s: struct CodesStats not found' % REL)
    out = {}
    j = i + 4
    while toks[j][1] != '>':
        if toks[j][1] == 'const' and toks[j + 2][1] == ':' and toks[j + 3][1] == 'usize' and toks[j + 4][1] == '=' and toks[j + 5][0] == 'num':
            out[toks[j + 1][1]] = num_value(toks[j + 5][1])
            j += 6
        else:
            j += 1
    for g in GENERICS:
        if g not in out:
            raise err('%s: default of const generic %s not found' % (REL, g))
    # array sizes of the fields
    for f, g in zip(FAMILIES, GENERICS):
        if find_seq(toks, ['pub', f, ':', '[', 'u64', ';', g, ']']) < 0:
            raise err('%s: field %s is not [u64; %s]' % (REL, f, g))
    return out


def check_shapes(toks, err):
    """AddAssign / Add / Sum / wrapper impls: fixed shapes, fail closed"""
    b, _ = fn_body(toks, 'add_assign', err)
    if texts(b) != ['self', '.', 'add', '(', '&', 'rhs', ')', ';']:
        raise err('%s: add_assign: body not recognised' % REL)
    # trait Add::add(self, rhs: Self)
    i = find_seq(toks, ['fn', 'add', '(', 'self', ','])
    if i < 0:
        raise err('%s: Add::add not found' % REL)
    j = i
    while toks[j][1] != '{':
        j += 1
    b = toks[j + 1:match_close(toks, j)]
    if texts(b) != ['let', 'mut', 'res', '=', 'self', ';', 'res', '+=', 'rhs', ';', 'res']:
        raise err('%s: Add::add: body not recognised' % REL)
    b, _ = fn_body(toks, 'sum', err)
    if texts(b) != ['iter', '.', 'fold', '(', 'Self', '::', 'default', '(', ')', ',', '|', 'a', ',', 'b', '|', 'a', '+', 'b', ')']:
        raise err('%s: Sum::sum: body not recognised' % REL)
    # Default: every field zero
    b, _ = fn_body(toks, 'default', err)
    ts = texts(b)
    for f in SCALARS:
        if find_seq(b, [f, ':', '0', ',']) < 0:
            raise err('%s: default(): %s is not 0' % (REL, f))
    for f, g in zip(FAMILIES, GENERICS):
        if find_seq(b, [f, ':', '[', '0', ';', g, ']']) < 0:
            raise err('%s: default(): %s is not [0; %s]' % (REL, f, g))
    # wrapper impls: read -> update(res), write -> update(value), exactly once each, after the wrapped call
    w = find_seq(toks, ['pub', 'struct', 'CodesStatsWrapper'])
    if w < 0:
        raise err('%s: CodesStatsWrapper not found' % REL)
    pos = w
    found = []
    for name in ('read', 'read', 'write', 'write'):
        i = find_seq(toks, ['fn', name], pos)
        if i < 0:
            raise err('%s: wrapper fn %s not found' % (REL, name))
        j = i
        while toks[j][1] != '{':
            j += 1
        e = match_close(toks, j)
        ts = texts(toks[j + 1:e])
        arg = 'res' if name == 'read' else 'value'
        call = (['let', 'res', '=', 'self', '.', 'wrapped', '.', 'read', '(', 'reader', ')', '?', ';'] if name == 'read'
                else ['let', 'res', '=', 'self', '.', 'wrapped', '.', 'write', '(', 'writer', ',', 'value', ')', '?', ';'])
        want = call + ['self', '.', 'stats', '.', 'lock', '(', ')', '.', 'unwrap', '(', ')', '.', 'update', '(', arg, ')', ';',
                       'Ok', '(', 'res', ')']
        if ts != want:
            raise err('%s: wrapper fn %s: body not recognised' % (REL, name))
        found.append(name)
        pos = e
    if find_seq(toks, ['fn', 'read'], pos) >= 0 or find_seq(toks, ['fn', 'write'], pos) >= 0:
        raise err('%s: more wrapper impls than expected' % REL)


def main(write_if_changed, HEADER, src, TranslateError):
    toks = tokenize(src(REL))
    err = TranslateError
    gens = parse_generics(toks, err)
    cnt = parse_update(toks, err)
    scalars, fams = parse_update_many(toks, err)
    pairs = parse_add(toks, err)
    init_code, init_field, op, scan = parse_best_code(toks, err)
    check_shapes(toks, err)
    out = [HEADER, 'import Dsi.Glue.StatsTypes', 'namespace Dsi.Gen.Stats', 'open Dsi', '']
    for g in GENERICS:
        out.append('def %s : Nat := %d' % (g, gens[g]))
    out.append('/-- `update(n)` = `update_many(n, updateCount)` -/')
    out.append('def updateCount : Nat := %d' % cnt)
    out.append('/-- `update_many`: scalar statements `self.F += <fn>(n) * count` in source order -/')
    out.append('def updScalars : List (SField × LenFn) := [%s]' % ', '.join('(.%s, .%s)' % (FIELDS[f], fn) for f, fn in scalars))
    out.append('/-- `update_many`: family loops `self.F[i] += <fn>(n, i + offset) * count` in source order -/')
    out.append('def updFamilies : List (SField × LenFn × Nat) := [%s]' % ', '.join('(.%s, .%s, %d)' % (FIELDS[f], fn, off) for f, fn, off in fams))
    out.append('/-- `add`: `self.F += rhs.G` (element-wise for families) in source order -/')
    out.append('def addPairs : List (SField × SField) := [%s]' % ', '.join('(.%s, .%s)' % (FIELDS[a], FIELDS[b]) for a, b in pairs))
    out.append('/-- `best_code`: initial candidate -/')
    out.append('def bestInit : CodeFam × SField := (.%s, .%s)' % (init_code, FIELDS[init_field]))
    out.append('/-- `best_code`: `check!` replaces the candidate when `len < best` (true) or `len <= best` (false) -/')
    out.append('def bestStrict : Bool := %s' % ('true' if op == '<' else 'false'))
    out.append('/-- `best_code`: the scan in source order: scalars `(code, field, none)`, families `(code, field, some offset)` -/')
    out.append('def bestScan : List (CodeFam × SField × Option Nat) := [%s]' % ', '.join(
        '(.%s, .%s, %s)' % (fam, FIELDS[f], 'none' if off is None else 'some %d' % off) for fam, f, off in scan))
    out.append('\nend Dsi.Gen.Stats\n')
    return ['StatsOffsets'] if write_if_changed('StatsOffsets.lean', '\n'.join(out)) else []
