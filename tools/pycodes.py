"""Independent Python codeword builders (bit lists in stream order) used only by the scenario
generators to build reader inputs with codes at known positions. Not an oracle: answers are
always compared between the implementation and the Lean model/reference."""


def field(le, v, n):
    bits = [(v >> i) & 1 for i in range(n)]
    return bits if le else bits[::-1]


def unary(x):
    return [0] * x + [1]


def gamma(le, n):
    m = n + 1
    l = m.bit_length() - 1
    return unary(l) + field(le, m, l)


def delta(le, n):
    m = n + 1
    l = m.bit_length() - 1
    return gamma(le, l) + field(le, m, l)


def minbin(le, x, u):
    l = u.bit_length() - 1
    limit = (1 << (l + 1)) - u
    if x < limit:
        return field(le, x, l)
    y = x + limit
    return field(le, y >> 1, l) + [y & 1]


def zeta(le, k, n):
    m = n + 1
    h = (m.bit_length() - 1) // k
    l = 1 << (h * k)
    hi = 1 << ((h + 1) * k) if (h + 1) * k <= 64 else 1 << 64
    return unary(h) + minbin(le, m - l, hi - l)


def omega(le, n):
    def rec(m):
        if m <= 1:
            return []
        l = m.bit_length() - 1
        blk = ([1] + field(True, m, l)) if le else field(False, m, l + 1)
        return rec(l) + blk
    return rec(n + 1) + [0]


def rice(le, k, n):
    return unary(n >> k) + field(le, n, k)


def golomb(le, b, n):
    return unary(n // b) + minbin(le, n % b, b)


def pi(le, k, n):
    m = n + 1
    l = m.bit_length() - 1
    return rice(le, k, l) + field(le, m, l)


def expg(le, k, n):
    return gamma(le, n >> k) + field(le, n, k)


def vbyte_bytes(big, v):
    k, off = 1, 0
    while v >= off + (1 << (7 * k)):
        off += 1 << (7 * k)
        k += 1
    r = v - off
    groups = [(r >> (7 * i)) & 127 for i in range(k)]
    if big:
        groups = groups[::-1]
    return [g | (128 if i + 1 < k else 0) for i, g in enumerate(groups)]


def vbyte(le, big, v):
    out = []
    for b in vbyte_bytes(big, v):
        out += field(le, b, 8)
    return out


def codeword(le, code, p, v):
    return {
        'unary': lambda: unary(v), 'gamma': lambda: gamma(le, v), 'delta': lambda: delta(le, v),
        'zeta3': lambda: zeta(le, 3, v), 'zeta': lambda: zeta(le, p, v), 'omega': lambda: omega(le, v),
        'pi': lambda: pi(le, p, v), 'rice': lambda: rice(le, p, v), 'golomb': lambda: golomb(le, p, v),
        'expg': lambda: expg(le, p, v), 'minbin': lambda: minbin(le, v, p), 'vbbe': lambda: vbyte(le, True, v),
        'vble': lambda: vbyte(le, False, v),
    }[code]()


def bits_to_bytes(le, bits):
    bits = list(bits) + [0] * ((-len(bits)) % 8)
    out = bytearray()
    for i in range(0, len(bits), 8):
        b = 0
        for j in range(8):
            if bits[i + j]:
                b |= (1 << j) if le else (1 << (7 - j))
        out.append(b)
    return bytes(out)


def hexs(b):
    return b.hex() if len(b) else '-'
