"""Shared machinery of ./check: builds, the differential runner, comparison, shrinking, evidence."""
import fcntl, hashlib, json, os, random, re, subprocess, sys, time

ROOT = os.path.dirname(os.path.dirname(os.path.abspath(__file__)))
REPO = os.environ.get('DSI_REPO', '/repo')
LEAN = os.path.join(ROOT, 'lean')
HARNESS = os.path.join(ROOT, 'harness')
WORK = os.path.join(ROOT, 'work')
DRIVER = os.path.join(LEAN, '.lake', 'build', 'bin', 'driver')
ALLOWED_AXIOMS = {'propext', 'Classical.choice', 'Quot.sound'}
NCPU = os.cpu_count() or 4


def log(*a):
    print(*a, file=sys.stderr, flush=True)


class Lock:
    def __init__(self, name):
        os.makedirs(WORK, exist_ok=True)
        self.path = os.path.join(WORK, name + '.lock')

    def __enter__(self):
        self.f = open(self.path, 'w')
        fcntl.flock(self.f, fcntl.LOCK_EX)
        return self

    def __exit__(self, *a):
        fcntl.flock(self.f, fcntl.LOCK_UN)
        self.f.close()


def sh(cmd, cwd=None, timeout=None, env=None):
    e = dict(os.environ)
    e['CARGO_NET_OFFLINE'] = 'true'
    e['RUST_BACKTRACE'] = '0'
    if env:
        e.update(env)
    p = subprocess.run(cmd, cwd=cwd, stdin=subprocess.DEVNULL, stdout=subprocess.PIPE, stderr=subprocess.STDOUT, text=True, timeout=timeout,
                       env=e, shell=isinstance(cmd, str))
    return p.returncode, p.stdout


# ---------------------------------------------------------------------------------------------
# builds
# ---------------------------------------------------------------------------------------------

def translate():
    """Regenerate lean/Dsi/Gen from /repo. Returns (ok, message)."""
    with Lock('translate'):
        rc, out = sh([sys.executable, os.path.join(ROOT, 'tools', 'translate.py')])
    return rc == 0, out.strip()


def lake_build(targets, timeout=3000):
    with Lock('lake'):
        rc, out = sh(['lake', 'build'] + targets, cwd=LEAN, timeout=timeout)
    return rc == 0, out


def build_driver():
    ok, out = lake_build(['driver'])
    if not ok:
        log(out[-3000:])
    return ok


def harness_dir():
    """The harness crate to build: harness/ itself for /repo; for another tree (DSI_REPO, used to try
    seeded changes on a scratch worktree without touching /repo) a copy whose path dependency
    points at that tree."""
    if os.path.realpath(REPO) == '/repo':
        return HARNESS
    tag = hashlib.sha1(os.path.realpath(REPO).encode()).hexdigest()[:10]
    d = os.path.join(WORK, 'harness-' + tag)
    os.makedirs(os.path.join(d, 'src'), exist_ok=True)
    os.makedirs(os.path.join(d, '.cargo'), exist_ok=True)
    for rel in os.listdir(os.path.join(HARNESS, 'src')):
        src = open(os.path.join(HARNESS, 'src', rel)).read()
        dst = os.path.join(d, 'src', rel)
        if not os.path.exists(dst) or open(dst).read() != src:
            open(dst, 'w').write(src)
    toml = open(os.path.join(HARNESS, 'Cargo.toml')).read().replace('path = "/repo"', 'path = "%s"' % os.path.realpath(REPO))
    if not os.path.exists(os.path.join(d, 'Cargo.toml')) or open(os.path.join(d, 'Cargo.toml')).read() != toml:
        open(os.path.join(d, 'Cargo.toml'), 'w').write(toml)
    cfg = open(os.path.join(HARNESS, '.cargo', 'config.toml')).read()
    cp = os.path.join(d, '.cargo', 'config.toml')
    if not os.path.exists(cp) or open(cp).read() != cfg:
        open(cp, 'w').write(cfg)
    return d


def harness_target_warm(features=(), profile='release'):
    """has this variant of the harness been built before in this tree (its target directory exists)?"""
    feats = sorted(features)
    tag = '-'.join(feats) if feats else 'default'
    hdir = harness_dir()
    tdir = os.path.join(hdir, 'target' if (not feats and profile == 'release') else 'target-%s-%s' % (tag, profile))
    return os.path.isdir(os.path.join(tdir, 'release' if profile == 'release' else 'debug'))


def harness_bin(features=(), profile='release'):
    """Build the harness against the tree's working copy; returns the binary path or None."""
    feats = sorted(features)
    tag = '-'.join(feats) if feats else 'default'
    hdir = harness_dir()
    tdir = os.path.join(hdir, 'target' if (not feats and profile == 'release') else 'target-%s-%s' % (tag, profile))
    lock = os.path.join(hdir, 'Cargo.lock')
    with Lock('cargo-' + os.path.basename(hdir) + tag + '-' + profile):
        # the lock file is a copy of the repository's (cargo cannot regenerate it offline)
        try:
            src = open(os.path.join(REPO, 'Cargo.lock')).read()
            if not os.path.exists(lock):
                open(lock, 'w').write(src)
        except OSError:
            pass
        cmd = ['cargo', 'build', '--offline', '--target-dir', tdir]
        if profile == 'release':
            cmd.append('--release')
        if feats:
            cmd += ['--features', ','.join(feats)]
        rc, out = sh(cmd, cwd=hdir, timeout=1800)
        if rc != 0:
            # a failed build is a verdict ("the harness does not build against this tree"), so make sure it
            # is not an artefact of a loaded machine (several cargo processes competing for locks): once more
            log('harness build failed (features=%s profile=%s); retrying once\n%s' % (tag, profile, out[-1500:]))
            time.sleep(5)
            rc, out = sh(cmd, cwd=hdir, timeout=1800)
    if rc != 0:
        log(out[-4000:])
        return None
    return os.path.join(tdir, 'release' if profile == 'release' else 'debug', 'dsi-harness')


# ---------------------------------------------------------------------------------------------
# running the two sides
# ---------------------------------------------------------------------------------------------

def _run_proc(binpath, text, timeout, env=None):
    e = dict(os.environ)
    e['RUST_BACKTRACE'] = '0'
    if env:
        e.update(env)
    try:
        p = subprocess.run([binpath], input=text, stdout=subprocess.PIPE, stderr=subprocess.PIPE, text=True,
                           timeout=timeout, env=e)
        return p.returncode, p.stdout, p.stderr
    except subprocess.TimeoutExpired as ex:
        out = ex.stdout
        if isinstance(out, bytes):
            out = out.decode('utf-8', 'replace')
        return 'timeout', out or '', ''


MAX_BAD = 6


def run_lines(binpath, lines, timeout=600, per_line_timeout=20, env=None):
    """Run request lines; returns a list of answers, one per line. A line that hangs or kills the
    process is answered HANG / ABORT (found by re-running with per-line flushing)."""
    if not lines:
        return []
    text = '\n'.join(lines) + '\n'
    rc, out, err = _run_proc(binpath, text, timeout, env)
    answers = out.split('\n')
    if answers and answers[-1] == '':
        answers.pop()
    if rc == 0 and len(answers) == len(lines):
        return answers
    if len(lines) == 1:
        return ['HANG' if rc == 'timeout' else 'ABORT']
    # something went wrong: isolate
    res = []
    i = 0
    nbad = 0
    fenv = dict(env or {})
    fenv['HARNESS_FLUSH'] = '1'
    while i < len(lines):
        if nbad >= MAX_BAD:
            # enough hanging / aborting requests have been isolated to report; the rest of this
            # share is not run (and not compared) rather than paying a timeout for each
            res += ['NOTRUN'] * (len(lines) - i)
            break
        chunk = lines[i:]
        rc, out, err = _run_proc(binpath, '\n'.join(chunk) + '\n', max(per_line_timeout, min(timeout, per_line_timeout * 4 + len(chunk) * 0.01)), fenv)
        got = out.split('\n')
        if got and got[-1] == '':
            got.pop()
        if rc == 0 and len(got) == len(chunk):
            res += got
            break
        good = min(len(got), len(chunk))
        # with per-line flushing every complete answer precedes the culprit
        if rc == 'timeout':
            # the last (possibly partial) line may belong to the hanging request
            if good == len(chunk):
                res += got
                break
            res += got[:good]
            res.append('HANG')
            nbad += 1
        else:
            if good == len(chunk):
                res += got
                break
            res += got[:good]
            res.append('ABORT')
            nbad += 1
        i += good + 1
    return res


def run_parallel(binpath, lines, nproc=None, timeout=900, env=None):
    """Split lines over processes."""
    from concurrent.futures import ThreadPoolExecutor
    nproc = nproc or min(NCPU, max(1, len(lines) // 2000))
    if nproc <= 1:
        return run_lines(binpath, lines, timeout, env=env)
    size = (len(lines) + nproc - 1) // nproc
    chunks = [lines[i:i + size] for i in range(0, len(lines), size)]
    with ThreadPoolExecutor(max_workers=nproc) as ex:
        parts = list(ex.map(lambda c: run_lines(binpath, c, timeout, env=env), chunks))
    out = []
    for p in parts:
        out += p
    return out


# ---------------------------------------------------------------------------------------------
# comparison
# ---------------------------------------------------------------------------------------------

class Finding:
    """kind: 'violation' (implementation differs from the reference: concrete failing input),
             'fidelity' (implementation differs from the L3 model but not from the reference),
             'modelbug' (L3 model differs from reference while implementation agrees with reference: impossible
                         unless the model is wrong -> reported as fidelity)"""
    def __init__(self, kind, line, idx, h, m3, m1, sig):
        self.kind, self.line, self.idx, self.h, self.m3, self.m1, self.sig = kind, line, idx, h, m3, m1, sig

    def __repr__(self):
        return '%s at op %d: impl=%s model=%s ref=%s :: %s' % (self.kind, self.idx, self.h, self.m3, self.m1, self.line[:300])


def op_list(line):
    body = line.split(' :: ', 1)[1] if ' :: ' in line else ''
    return [o.strip() for o in body.split(';') if o.strip()]


def cfg_sig(line):
    hd = line.split(' :: ', 1)[0]
    return ' '.join(t for t in hd.split() if not t.startswith('data='))


def compare_session(line, h_ans, m_ans, debug_build=False, ignore_ops=()):
    """Compare one S answer. Returns (findings, n_ops_compared, outcome_classes)."""
    if ' || ' in m_ans:
        m3s, m1s = m_ans.split(' || ', 1)
    else:
        m3s, m1s = m_ans, m_ans
    H = h_ans.split(';') if h_ans != '' else []
    M3 = m3s.split(';') if m3s != '' else []
    M1 = m1s.split(';') if m1s != '' else []
    ops = op_list(line)
    findings = []
    n = 0
    classes = set()
    if H in (['HANG'], ['ABORT']) and 'D' in M3 and not debug_build:
        # the whole request was lost (no per-operation answers) and the model of the code says the
        # scenario reaches a point whose optimised-build behaviour is unspecified (e.g. a read of an
        # astronomically long field decoded from arbitrary bits): nothing to compare
        return findings, 0, classes
    L = max(len(H), len(M3), len(M1))
    live3 = True   # still comparing against the L3 model
    live1 = True   # still comparing against the reference
    peeked = 0     # bits delivered by the most recent peek and not yet skipped
    for i in range(L):
        h = H[i] if i < len(H) else '<none>'
        m3 = M3[i] if i < len(M3) else '<none>'
        m1 = M1[i] if i < len(M1) else '<none>'
        opk = ops[i].split()[0] if i < len(ops) else '?'
        # `skip_bits_after_peek(n)` is only defined right after a `peek_bits` that delivered at least n
        # bits (the trait documents it as an internal optimisation of the table decoders): a scenario
        # that uses it otherwise (the shrinker can produce one by deleting the peek) is not compared
        # from there on
        if opk == 'rsp':
            try:
                k = int(ops[i].split()[1])
            except (IndexError, ValueError):
                k = 0
            if k > peeked:
                break
            peeked -= k
        elif opk == 'rp':
            try:
                peeked = int(ops[i].split()[1]) if (h.isdigit() or h.startswith('x')) else 0
            except (IndexError, ValueError):
                peeked = 0
        elif opk not in ('pos', 'stat', 'wb', 'wu', 'wf', 'wc', 'wio', 'wd'):
            peeked = 0
        if opk in ignore_ops:
            continue
        if not live3 and not live1:
            break
        n += 1
        classes.add((opk, 'E' if h.startswith('E:') else h if h in ('P', 'ok', 'loop', 'HANG', 'ABORT') else 'v'))
        def unspecified(m):
            # debug-only panic: an optimised build's behaviour is unspecified there
            return m == 'D' and not debug_build
        def eq(h, m):
            if m == 'D':
                return h == 'P'
            return h == m
        if live3 and unspecified(m3):
            # the model of the code says this is a debug-only panic point (e.g. a table look-ahead
            # wider than the reader guarantees, which the library documents as "unpredictable"):
            # an optimised build is not compared with anything from here on
            live3 = False
            live1 = False
        if live1 and unspecified(m1):
            live1 = False
        if live1 and m1 in ('-', '- -') and h == m1:      # no counters on this machine
            pass
        elif live1 and opk == 'rs' and m1 == 'E:eof' and h == 'ok':
            # skipping past the end of a strict stream needs no bit value: the buffered reader
            # reports the end, the unbuffered one just moves its index; both are accepted and the
            # reference stops being compared for the rest of this scenario
            live1 = False
        elif live1 and not eq(h, m1):
            findings.append(Finding('violation', line, i, h, m3, m1, '%s|%s|impl=%s ref=%s' % (cfg_sig(line), opk, cls(h), cls(m1))))
            break
        if live3 and not eq(h, m3):
            findings.append(Finding('fidelity', line, i, h, m3, m1, '%s|%s|impl=%s model=%s' % (cfg_sig(line), opk, cls(h), cls(m3))))
            live3 = False
        if h in ('P', 'HANG', 'ABORT', 'loop', 'bad-op', 'bad-config') or h.startswith('E:'):
            break
    return findings, n, classes


def cls(x):
    if x.startswith('E:') or x in ('P', 'D', 'ok', 'loop', 'HANG', 'ABORT', '<none>', 'bad-op'):
        return x
    return 'value'


def compare_plain(line, h_ans, m_ans):
    """Non-session families: `<model> || <reference>` or a single answer."""
    if ' || ' in m_ans:
        m3, m1 = m_ans.split(' || ', 1)
    else:
        m3 = m1 = m_ans
    fam = line.split()[0]
    f = []
    if m1 not in ('D', '-') and h_ans != m1 and not (m1 == 'D!' and h_ans == 'P'):
        f.append(Finding('violation', line, 0, h_ans[:200], m3[:200], m1[:200], '%s|impl!=ref' % ' '.join(line.split()[:3])))
    elif m3 != 'D' and h_ans != m3:
        f.append(Finding('fidelity', line, 0, h_ans[:200], m3[:200], m1[:200], '%s|impl!=model' % ' '.join(line.split()[:3])))
    return f


# ---------------------------------------------------------------------------------------------
# shrinking (delta debugging over the op list of a session line)
# ---------------------------------------------------------------------------------------------

def shrink_session(line, still_fails, max_rounds=200, budget_s=150):
    hd = line.split(' :: ', 1)[0]
    ops = op_list(line)
    rounds = 0
    n = 2
    t_end = time.time() + budget_s
    while len(ops) >= 2 and rounds < max_rounds and time.time() < t_end:
        size = max(1, len(ops) // n)
        reduced = False
        for i in range(0, len(ops), size):
            cand = ops[:i] + ops[i + size:]
            if not cand:
                continue
            rounds += 1
            if still_fails(hd + ' :: ' + ' ; '.join(cand)):
                ops = cand
                n = max(n - 1, 2)
                reduced = True
                break
        if not reduced:
            if size == 1:
                break
            n = min(n * 2, len(ops))
    return hd + ' :: ' + ' ; '.join(ops)


# ---------------------------------------------------------------------------------------------
# known findings
# ---------------------------------------------------------------------------------------------

def load_known(prop):
    known = []
    p = os.path.join(ROOT, 'known_findings.txt')
    if os.path.exists(p):
        for l in open(p):
            l = l.strip()
            m = re.match(r'known:\s+property=(\S+)\s+sig=/(.*)/\s+(.*)$', l)
            if m and m.group(1) == prop:
                known.append((re.compile(m.group(2)), m.group(3)))
    return known


# ---------------------------------------------------------------------------------------------
# proofs: build the property module and audit the axioms of its theorems
# ---------------------------------------------------------------------------------------------

def props_manifest():
    with open(os.path.join(LEAN, 'props.json')) as f:
        return json.load(f)


def audit(prop):
    """Build Dsi.Props.<prop> and print the axioms of every listed theorem.
    Returns dict(obligations=[names], discharged=[names], failed=[(name, why)], build_ok, log)."""
    man = props_manifest().get(prop, {})
    thms = man.get('theorems', [])
    mods = man.get('modules', ['Dsi.Props.' + prop])
    res = dict(obligations=thms, discharged=[], failed=[], build_ok=False, log='', modules=mods, axioms={})
    if not thms:
        res['build_ok'] = True
        return res
    ok, out = lake_build(mods)
    res['log'] = out[-6000:]
    if not ok:
        # name the declarations that no longer check: every "file:line:col: error" is attributed
        # to the nearest preceding theorem/def/example in that file
        culprits = []
        for m in re.finditer(r'error: (\S+\.lean):(\d+):\d+: (.*)', out):
            f, ln, msg = m.group(1), int(m.group(2)), m.group(3)
            path = f if os.path.isabs(f) else os.path.join(LEAN, f)
            name = '?'
            try:
                src_lines = open(path, encoding='utf-8').read().split('\n')
                for i in range(min(ln, len(src_lines)) - 1, -1, -1):
                    mm = re.match(r'\s*(?:@\[[^\]]*\]\s*)?(?:private\s+|protected\s+)?(theorem|lemma|def|example|instance|abbrev)\s+([^\s:({\[]+)?', src_lines[i])
                    if mm:
                        name = (mm.group(2) or mm.group(1))
                        break
            except OSError:
                pass
            culprits.append('%s (%s:%d: %s)' % (name, os.path.basename(f), ln, msg[:120]))
        res['culprits'] = culprits[:20]
        why = 'module does not build' + ('; failing declarations: ' + '; '.join(culprits[:6]) if culprits else '')
        res['failed'] = [(t, why) for t in thms]
        return res
    res['build_ok'] = True
    os.makedirs(WORK, exist_ok=True)
    af = os.path.join(WORK, 'Audit_%s_%d.lean' % (prop, os.getpid()))
    with open(af, 'w') as f:
        for m in mods:
            f.write('import %s\n' % m)
        for t in thms:
            f.write('#print axioms %s\n' % t)
    rc, out = sh(['lake', 'env', 'lean', af], cwd=LEAN, timeout=900)
    try:
        os.remove(af)
    except OSError:
        pass
    # parse: "'name' depends on axioms: [a, b]" / "'name' does not depend on any axioms"
    # (names may themselves end in apostrophes; long axiom lists wrap over lines)
    txt = re.sub(r'\n\s+', ' ', out)
    seen = {}
    for line in txt.splitlines():
        m = re.match(r"^'(.+)' depends on axioms: \[([^\]]*)\]\s*$", line.strip())
        if m:
            seen[m.group(1)] = [a.strip() for a in m.group(2).split(',') if a.strip()]
            continue
        m = re.match(r"^'(.+)' does not depend on any axioms\s*$", line.strip())
        if m:
            seen[m.group(1)] = []
    for t in thms:
        short = t
        cands = [k for k in seen if k == t or k.endswith('.' + t) or t.endswith('.' + k)]
        if not cands:
            res['failed'].append((t, 'not found: ' + out[-300:]))
            continue
        ax = seen[cands[0]]
        res['axioms'][t] = ax
        bad = [a for a in ax if a not in ALLOWED_AXIOMS]
        if bad:
            res['failed'].append((t, 'axioms ' + ','.join(bad)))
        else:
            res['discharged'].append(t)
    return res


def grep_gate():
    """No sorry/admit/axiom/native_decide/bv_decide/implemented_by/unsafe in the Lean sources."""
    bad = []
    pat = re.compile(r'\b(sorry|admit|native_decide|bv_decide|implemented_by)\b|^\s*axiom\s|^\s*unsafe\s|maxHeartbeats\s+0')
    for dp, dn, fn in os.walk(os.path.join(LEAN, 'Dsi')):
        for f in fn:
            if not f.endswith('.lean'):
                continue
            in_block = False
            for i, l in enumerate(open(os.path.join(dp, f), encoding='utf-8')):
                s = l
                # strip comments (line and simple block)
                if in_block:
                    if '-/' in s:
                        s = s.split('-/', 1)[1]
                        in_block = False
                    else:
                        continue
                while '/-' in s:
                    a, b = s.split('/-', 1)
                    if '-/' in b:
                        s = a + b.split('-/', 1)[1]
                    else:
                        s = a
                        in_block = True
                s = s.split('--', 1)[0]
                if pat.search(s):
                    bad.append('%s:%d: %s' % (os.path.relpath(os.path.join(dp, f), LEAN), i + 1, l.strip()[:100]))
    return bad


# ---------------------------------------------------------------------------------------------
# evidence
# ---------------------------------------------------------------------------------------------

def write_evidence(prop, tier, seed, coverage, wall, violations, assumptions):
    # runs against a scratch copy of the repository (seeded changes, DSI_REPO) must not overwrite
    # the evidence of the real tree
    evdir = os.path.join(ROOT, 'work', 'evidence-scratch') if os.environ.get('DSI_REPO') else os.path.join(ROOT, 'evidence')
    os.makedirs(evdir, exist_ok=True)
    level = 'proof' if coverage.get('discharged', 0) >= 1 and coverage.get('discharged') == coverage.get('obligations') else 'exploration'
    ev = dict(property_id=prop, tier=tier, seed=seed, level=level, coverage=coverage, assumptions=assumptions,
              wall_s=round(wall, 2), violations=violations)
    with open(os.path.join(evdir, prop + '.json'), 'w') as f:
        json.dump(ev, f, indent=1)


# ---------------------------------------------------------------------------------------------
# GH: generated-vs-hand witness search (lean/GH.lean `ghdriver`, tools/gen_gh.py, tools/gh_targets.json)
# ---------------------------------------------------------------------------------------------

GHDRIVER = os.path.join(LEAN, '.lake', 'build', 'bin', 'ghdriver')


def build_ghdriver():
    """Build the witness-search executable against the regenerated Dsi/Gen files. It does not build
    when a translator failed closed (stubbed / stale-incompatible definitions): no search then."""
    try:
        ok, out = lake_build(['ghdriver'], timeout=1800)
    except Exception as ex:
        log('ghdriver: %r' % ex)
        return False
    if not ok:
        log('ghdriver does not build:\n' + out[-1500:])
    return ok


def gh_run(lines, t_end, chunk=4000):
    """Answers of ghdriver, one per line. A request that kills the process (a shift by an
    astronomically large amount in a changed body, …) or hangs is answered ABORT / HANG and the rest of
    its chunk is run again without it; requests not reached within the budget are answered NOTRUN."""
    from concurrent.futures import ThreadPoolExecutor

    def one(part):
        res = []
        i = 0
        while i < len(part):
            left = t_end - time.time()
            if left <= 1:
                res += ['NOTRUN'] * (len(part) - i)
                break
            rc, out, err = _run_proc(GHDRIVER, '\n'.join(part[i:]) + '\n', min(left, 20 + 0.01 * (len(part) - i)))
            got = out.split('\n')
            if got and got[-1] == '':
                got.pop()
            got = got[:len(part) - i]
            res += got
            i += len(got)
            if i < len(part) and (rc != 0):
                res.append('HANG' if rc == 'timeout' else 'ABORT')
                i += 1
            elif i < len(part):
                res += ['NOTRUN'] * (len(part) - i)
                break
        return res
    parts = [lines[i:i + chunk] for i in range(0, len(lines), chunk)]
    if not parts:
        return []
    with ThreadPoolExecutor(max_workers=min(NCPU, 8, len(parts))) as ex:
        outs = list(ex.map(one, parts))
    return [a for o in outs for a in o]


def gh_is_witness(ans):
    if ' || ' not in ans:
        return None
    g, h = ans.split(' || ', 1)
    return (g, h) if g != h else None


def gh_shrink(wit, t_end, rounds=60, confirm=None):
    """Greedy shrinking: one number made smaller (towards 0/1, powers of two) or one list element
    dropped per step, as long as the two sides still differ (and the witness stays replayable; and,
    when `confirm` is given and holds of the witness, as long as it keeps holding: the caller passes
    "replays as an implementation-level violation")."""
    import gen_gh
    target, line, g, h = wit
    need_req = gen_gh.gh_to_request(wit) is not None
    if confirm is not None and not (need_req and confirm(wit)):
        confirm = None
    nconf = 0
    for _ in range(rounds):
        if time.time() > t_end:
            break
        cands = []
        for c in gen_gh.shrink_candidates(line):
            if c not in cands and c != line:
                cands.append(c)
        cands = cands[:600]
        if not cands:
            break
        ans = gh_run(cands, t_end)
        nxt = None
        for c, a in zip(cands, ans):
            w = gh_is_witness(a)
            if w and (not need_req or gen_gh.gh_to_request((target, c, w[0], w[1])) is not None):
                if confirm is not None:
                    nconf += 1
                    if nconf > 80 or time.time() > t_end:
                        break
                    if not confirm((target, c, w[0], w[1])):
                        continue
                nxt = (target, c, w[0], w[1])
                break
        if nxt is None:
            break
        target, line, g, h = nxt
    return (target, line, g, h)


def gh_search(theorem_names, seed, budget_s=150, hints=(), per_target=3, confirm=None):
    """Search for inputs on which a regenerated definition (what the Rust source now says) and the
    hand model (what the property theorems are about) differ, for the GH targets of the given (failed)
    theorems.  Returns None when `ghdriver` does not build, else a list of witnesses
    `(target, request line, generated answer, hand answer)`, shrunk, at most `per_target` per target.
    `hints`: names of the declarations that failed to check (their targets are searched first).
    `confirm(witness) -> bool`: a stronger property to prefer and to preserve while shrinking (the
    hook passes "the replay on the implementation is a violation")."""
    import gen_gh
    t0 = time.time()
    if not build_ghdriver():
        return None
    t_end = time.time() + budget_s
    tab = json.load(open(os.path.join(ROOT, 'tools', 'gh_targets.json')))
    names = set(theorem_names)
    hinted, rest = [], []
    hint_words = set()
    for h in hints:
        hint_words.add(h.split(' ')[0].split('.')[-1])
    for full, v in tab['theorems'].items():
        if full not in names:
            continue
        dst = hinted if full.rsplit('.', 1)[-1] in hint_words else rest
        for t in v['targets']:
            if t not in dst:
                dst.append(t)
    targets = hinted + [t for t in rest if t not in hinted]
    if not targets:
        return []
    found = {}
    for rnd, n in enumerate((300, 1500, 6000)):
        if time.time() > t_end - 5:
            break
        lines = gen_gh.gen_lines(targets, seed + 1000 * rnd, n)
        ans = gh_run(lines, t_end - 5 if rnd else t_end - budget_s * 0.4)
        for l, a in zip(lines, ans):
            w = gh_is_witness(a)
            if w:
                found.setdefault(l.split(' ')[1], []).append((l.split(' ')[1], l, w[0], w[1]))
        log('gh: round %d: %d requests over %d targets, witnesses on %d targets (%.1fs)' % (
            rnd, len(lines), len(targets), len(found), time.time() - t0))
        if found:
            break
    out = []
    order = [t for t in targets if t in found]
    share = max(3.0, (t_end - time.time()) / max(1, len(order) * per_target))
    for t in order:
        ws = found[t]
        # replayable ones first, then short ones
        ws.sort(key=lambda w: (gen_gh.gh_to_request(w) is None, len(w[1])))
        if confirm is not None:
            # confirmed ones first (a bounded number of probes)
            cand = [w for w in ws if gen_gh.gh_to_request(w) is not None]
            head = cand[:10] + random.Random(seed).sample(cand[10:], min(25, max(0, len(cand) - 10)))
            ok = []
            for w in head:
                if time.time() > t_end - 10 or len(ok) >= per_target:
                    break
                if confirm(w):
                    ok.append(w)
            ws = ok + [w for w in ws if w not in ok]
        kept = []
        for w in ws:
            if len(kept) >= per_target:
                break
            w2 = gh_shrink(w, min(t_end, time.time() + share), confirm=confirm)
            if all(w2[1] != k[1] for k in kept):
                kept.append(w2)
        out += kept
    return out


def gh_replay(witnesses, main_bin, compare, ignore=None):
    """Replay witnesses on the implementation through the ordinary correspondence comparison.
    `compare(line, h, m)` returns the findings of one request.  Returns (violations, model_level):
    `violations` are Findings of kind 'violation' (the implementation really departs from the
    reference on that request); `model_level` lists `(witness, request or None, note)` for the rest."""
    import gen_gh
    viol, model = [], []
    for w in witnesses:
        req = None
        try:
            req = gen_gh.gh_to_request(w)
        except Exception as ex:
            log('gh_to_request: %r' % ex)
        if not req or not main_bin:
            model.append((w, None, 'not replayable: no request family expresses this input (scripted back end, unreachable state, '
                             'a feature the default build lacks, or an input needing gigabytes on the implementation / the reference)'))
            continue
        h = run_lines(main_bin, [req], 30)
        m = run_lines(DRIVER, [req], 60)
        if not h or not m or m[0] in ('HANG', 'ABORT', 'bad-request'):
            model.append((w, req, 'the reference could not evaluate the replay request'))
            continue
        fs = compare(req, h[0], m[0])
        v = [f for f in fs if f.kind == 'violation']
        if not v and req.startswith('LEN1 ') and ' || ' in m[0]:
            # the published codeword is too long to materialise (reference `-`), so the request only
            # compares the implementation with the hand-written length; that one equals the published
            # length by the C06 theorems (`Dsi.rice_len`, …), and the implementation returns what the
            # regenerated definition returns: a real difference from the published length
            m3, m1 = m[0].split(' || ', 1)
            if m1 == '-' and m3.isdigit() and int(m3) > (1 << 20) and h[0] != m3 and h[0] == w[2] and m3 == w[3]:
                v = [Finding('violation', req, 0, h[0], m3, m3 + ' (hand-written length = published length by theorem; codeword too long to materialise)',
                             '%s|impl!=ref' % ' '.join(req.split()[:3]))]
        if v:
            for f in v:
                f.gh = w
            viol += v
        else:
            model.append((w, req, 'replayed as `%s`: implementation %s, model/reference %s: no difference at the implementation level' % (
                req[:200], h[0][:80], m[0][:120])))
    return viol, model
