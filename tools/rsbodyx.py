#!/usr/bin/env python3
"""Extensions of tools/rsbody.py used by translate_copy.py, translate_mem.py and translate_io.py
(the base parser and engine are left as they are, so the output of the older translators cannot
change): `XParser` understands, besides what `rsbody.Parser` does,

  expressions  *e, &e, &mut e                 -> ('deref', e) / ('ref', e)
               e[i], e[a..], e[..b], e[a..b]  -> ('index', e, i) / ('slice', e, a|None, b|None)
               |x, ..| e                      -> ('closure', [names], e)
               name!( .. ) in expression position -> ('macro', name)   (opaque: only accepted where
                                                  the translator ignores the value, e.g. the text of
                                                  an error message)
  statements   #[allow(..)] <statement>       -> the statement
               #[cfg(feature = "checks")] { .. } -> ('if', ('checksflag',), block, None, hdr)
               for x in e { .. }              -> ('forin', x, e, body, hdr)
               match e { P => b, .. }         -> ('match', e, [(pattern, [stmts])], hdr); patterns are
                                                  `Some(x)`, `None`, `Ok(x)`, `Err(x)`, `_`
Everything else is refused (TranslateError) exactly as by the base parser.
"""
import os, sys
sys.path.insert(0, os.path.dirname(os.path.abspath(__file__)))
from rstok import match_close
import rsbody
from rsbody import err, Parser, src_text


class XParser(Parser):
    # ---- expressions
    def unary(self):
        k, x = self.peek()
        if k == 'p' and x == '*':
            self.i += 1
            return ('deref', self.unary())
        if k == 'p' and x == '&':
            self.i += 1
            if self.at('mut'):
                self.i += 1
            return ('ref', self.unary())
        return Parser.unary(self)

    def primary(self):
        k, x = self.peek()
        if k == 'p' and x in ('|', '||'):
            # closure: |a, b| body
            self.i += 1
            names = []
            if x == '|':
                while not self.at('|'):
                    names.append(self.ident())
                    if self.at(','):
                        self.i += 1
                self.eat('|')
            if self.at('{'):
                blk = self.block()
                if len(blk) != 1 or blk[0][0] != 'tail':
                    err('%s: a closure body must be a single expression' % self.what)
                body = blk[0][1]
            else:
                body = self.expr()
            return ('closure', names, body)
        if k == 'id' and self.at('!', 1) and self.peek(2) == ('p', '(') and x not in (
                'assert', 'debug_assert', 'debug_assert_ne', 'debug_assert_eq', 'assert_eq', 'assert_ne'):
            self.i += 2
            close = match_close(self.t, self.i)
            self.i = close + 1
            return ('macro', x)
        return Parser.primary(self)

    def postfix(self, e):
        while True:
            if self.at('.') and self.peek()[0] == 'p':
                self.i += 1
                name = self.ident()
                if self.at('::'):
                    err('%s: turbofish on a method call is not supported' % self.what)
                if self.at('(') and self.peek()[0] == 'p':
                    e = ('mcall', e, name, self.args())
                else:
                    e = ('fld', e, name)
                continue
            if self.at('?') and self.peek()[0] == 'p':
                self.i += 1
                e = ('try', e)
                continue
            if self.at('[') and self.peek()[0] == 'p':
                self.i += 1
                lo = hi = None
                if self.peek() == ('p', '..'):
                    self.i += 1
                    if not self.at(']'):
                        hi = self.expr()
                    e = ('slice', e, None, hi)
                else:
                    lo = self.expr()
                    if self.peek() == ('p', '..'):
                        self.i += 1
                        if not self.at(']'):
                            hi = self.expr()
                        e = ('slice', e, lo, hi)
                    else:
                        e = ('index', e, lo)
                self.eat(']')
                continue
            return e

    # ---- statements
    def pattern(self):
        k, x = self.peek()
        if k == 'id' and x in ('Some', 'Ok', 'Err') and self.at('(', 1):
            self.i += 2
            v = self.ident()
            self.eat(')')
            return (x, v)
        if k == 'id' and x in ('None', '_'):
            self.i += 1
            return (x, None)
        err('%s: unsupported pattern near `%s`' % (self.what, src_text(self.t[self.i:self.i + 4])))

    def stmt(self):
        a = self.i
        k, x = self.peek()
        if k == 'p' and x == '#' and self.at('[', 1):
            close = match_close(self.t, self.i + 1)
            atxt = [t[1] for t in self.t[self.i + 2:close]]
            if atxt[:2] == ['allow', '(']:
                self.i = close + 1
                return self.stmt()
            if (atxt == ['cfg', '(', 'feature', '=', 'checks', ')'] and self.t[self.i + 6][0] == 'str'
                    and self.t[close + 1] == ('p', '{')):
                self.i = close + 1
                hdr = src_text(self.t[a:self.i]) + ' {'
                body = self.block()
                return ('if', ('checksflag',), body, None, hdr)
            return Parser.stmt(self)
        if k == 'id' and x == 'for' and self.peek(1)[0] == 'id' and self.peek(1)[1] != '_':
            self.i += 1
            var = self.ident()
            self.eat('in')
            it = self.expr()
            hdr = src_text(self.t[a:self.i]) + ' {'
            body = self.block()
            return ('forin', var, it, body, hdr)
        if k == 'id' and x == 'match':
            self.i += 1
            scrut = self.expr()
            hdr = src_text(self.t[a:self.i]) + ' {'
            self.eat('{')
            arms = []
            while not self.at('}'):
                b = self.i
                pat = self.pattern()
                self.eat('=>')
                ahdr = src_text(self.t[b:self.i])
                if self.at('{'):
                    body = self.block()
                    if self.at(','):
                        self.i += 1
                else:
                    c = self.i
                    e = self.expr()
                    body = [('tail', e, src_text(self.t[c:self.i]))]
                    if self.at(','):
                        self.i += 1
                    elif not self.at('}'):
                        err('%s: expected `,` after a match arm' % self.what)
                arms.append((pat, body, ahdr))
            self.eat('}')
            if self.at(';'):
                self.i += 1
            return ('match', scrut, arms, hdr)
        return Parser.stmt(self)
