#!/usr/bin/env python3
"""Translator for the bulk-copy METHOD BODIES -> lean/Dsi/Gen/CopyBodies.lean:

  * `BufBitReader::copy_to` (src/impls/buf_bit_reader.rs, BE and LE; compiled unless the feature
    `no_copy_impls` is on)
        Dsi.Gen.BufR.copy_to_{be,le} {ω} (checks : Bool) (wi : WImpl ω) (s : BufR W) (w : ω)
                                     (n : BitVec 64) : Res (BufR W × ω)
    generic in the destination writer exactly as the Rust is generic in `W: BitWrite<F>`: the writer
    is a state `w : ω` known only through its interface `wi : WImpl ω` (as in the hand model
    `BufR.copyTo`, lean/Dsi/Impl/Copy.lean);
  * the DEFAULT methods `BitRead::copy_to` / `BitWrite::copy_from` of src/traits/bits.rs
        Dsi.Gen.Traits.copy_{to,from}_default {ρ ω} (ri : RImpl ρ) (wi : WImpl ω) (r : ρ) (w : ω)
                                              (n : BitVec 64) : Res (ρ × ω)

lean/Dsi/Props/CopyGen.lean proves them EQUAL to `BufR.copyTo` / `copyGeneric`.

The statement/expression engine is tools/rsbody.py with the reader hooks of tools/translate_bufr.py
(types, constants, conversions, `self.backend.read_word()`); the parser is tools/rsbodyx.py
(`#[allow(..)]` on a statement, `#[cfg(feature = "checks")] { .. }` -> `if checks then ..`).
Specific to the copy bodies:

  self.read_bits(k).map_err(CopyError::ReadError)?          -> the translated `read_bits_XX s k`
                                                              (Gen/BufReaderBodies.lean); in the default
                                                              methods `ri.readBits r k`, a u64
  self.backend.read_word().map_err(CopyError::ReadError)?.to_be()/.to_le()  -> MemR.readWord
  <writer>.write_bits(v, k).map_err(CopyError::WriteError)?; -> wi.writeBits w v.toNat k
  Ord::min(a, b) / core::cmp::min(a, b)                     -> if a ≤ b then a else b   (u64)
  loop fuels: `while x > e { .. }` on a u64 `x` gets the value of `x` at loop entry (these are the hand
  model's: `from_buffer` for the buffered loop, `n` for the word loop); `n / 64 + 2` for the default methods.
"""
import os, sys
sys.path.insert(0, os.path.dirname(os.path.abspath(__file__)))
from rstok import tokenize
import rsbody
from rsbody import err, find_fn, FnBase, lname, lean_ty, unparen
from rsbodyx import XParser
import translate_bufr

REL_R = 'src/impls/buf_bit_reader.rs'
REL_T = 'src/traits/bits.rs'
OUT = 'CopyBodies.lean'
EXTRA_RESERVED = {'w', 'wi', 'ww', 'rb', 'checks', 'ri', 'r', 'rr'}
OK_CFG = ('cfg ( not ( feature = no_copy_impls ) )',)


def unwrap(e, tag):
    """X for `X.map_err(CopyError::<tag>)?`, else None"""
    if (e[0] == 'try' and e[1][0] == 'mcall' and e[1][2] == 'map_err'
            and e[1][3] == [('path', ['CopyError', tag])]):
        return e[1][1]
    return None


class CopyVocab:
    """what the specialised and the default bodies share: the min, the writer call, the `checks` flag"""
    writer = None          # the Rust expression the bits are written to: ('var', name)

    def min_call(self, segs, args, env):
        if segs in (['Ord', 'min'], ['core', 'cmp', 'min'], ['std', 'cmp', 'min']) and len(args) == 2:
            a, ta = self.ex(args[0], env)
            b, tb = self.ex(args[1], env, ta if ta in rsbody.BV or ta in rsbody.NATS else None)
            t = self.unify(ta, tb, 'min')
            if t != 'U64':
                err('%s: min on %s' % (self.what, t))
            return '(if %s ≤ %s then %s else %s)' % (a, b, a, b), t
        return None

    def writer_write(self, e):
        """[v, k] for `<writer>.write_bits(v, k).map_err(CopyError::WriteError)?`, else None"""
        x = unwrap(e, 'WriteError')
        if x is not None and x[0] == 'mcall' and x[1] == self.writer and x[2] == 'write_bits' and len(x[3]) == 2:
            return x[3]
        return None

    def write_stmt(self, st, env, ind):
        L = self.lines
        wb = self.writer_write(st[1])
        if wb is None:
            return False
        L.append('%s-- %s' % (ind, st[2]))
        a0 = self.effects(wb[0], env, ind)
        a1 = self.effects(wb[1], env, ind)
        v = self.typed(a0, env, 'U64', 'the written value')
        k = self.typed(a1, env, 'USZ', 'the number of bits written')
        L.append('%sRes.bind (wi.writeBits w %s.toNat %s) fun ww =>' % (ind, v, k))
        L.append('%slet w := ww.2' % ind)
        return True

    def ex_checks(self, e):
        if e[0] == 'checksflag':
            return 'checks = true', 'BOOL'
        return None


class CopyToFn(CopyVocab, translate_bufr.Fn):
    STATES = ('s', 'w')

    def __init__(self, what, endian, selfname, params, writer, assoc):
        translate_bufr.Fn.__init__(self, what, endian, selfname, params, 'UNIT', [], assoc)
        self.writer = ('var', writer)
        self.loop_var = None

    def ex(self, e, env, want=None):
        r = self.ex_checks(e)
        if r is not None:
            return r
        return translate_bufr.Fn.ex(self, e, env, want)

    def call(self, segs, args, env, want):
        r = self.min_call(segs, args, env)
        if r is not None:
            return r
        return translate_bufr.Fn.call(self, segs, args, env, want)

    def backend_read(self, e):
        x = unwrap(e, 'ReadError')
        return (x is not None and translate_bufr.is_backend_call(x, self.selfname, 'read_word', self.RUST_BACK)
                and not x[3])

    def self_read_bits(self, e):
        x = unwrap(e, 'ReadError')
        if x is not None and x[0] == 'mcall' and x[1] == ('var', self.selfname) and x[2] == 'read_bits' and len(x[3]) == 1:
            return x[3][0]
        return None

    def effects(self, e, env, ind, discard=False):
        L = self.lines
        found = []

        def once():
            found.append(1)
            if len(found) > 1:
                err('%s: two reads in one statement' % self.what)

        def walk(x):
            if not isinstance(x, tuple) or x[0] in ('num', 'var', 'path', 'tmp', 'unit', 'checksflag'):
                return x
            if x[0] == 'mcall' and x[2] in ('to_be', 'to_le') and not x[3] and self.backend_read(x[1]):
                if x[2] != 'to_' + self.endian:
                    err('%s: .%s() in the %s implementation' % (self.what, x[2], self.endian.upper()))
                once()
                L.append('%sRes.bind s.%s.readWord fun rw =>' % (ind, self.LEAN_BACK))
                L.append('%slet s : %s := { s with %s := rw.2 }' % (ind, self.STATE, self.LEAN_BACK))
                return ('tmp', 'rw.1', self.WORD)
            if x[0] == 'try':
                if self.backend_read(x):
                    err('%s: self.backend.read_word()? without .to_%s()' % (self.what, self.endian))
                k = self.self_read_bits(x)
                if k is not None:
                    kk = unparen(self.typed(walk(k), env, 'USZ', 'the number of bits read'))
                    once()
                    L.append('%sRes.bind (read_bits_%s s %s) fun rb =>' % (ind, self.endian, kk if kk.isidentifier() else '(%s)' % kk))
                    L.append('%slet s : %s := rb.2' % (ind, self.STATE))
                    return ('tmp', 'rb.1', 'U64')
                if self.writer_write(x) is not None:
                    err('%s: write_bits(..)? inside an expression' % self.what)
                err('%s: unsupported `?` expression' % self.what)
            out = [x[0]]
            for c in x[1:]:
                if isinstance(c, tuple):
                    out.append(walk(c))
                elif isinstance(c, list) and x[0] in ('mcall', 'call') and c is x[-1]:
                    out.append([walk(y) for y in c])
                else:
                    out.append(c)
            return tuple(out)
        return walk(e)

    def touches(self, e):
        out = set()

        def walk(x):
            if not isinstance(x, tuple):
                return
            if x[0] == 'try':
                if self.backend_read(x) or self.self_read_bits(x) is not None:
                    out.add('s')
                elif self.writer_write(x) is not None:
                    out.add('w')
            for c in x[1:]:
                if isinstance(c, tuple):
                    walk(c)
                elif isinstance(c, list):
                    for y in c:
                        walk(y)
        walk(e)
        return out

    def expr_stmt(self, st, env, ind):
        return self.write_stmt(st, env, ind)

    def emit(self, stmts, i, env, ind, fall, can_return):
        if i < len(stmts) and stmts[i][0] == 'while':
            # `while x > e { .. }` counts the u64 `x` down: the fuel is its value at loop entry (the hand
            # model's: `from_buffer` for the buffered loop, `n` for the word loop)
            c = stmts[i][1]
            if not (c[0] == 'bin' and c[1] == '>' and c[2][0] == 'var' and env.get(c[2][1]) == 'U64'):
                err('%s: no fuel is known for `%s`' % (self.what, stmts[i][3]))
            self.loop_var = c[2][1]
        return translate_bufr.Fn.emit(self, stmts, i, env, ind, fall, can_return)

    def fuel(self, kind, env):
        if kind != 'while' or self.loop_var is None:
            err('%s: no fuel is configured for this `%s`' % (self.what, kind))
        v, self.loop_var = self.loop_var, None
        return '(%s.toNat)' % lname(v)


class DefaultFn(CopyVocab, FnBase):
    """the generic chunked loop of the trait default methods: reader `r : ρ` through `ri : RImpl ρ`,
    writer `w : ω` through `wi : WImpl ω`"""
    STATES = ('r', 'w')
    RET = 'UNIT'

    def __init__(self, what, selfname, params, reader, writer):
        FnBase.__init__(self, what, None, selfname, params)
        self.reader = ('var', reader)
        self.writer = ('var', writer)
        self.fuels = [('n.toNat / 64 + 2', 'n')]

    def is_self(self, e):
        return False             # the receiver is only used as the reader / the writer

    def ex(self, e, env, want=None):
        if e[0] == 'var' and e in (self.reader, self.writer):
            err('%s: bare use of a stream' % self.what)
        return FnBase.ex(self, e, env, want)

    def call(self, segs, args, env, want):
        return self.min_call(segs, args, env)

    def reader_read(self, e):
        x = unwrap(e, 'ReadError')
        if x is not None and x[0] == 'mcall' and x[1] == self.reader and x[2] == 'read_bits' and len(x[3]) == 1:
            return x[3][0]
        return None

    def effects(self, e, env, ind, discard=False):
        L = self.lines
        found = []

        def walk(x):
            if not isinstance(x, tuple) or x[0] in ('num', 'var', 'path', 'tmp', 'unit'):
                return x
            if x[0] == 'try':
                k = self.reader_read(x)
                if k is None:
                    err('%s: unsupported `?` expression' % self.what)
                found.append(1)
                if len(found) > 1:
                    err('%s: two reads in one statement' % self.what)
                kk = unparen(self.typed(walk(k), env, 'USZ', 'the number of bits read'))
                L.append('%sRes.bind (ri.readBits r %s) fun rr =>' % (ind, kk if kk.isidentifier() else '(%s)' % kk))
                L.append('%slet r := rr.2' % ind)
                return ('tmp', '(BitVec.ofNat 64 rr.1)', 'U64')
            out = [x[0]]
            for c in x[1:]:
                if isinstance(c, tuple):
                    out.append(walk(c))
                elif isinstance(c, list) and x[0] in ('mcall', 'call') and c is x[-1]:
                    out.append([walk(y) for y in c])
                else:
                    out.append(c)
            return tuple(out)
        return walk(e)

    def touches(self, e):
        out = set()

        def walk(x):
            if not isinstance(x, tuple):
                return
            if x[0] == 'try':
                if self.reader_read(x) is not None:
                    out.add('r')
                elif self.writer_write(x) is not None:
                    out.add('w')
            for c in x[1:]:
                if isinstance(c, tuple):
                    walk(c)
                elif isinstance(c, list):
                    for y in c:
                        walk(y)
        walk(e)
        return out

    def expr_stmt(self, st, env, ind):
        return self.write_stmt(st, env, ind)

    def fuel(self, kind, env):
        if kind != 'while' or not self.fuels:
            err('%s: no fuel is configured for this `%s`' % (self.what, kind))
        text, var = self.fuels.pop(0)
        if env.get(var) != 'U64':
            err('%s: the fuel variable `%s` is not a u64 in scope' % (self.what, var))
        return '(%s)' % text.replace(var, lname(var))


def check_sig(sig, what, other_ty, other_bound):
    """`fn f<F: Endianness, X: <other_bound><F>>(&mut self, <other>: &mut X, mut n: u64) -> Result<(), ..>`;
    returns the name of the other stream"""
    parts, ret = rsbody.split_params(sig, what)
    if (len(parts) != 3 or parts[0] != ['&', 'mut', 'self'] or parts[1][1:] != [':', '&', 'mut', other_ty]
            or parts[2][-4:] != ['mut', 'n', ':', 'u64'][-len(parts[2]):] or parts[2][-3:] != ['n', ':', 'u64']):
        err('%s: unexpected parameters' % what)
    gen = ' '.join(x for _, x in sig[2:sig.index(('p', '('))])
    if ('%s : %s < F >' % (other_ty, other_bound)) not in gen:
        err('%s: the other stream is not a generic `%s: %s<F>`' % (what, other_ty, other_bound))
    if ret[:5] != ['->', 'Result', '<', '(', ')']:
        err('%s: return type is not Result<(), _>' % what)
    return parts[1][0]


def translate_copy_to(toks, sig, o, c, what, endian, lean_name, assoc):
    writer = check_sig(sig, what, 'W', 'BitWrite')
    body = XParser(toks[o:c + 1], what).block()
    params = [('n', 'U64')]
    f = CopyToFn.run(lambda: CopyToFn(what, endian, 'self', params, writer, assoc), body, dict(params), None, True)
    head = ['/-- `%s` -/' % what,
            'def %s {ω : Type} (checks : Bool) (wi : WImpl ω) (s : BufR W) (w : ω) (n : BitVec 64) : Res (BufR W × ω) :=' % lean_name]
    return '\n'.join(head + f.lines) + '\n'


def translate_default(toks, sig, o, c, what, lean_name, other_ty, other_bound, self_is_reader):
    other = check_sig(sig, what, other_ty, other_bound)
    body = XParser(toks[o:c + 1], what).block()
    params = [('n', 'U64')]
    reader, writer = ('self', other) if self_is_reader else (other, 'self')
    f = DefaultFn.run(lambda: DefaultFn(what, 'self', params, reader, writer), body, dict(params), None, True)
    if f.fuels:
        err('%s: the configured loop fuel is unused (a loop disappeared)' % what)
    head = ['/-- `%s` -/' % what,
            'def %s {ρ ω : Type} (ri : RImpl ρ) (wi : WImpl ω) (r : ρ) (w : ω) (n : BitVec 64) : Res (ρ × ω) :=' % lean_name]
    return '\n'.join(head + f.lines) + '\n'


def find_trait(toks, name):
    """(open, close) of the body of `pub trait NAME<..> { }`"""
    found = []
    from rstok import match_close
    for i in range(len(toks) - 1):
        if toks[i] == ('id', 'trait') and toks[i + 1] == ('id', name):
            j = i
            while toks[j] != ('p', '{'):
                j += 1
            found.append((j, match_close(toks, j)))
    if len(found) != 1:
        err('expected exactly one `trait %s`, found %d' % (name, len(found)))
    return found[0]


def generate(src):
    old = rsbody.LEAN_RESERVED
    rsbody.LEAN_RESERVED = old | EXTRA_RESERVED
    try:
        rsbody.Ctx.rel = REL_R
        toks = tokenize(src(REL_R))
        bufr, traits = [], []
        for endian, E in (('be', 'BE'), ('le', 'LE')):
            impls = translate_bufr.find_impls(toks, E)
            (o, c), w = impls['BitRead']
            pw = rsbody.find_assoc_type(toks, o + 1, c, 'PeekWord', w)
            assoc = {'PeekWord': 'BB'} if pw == ['BB', '<', 'WR', '>'] else {}
            sig, bo, bc = find_fn(toks, o + 1, c, 'copy_to', w, ok_cfg=OK_CFG)
            bufr.append(translate_copy_to(toks, sig, bo, bc, '%s::copy_to' % w, endian, 'copy_to_' + endian, assoc))
        rsbody.Ctx.rel = REL_T
        toks = tokenize(src(REL_T))
        o, c = find_trait(toks, 'BitRead')
        sig, bo, bc = find_fn(toks, o + 1, c, 'copy_to', 'trait BitRead')
        traits.append(translate_default(toks, sig, bo, bc, 'trait BitRead::copy_to (default method)', 'copy_to_default',
                                        'W', 'BitWrite', True))
        o, c = find_trait(toks, 'BitWrite')
        sig, bo, bc = find_fn(toks, o + 1, c, 'copy_from', 'trait BitWrite')
        traits.append(translate_default(toks, sig, bo, bc, 'trait BitWrite::copy_from (default method)', 'copy_from_default',
                                        'R', 'BitRead', False))
        return bufr, traits
    finally:
        rsbody.LEAN_RESERVED = old


def render(HEADER, bufr, traits, failure=None):
    head = [HEADER.rstrip('\n'),
            '-- Source: %s (BufBitReader::copy_to) and %s (default copy_to / copy_from),' % (REL_R, REL_T),
            '-- method bodies translated statement by statement by tools/translate_copy.py.',
            'import Dsi.Prog',
            'import Dsi.Gen.BufReaderBodies',
            'import Dsi.Impl.GenPrelude',
            'set_option linter.unusedVariables false',
            '']
    if failure is not None:
        return '\n'.join(head + ['-- TRANSLATION FAILED: %s' % failure.replace('\n', ' '), ''])
    return '\n'.join(head + ['namespace Dsi.Gen.BufR', 'open Dsi', 'variable {W : Nat}', ''] + bufr +
                     ['end Dsi.Gen.BufR', '', 'namespace Dsi.Gen.Traits', 'open Dsi', ''] + traits +
                     ['end Dsi.Gen.Traits\n'])


def main(write_if_changed, HEADER, src, TranslateError):
    rsbody.Ctx.TE = TranslateError
    try:
        bufr, traits = generate(src)
    except TranslateError as ex:
        write_if_changed(OUT, render(HEADER, [], [], str(ex)))
        raise
    changed = write_if_changed(OUT, render(HEADER, bufr, traits))
    return ['CopyBodies'] if changed else []


if __name__ == '__main__':
    import translate
    rsbody.Ctx.TE = translate.TranslateError
    try:
        if '--print' in sys.argv:
            b, t = generate(translate.src)
            print('\n'.join(b + t))
        else:
            print(main(translate.write_if_changed, translate.HEADER, translate.src, translate.TranslateError))
    except translate.TranslateError as ex:
        print('translate: ERROR: %s' % ex)
        sys.exit(3)
