"""GH (generated-vs-hand witness search): boundary-heavy input generators for the targets of the
`ghdriver` executable (lean/GH.lean, lean/Dsi/GH/*.lean), and the mapping of a witness to a request
line of an existing correspondence family (`gh_to_request`), so that it can be replayed on the real
implementation.

A GH request is `GH <target> <args…>`; `SPECS[target]` lists the kinds of its arguments (one kind
may produce several tokens, e.g. a writer state).  Everything is drawn from one PRNG.
"""
import random, re

KS = [7, 8, 15, 16, 31, 32, 33, 62, 63, 64]
U64 = 1 << 64
BOUNDARY = sorted(set([0, 1, 2, 3] + [x for k in KS for x in ((1 << k) - 1, 1 << k, (1 << k) + 1)] + [U64 - 2, U64 - 1]))
WIDTHS = [8, 16, 32, 64, 128]


def hx(v):
    return 'x%x' % v


# ---------------------------------------------------------------------------------------------
# value pools
# ---------------------------------------------------------------------------------------------

def nat(rng, top=U64 + 2):
    """a natural number around the u64 / u32 / i64 boundaries"""
    r = rng.random()
    if r < 0.40:
        v = rng.choice(BOUNDARY)
    elif r < 0.55:
        v = (1 << rng.choice(KS)) + rng.randrange(0, 200)
    elif r < 0.65:
        v = (1 << rng.choice(KS)) - rng.randrange(1, 200)
    elif r < 0.72:
        v = (1 << rng.choice(KS)) * rng.randrange(1, 5) + rng.randrange(0, 3) * 64
    elif r < 0.87:
        v = rng.getrandbits(rng.randrange(0, 65))
    else:
        v = rng.randrange(0, 300)
    return max(0, min(v, top - 1))


def u64(rng):
    return nat(rng, U64)


def param(rng):
    """a code parameter: 0..64 mostly, a few beyond"""
    r = rng.random()
    if r < 0.75:
        return rng.randrange(0, 65)
    if r < 0.9:
        return rng.choice([31, 32, 33, 62, 63, 64, 65, 66, 127, 128, 129])
    return rng.randrange(65, 200)


def nbits(rng):
    r = rng.random()
    if r < 0.8:
        return rng.randrange(0, 66)
    return rng.choice([0, 1, 31, 32, 33, 63, 64, 65, 66, 127, 128, 129, 1 << 32, (1 << 32) + 5])


def big_n(rng):
    """a bit count for skips / copies / positions: small, or around 2^32, 2^61..2^64"""
    r = rng.random()
    if r < 0.5:
        return rng.randrange(0, 300)
    if r < 0.75:
        return (1 << rng.choice([31, 32, 33])) + rng.randrange(-70, 200)
    return min(U64 - 1, (1 << rng.choice([61, 62, 63, 64])) + rng.randrange(-200, 200))


def word(rng, W):
    r = rng.random()
    if r < 0.2:
        return 0
    if r < 0.3:
        return (1 << W) - 1
    if r < 0.45:
        return 1 << rng.randrange(0, W)
    return rng.getrandbits(W)


def words(rng, W, lo=0, hi=4):
    k = rng.randrange(lo, hi + 1)
    return [word(rng, W) for _ in range(k)]


def lst(vs):
    return ','.join(hx(v) if v > 9 else str(v) for v in vs) if vs else '-'


def width(rng):
    return rng.choice([8, 8, 16, 16, 32, 64, 64, 128])


def fill(rng, W, lo, hi):
    """a buffer fill state: every state for small W, boundary states for big W"""
    if W <= 16 or rng.random() < 0.3:
        return rng.randrange(lo, hi + 1)
    return min(hi, max(lo, rng.choice([lo, lo + 1, W // 2, W - 1, W, W + 1, hi - 1, hi])))


def hexbytes(rng, lo=0, hi=20):
    k = rng.randrange(lo, hi + 1)
    return ''.join('%02x' % (rng.choice([0, 0x80, 0xff, 0x7f, 1]) if rng.random() < 0.4 else rng.getrandbits(8)) for _ in range(k)) or '-'


# ---------------------------------------------------------------------------------------------
# argument kinds: each returns a list of tokens
# ---------------------------------------------------------------------------------------------

def k_bufW(rng, big_unary=False):
    W = width(rng)
    r = rng.random()
    sp = fill(rng, W, 1, W) if r < 0.93 else rng.choice([0, W + 1])
    buf = rng.getrandbits(W) if rng.random() < 0.7 else rng.getrandbits(max(0, W - sp))
    out = words(rng, W, 0, 2)
    if big_unary or rng.random() < 0.5:
        cap = str(len(out) + rng.randrange(0, 5))
    else:
        cap = '-'
    return [str(W), hx(buf), str(sp), lst(out), cap, rng.choice('01')]


def k_memR(rng, W=None):
    if W is None:
        W = width(rng)
    data = words(rng, W, 0, 5)
    r = rng.random()
    if r < 0.7:
        pos = rng.randrange(0, len(data) + 2)
    elif r < 0.85:
        pos = (1 << rng.choice([32, 57, 58, 61])) + rng.randrange(0, 3)
    else:
        pos = nat(rng)
    return [lst(data), str(pos), rng.choice('01')]


def k_WmemR(rng):
    W = width(rng)
    return [str(W)] + k_memR(rng, W)


def k_bufR(rng):
    W = width(rng)
    bib = fill(rng, W, 0, 2 * W - 1) if rng.random() < 0.95 else 2 * W
    r = rng.random()
    if r < 0.5:
        # a consistent buffer is not needed for an equality of functions: any bit pattern
        buf = rng.getrandbits(2 * W)
    elif r < 0.75:
        buf = rng.getrandbits(bib) << (2 * W - bib) if bib else 0      # BE-valid
    else:
        buf = rng.getrandbits(bib) if bib else 0                        # LE-valid
    data = words(rng, W, 0, 5)
    r = rng.random()
    if r < 0.75:
        pos = rng.randrange(0, len(data) + 2)
    elif r < 0.9:
        pos = ((1 << rng.choice([32, 58, 61, 64])) // W) + rng.randrange(0, 3)
    else:
        pos = nat(rng)
    return [str(W), hx(buf), str(bib), lst(data), str(pos), rng.choice('01')]


def k_bitR(rng):
    data = words(rng, 64, 0, 5)
    pos = rng.randrange(0, len(data) + 2)
    r = rng.random()
    if r < 0.7:
        ix = rng.randrange(0, 64 * (len(data) + 1) + 2)
    elif r < 0.85:
        ix = (1 << rng.choice([32, 33])) + rng.randrange(0, 130)
    else:
        ix = min(U64 + 1, (1 << rng.choice([61, 62, 63, 64])) + rng.randrange(-130, 3))
    return [lst(data), str(pos), rng.choice('01'), str(ix)]


def k_memW(rng):
    W = width(rng)
    data = words(rng, W, 0, 5)
    r = rng.random()
    if r < 0.75:
        pos = rng.randrange(0, len(data) + 3)
    elif r < 0.9:
        pos = rng.randrange(0, 40)
    else:
        pos = nat(rng)
    return [str(W), lst(data), str(pos), rng.choice('01')]


def k_wb(rng):
    if rng.random() < 0.6:
        return ['T']
    W = rng.choice([8, 16, 32, 64, 128])
    cap = '-' if rng.random() < 0.7 else str(rng.randrange(0, 4))
    return ['R%s,%d,%s,%s' % (rng.choice(['be', 'le']), W, rng.choice('01'), cap)]


def k_rb(rng):
    if rng.random() < 0.6:
        k = rng.randrange(0, 6)
        vs = [nat(rng) if rng.random() < 0.7 else rng.randrange(0, 70) for _ in range(k)]
        return ['M' + (','.join(str(v) for v in vs) if vs else '-')]
    data = hexbytes(rng, 0, 24)
    nb = 0 if data == '-' else len(data) // 2
    pos = rng.randrange(0, nb * 8 + 3)
    return ['R%s,%s,%d,%d,%s' % (rng.choice(['be', 'le']), rng.choice('01'), rng.choice([8, 16, 32, 64, 128]), pos, data)]


def k_updates(rng, big=True):
    k = rng.randrange(0, 5)
    items = []
    for _ in range(k):
        v = nat(rng, U64 - 1) if rng.random() < 0.5 else rng.randrange(0, 300)
        r = rng.random()
        if r < 0.5:
            c = rng.randrange(1, 5)
        elif big and r < 0.8:
            c = (1 << rng.choice([31, 32, 62, 63])) // max(1, rng.choice([1, 1, 2, 3, 64])) + rng.randrange(0, 3)
        else:
            c = rng.randrange(0, 1000)
        items.append('%d:%d' % (v, c))
    return [','.join(items) if items else '-']


def k_stats(rng):
    if rng.random() < 0.45:
        return ['U' + k_updates(rng)[0]]

    def tot():
        r = rng.random()
        if r < 0.4:
            return rng.randrange(0, 50)
        if r < 0.8:
            return min(U64 - 1, (1 << rng.choice([31, 32, 62, 63, 64])) + rng.randrange(-3, 3))
        return rng.getrandbits(rng.randrange(0, 65))
    fam = lambda n: ','.join(str(tot()) for _ in range(n)) if n else '-'
    if rng.random() < 0.7:
        shape = (10, 20, 10, 10, 10)        # the default const generics
    else:
        shape = tuple(rng.randrange(0, 4) for _ in range(5))
    return [str(tot()) for _ in range(6)] + [fam(n) for n in shape]


def k_fcfun(rng):
    if rng.random() < 0.5:
        code = rng.choice(['unary', 'gamma', 'delta', 'omega', 'zeta', 'pi', 'rice', 'golomb', 'expg', 'minbin', 'vbyte'])
        p = rng.randrange(1, 12)
        return ['lib:%s:%d' % (code, p)]
    k = rng.randrange(0, 5)
    ps = sorted(set(nat(rng, U64) for _ in range(k)))
    return ['steps:' + (','.join(str(p) for p in ps) if ps else '-')]


def k_sched(rng):
    k = rng.randrange(0, 4)
    return [','.join(rng.choice(['i', 'f', 'z', 'a1', 'a2', 'a3', 'a8', 'a100']) for _ in range(k)) or '-']


KINDS = {
    'bool': lambda rng: [rng.choice('01')],
    'e': lambda rng: [rng.choice(['be', 'le'])],
    'nat': lambda rng: [str(nat(rng))],
    'u64': lambda rng: [str(u64(rng))],
    'param': lambda rng: [str(param(rng))],
    'nbits': lambda rng: [str(nbits(rng))],
    'bign': lambda rng: [str(big_n(rng))],
    'fuel': lambda rng: [str(rng.choice([0, 1, 2, 3, 5, 8, 10, 12, 64]))],
    'small': lambda rng: [str(rng.randrange(0, 300))],
    'bytesz': lambda rng: [str(rng.choice([1, 2, 4, 8, 16, 0, 3]))],
    'bufW': k_bufW, 'bufWu': lambda rng: k_bufW(rng, True), 'bufR': k_bufR, 'bitR': k_bitR, 'WmemR': k_WmemR,
    'memW': k_memW, 'wb': k_wb, 'rb': k_rb, 'stats': k_stats, 'updates': k_updates, 'fcfun': k_fcfun,
    'hex': lambda rng: [hexbytes(rng)], 'hex0': lambda rng: ['-' if rng.random() < 0.6 else hexbytes(rng, 0, 4)],
    'sched': k_sched,
    'optnat': lambda rng: ['-' if rng.random() < 0.2 else str(nat(rng, U64))],
    'width': lambda rng: [str(rng.choice([1, 7, 8, 16, 32, 63, 64, 65, 128]))],
}

# target -> argument kinds (in the order the Lean target parses them)
SPECS = {
    'len_gamma_param': ['bool', 'nat'], 'len_gamma': ['nat'], 'len_delta_param': ['bool', 'bool', 'nat'], 'len_delta': ['nat'],
    'len_minimal_binary': ['@pair'], 'len_zeta_param': ['bool', 'nat', 'param'], 'len_zeta': ['nat', 'param'],
    'len_omega': ['nat'], 'len_rice': ['nat', 'param'], 'len_pi': ['nat', 'param'], 'len_golomb': ['@pair'],
    'len_exp_golomb': ['nat', 'param'], 'byte_len_vbyte': ['nat'], 'bit_len_vbyte': ['nat'],
    'to_int': ['@zz'], 'to_nat': ['@zz'],
    'zz_impls': [],
    'flush_be': ['bufW'], 'flush_le': ['bufW'], 'write_bits_be': ['@wbits'], 'write_bits_le': ['@wbits'],
    'write_unary_be': ['@wunary'], 'write_unary_le': ['@wunary'],
    'copy_from_be': ['bufWu', 'rb', 'bign'], 'copy_from_le': ['bufWu', 'rb', 'bign'],
    'td_flush': ['e', 'bufW'], 'td_drop': ['e', 'bufW'], 'td_into_inner': ['e', 'bufW'], 'td_bufr_into_inner': ['bufR'],
    'td_countw_into_inner': ['small', 'wb'], 'td_countr_into_inner': ['small', 'rb'],
    'td_memw_slice_into_inner': ['memW'], 'td_memw_vec_into_inner': ['memW'], 'td_memr_into_inner': ['WmemR'],
    'memr_read_word_inf': ['WmemR'], 'memr_read_word_strict': ['WmemR'], 'memr_word_pos_inf': ['WmemR'],
    'memr_word_pos_strict': ['WmemR'], 'memr_set_word_pos_inf': ['WmemR', 'u64'], 'memr_set_word_pos_strict': ['WmemR', 'u64'],
    'memw_read_word_slice': ['memW'], 'memw_read_word_vec': ['memW'], 'memw_word_pos_slice': ['memW'], 'memw_word_pos_vec': ['memW'],
    'memw_set_word_pos_slice': ['memW', 'u64'], 'memw_set_word_pos_vec': ['memW', 'u64'], 'memw_len_slice': ['memW'],
    'memw_len_vec': ['memW'], 'memw_write_word_slice': ['memW', 'nat'], 'memw_write_word_vec': ['memW', 'nat'],
    'write_rice': ['bool', 'nat', 'param', 'wb'], 'write_pi': ['bool', 'nat', 'param', 'wb'],
    'write_minimal_binary': ['@minbin', 'wb'], 'write_golomb': ['@pair', 'wb'],
    'write_exp_golomb': ['e', 'bool', 'bool', 'nat', 'param', 'wb'], 'default_write_gamma': ['bool', 'nat', 'wb'],
    'default_write_delta': ['e', 'bool', 'bool', 'nat', 'wb'], 'default_write_zeta': ['nat', 'param', 'wb'],
    'recursive_write': ['e', 'bool', 'fuel', 'nat', 'wb'], 'write_omega': ['e', 'bool', 'nat', 'wb'],
    'write_vbyte_be': ['nat', 'wb'], 'write_vbyte_le': ['nat', 'wb'],
    'gamma_write_table': ['e', '@tabidx', 'wb'], 'delta_write_table': ['e', '@tabidx', 'wb'], 'zeta_write_table': ['e', '@tabidx', 'wb'],
    'write_gamma_param': ['e', 'bool', 'bool', '@tabval', 'wb'], 'write_delta_param': ['e', 'bool', 'bool', 'bool', '@tabval', 'wb'],
    'default_write_delta_param': ['e', 'bool', 'bool', '@tabval', 'wb'], 'write_zeta_param': ['e', 'bool', '@tabval', 'param', 'wb'],
    'write_zeta3_param': ['e', 'bool', '@tabval', 'wb'],
    'read_rice': ['param', 'rb'], 'read_pi': ['param', 'rb'], 'read_minimal_binary': ['nat', 'rb'], 'read_golomb': ['nat', 'rb'],
    'read_exp_golomb': ['e', 'bool', 'param', 'rb'], 'default_read_gamma': ['rb'], 'default_read_delta': ['e', 'bool', 'rb'],
    'default_read_zeta': ['param', 'rb'], 'read_omega_loop': ['e', 'fuel', 'nat', 'rb'], 'read_omega': ['e', 'rb'],
    'read_vbyte_be': ['fuel', 'rb'], 'read_vbyte_le': ['fuel', 'rb'],
    'gamma_read_table': ['e', 'rb'], 'delta_read_table': ['e', 'rb'], 'zeta_read_table': ['e', 'rb'],
    'gamma_len_table': ['e', 'rb'], 'delta_len_table': ['e', 'rb'], 'zeta_len_table': ['e', 'rb'],
    'read_gamma_param': ['e', 'bool', 'rb'], 'read_delta_param': ['e', 'bool', 'bool', 'rb'],
    'default_read_delta_param': ['e', 'bool', 'rb'], 'read_zeta_param': ['e', 'param', 'rb'], 'read_zeta3_param': ['e', 'bool', 'rb'],
    'count_write_bits': ['bool', 'nat', 'wb', 'nat', 'nbits'], 'count_write_unary': ['bool', 'nat', 'wb', 'nat'],
    'count_flush': ['bool', 'nat', 'wb'], 'count_write_gamma': ['bool', 'nat', 'wb', 'nat'], 'count_write_delta': ['bool', 'nat', 'wb', 'nat'],
    'count_write_zeta': ['bool', 'nat', 'wb', 'nat', 'param'], 'count_write_zeta3': ['bool', 'nat', 'wb', 'nat'],
    'count_read_bits': ['bool', 'nat', 'rb', 'nbits'], 'count_read_unary': ['bool', 'nat', 'rb'], 'count_peek_bits': ['bool', 'nat', 'rb', 'nbits'],
    'count_skip_bits': ['bool', 'nat', 'rb', 'bign'], 'count_skip_bits_after_peek': ['bool', 'nat', 'rb', 'bign'],
    'count_read_gamma': ['bool', 'nat', 'rb'], 'count_read_delta': ['bool', 'nat', 'rb'], 'count_read_zeta': ['bool', 'nat', 'rb', 'param'],
    'count_read_zeta3': ['bool', 'nat', 'rb'],
    'dbg_read_bits': ['rb', 'nbits'], 'dbg_peek_bits': ['rb', 'nbits'], 'dbg_read_unary': ['rb'], 'dbg_skip_bits': ['rb', 'bign'],
    'dbg_skip_bits_after_peek': ['rb', 'bign'], 'dbg_write_bits': ['wb', 'nat', 'nbits'], 'dbg_write_unary': ['wb', 'nat'], 'dbg_flush': ['wb'],
    'dbg_read_gamma': ['rb'], 'dbg_read_delta': ['rb'], 'dbg_read_zeta': ['rb', 'param'], 'dbg_read_zeta3': ['rb'],
    'dbg_write_gamma': ['wb', 'nat'], 'dbg_write_delta': ['wb', 'nat'], 'dbg_write_zeta': ['wb', 'nat', 'param'], 'dbg_write_zeta3': ['wb', 'nat'],
    'dbg_methods': [],
    'stats_update_many': ['stats', 'nat', '@count'], 'stats_update': ['stats', 'nat'], 'stats_add': ['@stats2'], 'stats_add_assign': ['@stats2'],
    'stats_add_trait': ['@stats2'], 'stats_default': [], 'stats_sum': ['@statsn'], 'stats_best_code': ['stats'],
    'stats_run_updates': ['updates'], 'stats_wrapper_new': [], 'stats_wrapper_into_inner': ['bool', 'stats'],
    'stats_read_dyn': ['bool', 'stats', 'rb'], 'stats_read_static': ['bool', 'stats', 'rb'],
    'stats_write_dyn': ['bool', 'stats', 'wb', 'nat'], 'stats_write_static': ['bool', 'stats', 'wb', 'nat'],
    'ad_read_word_cursor': ['bytesz', '@cursor'], 'ad_read_word_source': ['bytesz', 'hex', 'sched'],
    'ad_write_word_sink': ['bytesz', 'hex0', 'sched', 'nat'], 'ad_flush': ['@cursor'], 'ad_new_into_inner': ['@cursor'],
    'ad_word_pos': ['bytesz', '@cursor'], 'ad_set_word_pos': ['bytesz', '@cursor', 'nat'], 'ad_set_word_pos_wraps': ['bytesz', '@cursor', 'nat'],
    'ad_div_ceil': ['@pair'],
    'fc_next': ['@fc'],
    'vbyte_write_be': ['nat', 'hex0', 'hex0'], 'vbyte_write_le': ['nat', 'hex0', 'hex0'], 'vbyte_write_dispatch': ['e', 'nat', 'hex0', 'hex0'],
    'vbyte_read_be': ['@vbytes', 'hex0'], 'vbyte_read_le': ['@vbytes', 'hex0'], 'vbyte_read_dispatch': ['e', '@vbytes', 'hex0'],
    'copy_to_be': ['bool', 'bufR', 'wb', 'bign'], 'copy_to_le': ['bool', 'bufR', 'wb', 'bign'],
    'copy_to_default': ['rb', 'wb', 'bign'], 'copy_from_default': ['rb', 'wb', 'bign'],
    'io_write_be': ['width', 'wb', 'hex'], 'io_write_le': ['width', 'wb', 'hex'],
    'io_read_bufr_be': ['width', 'rb', 'hex'], 'io_read_bufr_le': ['width', 'rb', 'hex'],
    'io_read_bitr_be': ['width', 'rb', 'hex'], 'io_read_bitr_le': ['width', 'rb', 'hex'],
    'check_tables': ['small'], 'check_tables_buf': ['width'], 'check_tables_bit': [], 'check_tables_consts': [],
}
for _w, _t in ((8, 'u8'), (16, 'u16'), (32, 'u32'), (64, 'u64'), (64, 'usize'), (128, 'u128')):
    SPECS['to_int_' + _t] = ['@zzw%d' % _w]
    SPECS['to_nat_i' + _t[1:]] = ['@zzw%d' % _w]
for _e in ('be', 'le'):
    for _m, _a in (('refill', []), ('peek_bits', ['nbits']), ('skip_bits_after_peek', ['nbits']), ('read_bits', ['nbits']),
                   ('read_unary', []), ('skip_bits', ['bign']), ('set_bit_pos', ['bign']), ('bit_pos', [])):
        SPECS['bufr_%s_%s' % (_m, _e)] = ['bufR'] + _a
    for _m, _a in (('skip_bits', ['bign']), ('read_bits', ['nbits']), ('peek_bits', ['nbits']), ('skip_bits_after_peek', ['bign']),
                   ('bit_pos', []), ('set_bit_pos', ['bign']), ('read_unary', [])):
        SPECS['bitr_%s_%s' % (_m, _e)] = ['bitR'] + _a


def zz_value(rng, w):
    r = rng.random()
    if r < 0.5:
        ks = [k for k in (1, 7, 8, 15, 16, 31, 32, 33, 62, 63, 64, 65, 126, 127) if k <= w]
        k = rng.choice(ks)
        v = rng.choice([(1 << k) - 1, 1 << k, (1 << k) + 1, (1 << w) - (1 << k), (1 << w) - 1, 0, 1])
    else:
        v = rng.getrandbits(rng.randrange(0, w + 1))
    return v % (1 << w)


def special(kind, rng):
    if kind == '@zz':
        w = rng.choice([8, 16, 32, 64, 64, 128, 128, 128])
        return [str(w), str(zz_value(rng, w))]
    if kind.startswith('@zzw'):
        return [str(zz_value(rng, int(kind[4:])))]
    if kind == '@wbits':
        st = k_bufW(rng)
        n = nbits(rng)
        v = u64(rng)
        if rng.random() < 0.6 and n <= 64:
            v &= (1 << n) - 1                    # clean argument
        elif rng.random() < 0.5 and n < 64:
            v = (v & ((1 << n) - 1)) | (1 << rng.randrange(n, 64))   # one dirty bit
        return st + [hx(v), str(n)]
    if kind == '@wunary':
        r = rng.random()
        if r < 0.5:
            return k_bufW(rng) + [str(rng.randrange(0, 300))]
        st = k_bufW(rng, True)          # with a capacity: the word loop stops there
        W, sp = int(st[0]), int(st[2])
        if r < 0.8:
            v = (1 << rng.choice([32, 33, 63])) + sp + W * rng.randrange(0, 3) + rng.randrange(0, W)
        else:
            v = u64(rng)
        return st + [str(min(v, U64 - 1))]
    if kind == '@minbin':
        mx = nat(rng, U64)
        r = rng.random()
        if r < 0.5 and mx:
            n = rng.randrange(0, mx)
        elif r < 0.8 and mx:
            n = max(0, min(mx - 1, (U64 - mx) + rng.randrange(-2, 3))) if mx > (1 << 63) else rng.choice([0, mx - 1, mx // 2])
        else:
            n = nat(rng)
        return [str(n), str(mx)]
    if kind == '@pair':
        # two numbers, often related: equal, neighbours, complements to 2^64 / 2^63, halves and doubles
        y = nat(rng)
        r = rng.random()
        if r < 0.45:
            x = nat(rng)
        else:
            base = rng.choice([y, U64 - y, (1 << 63) - y, y // 2, 2 * y, y + (1 << 32), abs(y - (1 << 32))])
            x = max(0, base + rng.choice([-2, -1, 0, 0, 0, 1, 2]))
        return [str(x), str(y)]
    if kind == '@tabidx':
        return [str(rng.choice([0, 1, 2, 62, 63, 64, 65, 255, 256, 1023, 1024, 4095, 4096, 65535, 65536] + [rng.randrange(0, 5000)]))]
    if kind == '@tabval':
        return [str(rng.randrange(0, 5000) if rng.random() < 0.5 else nat(rng, U64 - 1))]
    if kind == '@count':
        r = rng.random()
        return [str(rng.randrange(0, 5) if r < 0.4 else nat(rng, U64))]
    if kind == '@stats2':
        a = k_stats(rng)
        b = k_stats(rng)
        if len(a) == 11 and rng.random() < 0.8:
            # same shape
            def fam(t):
                n = 0 if t == '-' else len(t.split(','))
                return ','.join(str(rng.choice([0, 1, (1 << 63) - 1, 1 << 63, rng.getrandbits(20)])) for _ in range(n)) if n else '-'
            b = [str(rng.choice([0, 1, (1 << 63), rng.getrandbits(30)])) for _ in range(6)] + [fam(t) for t in a[6:]]
        return a + b
    if kind == '@statsn':
        k = rng.randrange(0, 4)
        out = [str(k)]
        for _ in range(k):
            out += ['U' + k_updates(rng)[0]] if rng.random() < 0.8 else k_stats(rng)
        return out
    if kind == '@cursor':
        data = hexbytes(rng, 0, 20)
        nb = 0 if data == '-' else len(data) // 2
        r = rng.random()
        pos = rng.randrange(0, nb + 10) if r < 0.7 else nat(rng, U64)
        return [data, str(pos)]
    if kind == '@fc':
        f = k_fcfun(rng)
        r = rng.random()
        if r < 0.3:
            return f + ['0', '-']
        cur = nat(rng, U64)
        prev = '-' if rng.random() < 0.1 else str(rng.randrange(0, 70) if rng.random() < 0.7 else nat(rng, U64))
        return f + [str(cur), prev]
    raise KeyError(kind)


def vbytes_token(rng):
    """a byte string: a valid VByte code of a boundary value, possibly truncated / over-long / followed by garbage"""
    r = rng.random()
    if r < 0.25:
        return hexbytes(rng, 0, 12)
    v = nat(rng, U64)
    # big-endian-style grouping (continuation bit 0x80 on all but the last byte): just a plausible shape
    bs = [v & 0x7f]
    v >>= 7
    while v:
        bs.append(0x80 | (v & 0x7f))
        v >>= 7
    if rng.random() < 0.5:
        bs = bs[::-1]
        bs = [b | 0x80 for b in bs[:-1]] + [bs[-1] & 0x7f]
    if r < 0.4:
        bs = bs[:rng.randrange(0, len(bs) + 1)]
    elif r < 0.55:
        bs = [0x80 | rng.getrandbits(7) for _ in range(rng.randrange(1, 6))] + bs
    elif r < 0.65:
        bs = bs + [rng.getrandbits(8) for _ in range(rng.randrange(1, 4))]
    return ''.join('%02x' % b for b in bs) or '-'


def gen_target(target, rng, count):
    """`count` request lines for one target (fewer for targets without arguments)"""
    spec = SPECS[target]
    if not spec:
        return ['GH ' + target]
    lines = []
    for _ in range(count):
        toks = []
        for k in spec:
            if k == '@vbytes':
                toks.append(vbytes_token(rng))
            elif k.startswith('@'):
                toks += special(k, rng)
            else:
                toks += KINDS[k](rng)
        lines.append('GH %s %s' % (target, ' '.join(toks)))
    return lines


def gen_lines(targets, seed, per_target=400):
    rng = random.Random(seed * 7919 + 17)
    out = []
    for t in targets:
        if t in SPECS:
            out += gen_target(t, rng, per_target)
    return out


# ---------------------------------------------------------------------------------------------
# shrinking candidates
# ---------------------------------------------------------------------------------------------

NUM = re.compile(r'x[0-9a-fA-F]+|\d+')


def _parse(t):
    return int(t[1:], 16) if t.startswith('x') else int(t)


def _fmt(v, like):
    return hx(v) if like.startswith('x') else str(v)


def smaller(v):
    """candidate replacements of a number, smallest first: small values, then powers of two and their
    neighbours below it, then halves"""
    c = [0, 1, 2]
    if v > 3:
        p = 1 << (v.bit_length() - 1)
        c += [p, p - 1, p + 1, v // 2, v - 1, v & ~0xff, v & ~0xffff]
        for k in (8, 16, 32, 63, 64):
            if (1 << k) < v:
                c.append(1 << k)
    seen = []
    for x in c:
        if 0 <= x < v and x not in seen:
            seen.append(x)
    return seen


KIND_SIZE = {'@pair': 2, 'bufW': 6, 'bufWu': 6, 'bufR': 6, 'bitR': 4, 'WmemR': 4, 'memW': 4, '@zz': 2, '@wbits': 8, '@wunary': 7,
             '@minbin': 2, '@cursor': 2, '@fc': 3}
WIDTH_FIRST = ('bufW', 'bufWu', 'bufR', 'WmemR', 'memW', '@zz', '@wbits', '@wunary')


def width_positions(toks):
    """token index -> admissible values, for the tokens that are word widths / word sizes in bytes
    (shrinking keeps them real: 8..128 bits, 1..16 bytes)"""
    spec = SPECS.get(toks[1])
    pos = {}
    if spec is None:
        return pos
    i = 2
    for k in spec:
        if i >= len(toks):
            break
        if k in WIDTH_FIRST:
            pos[i] = WIDTHS
        elif k == 'bytesz':
            pos[i] = [1, 2, 4, 8, 16]
        elif k == 'width':
            pos[i] = [8, 16, 32, 64, 128]
        elif k in ('hex', 'hex0', '@vbytes', '@cursor'):
            pos[i] = 'hex'
        if k == 'stats':
            i += 1 if toks[i].startswith('U') else 11
        elif k in ('@stats2', '@statsn'):
            break           # variable layout: no width tokens behind it in any spec
        else:
            i += KIND_SIZE.get(k, 1)
    return pos


def shrink_candidates(line):
    """lines obtained from `line` by making one number smaller or dropping one list element"""
    toks = line.split(' ')
    out = []
    wpos = width_positions(toks)
    for i in range(2, len(toks)):
        t = toks[i]
        if i in wpos and wpos[i] == 'hex':
            # a byte string: drop one byte, or zero one
            if t != '-':
                bs = [t[j:j + 2] for j in range(0, len(t), 2)]
                for j in range(len(bs)):
                    rest = bs[:j] + bs[j + 1:]
                    out.append(' '.join(toks[:i] + [''.join(rest) or '-'] + toks[i + 1:]))
                for j in range(len(bs)):
                    if bs[j] != '00':
                        out.append(' '.join(toks[:i] + [''.join(bs[:j] + ['00'] + bs[j + 1:])] + toks[i + 1:]))
            continue
        if i in wpos:
            try:
                cur = int(t)
            except ValueError:
                continue
            for c in wpos[i]:
                if c < cur:
                    out.append(' '.join(toks[:i] + [str(c)] + toks[i + 1:]))
            continue
        # drop one element of a comma list
        if ',' in t and not t.startswith('R'):
            head = ''
            body = t
            if t[0] in 'MU':
                head, body = t[0], t[1:]
            items = body.split(',')
            for j in range(len(items)):
                rest = items[:j] + items[j + 1:]
                out.append(' '.join(toks[:i] + [head + (','.join(rest) if rest else '-')] + toks[i + 1:]))
        if t.startswith('R') or t.startswith('lib:'):
            continue
        for m in NUM.finditer(t):
            s = m.group(0)
            if t[:m.start()].endswith('x') or (m.start() > 0 and t[m.start() - 1].isalnum() and not t[m.start() - 1].isdigit() and t[m.start() - 1] not in 'MU:x'):
                continue
            try:
                v = _parse(s)
            except ValueError:
                continue
            for c in smaller(v):
                nt = t[:m.start()] + _fmt(c, s) + t[m.end():]
                out.append(' '.join(toks[:i] + [nt] + toks[i + 1:]))
    return out


# ---------------------------------------------------------------------------------------------
# witness -> request line of an existing family
# ---------------------------------------------------------------------------------------------

MAX_BITS = 1 << 22      # a replayed session never writes / reads more than this many bits


def _num(t):
    return _parse(t) if t != '-' else None


def _lst(t):
    return [] if t == '-' else [_parse(x) for x in t.split(',')]


def _writer_prefix(e, W, buf, sp, out):
    """session operations that bring a fresh `BufBitWriter` with `W`-bit words into the state
    (out, the `W - sp` pending bits of the buffer); None when the state is not reachable"""
    if not (1 <= sp <= W):
        return None
    ops = []

    def put(v, n):
        # n <= 128 bits of v in stream order
        if n <= 64:
            ops.append('wb %s %d' % (hx(v), n))
        elif e == 'be':
            ops.append('wb %s %d' % (hx(v >> 64), n - 64))
            ops.append('wb %s %d' % (hx(v & (U64 - 1)), 64))
        else:
            ops.append('wb %s %d' % (hx(v & (U64 - 1)), 64))
            ops.append('wb %s %d' % (hx(v >> 64), n - 64))
    for w in out:
        put(w, W)
    k = W - sp
    if k:
        pending = buf & ((1 << k) - 1) if e == 'be' else (buf >> (W - k)) & ((1 << k) - 1)
        put(pending, k)
    return ops


def _wcfg(e, W, cap, checks):
    # `checks` is a cargo feature: the default build the replay runs on does not have it
    if checks:
        raise ValueError('checks')
    return 'S e=%s ww=%d%s' % (e, W, '' if cap is None else ' cap=%d' % cap)


def _bytes_of_words(e, W, ws):
    bs = []
    for w in ws:
        b = [(w >> (8 * i)) & 0xff for i in range(W // 8)]
        bs += b[::-1] if e == 'be' else b
    return ''.join('%02x' % b for b in bs) or '-'


CODE_W = {  # writer target -> (code name, flags builder, param index, value index) over the parsed args
    'write_rice': lambda a: ('be', a[0], 'rice', '-', a[2], a[1]),
    'write_pi': lambda a: ('be', a[0], 'pi', '-', a[2], a[1]),
    'write_minimal_binary': lambda a: ('be', '0', 'minbin', '-', a[1], a[0]),
    'write_golomb': lambda a: ('be', '0', 'golomb', '-', a[1], a[0]),
    'write_exp_golomb': lambda a: (a[0], a[1], 'expg', '-', a[4], a[3]),
    'default_write_gamma': lambda a: ('be', a[0], 'gamma', '0', '0', a[1]),
    'default_write_delta': lambda a: (a[0], a[1], 'delta', '0' + a[2], '0', a[3]),
    'default_write_zeta': lambda a: ('be', '0', 'zeta', '-', a[1], a[0]),
    'write_omega': lambda a: (a[0], a[1], 'omega', '-', '0', a[2]),
    'write_vbyte_be': lambda a: ('be', '0', 'vbbe', '-', '0', a[0]),
    'write_vbyte_le': lambda a: ('be', '0', 'vble', '-', '0', a[0]),
    'write_gamma_param': lambda a: (a[0], a[1], 'gamma', a[2], '0', a[3]),
    'write_delta_param': lambda a: (a[0], a[1], 'delta', a[2] + a[3], '0', a[4]),
    'default_write_delta_param': lambda a: (a[0], a[1], 'delta', '0' + a[2], '0', a[3]),
    'write_zeta_param': lambda a: (a[0], '0', 'zeta', '-', a[3], a[2]),
    'write_zeta3_param': lambda a: (a[0], '0', 'zeta3', a[1], '0', a[2]),
    'gamma_write_table': lambda a: (a[0], '0', 'gamma', '1', '0', a[1]),
    'delta_write_table': lambda a: (a[0], '0', 'delta', '10', '0', a[1]),
    'zeta_write_table': lambda a: (a[0], '0', 'zeta3', '1', '0', a[1]),
}
CODE_R = {  # reader target -> (endianness, code, flags, param) over the parsed args (without the back end)
    'read_rice': lambda a: (None, 'rice', '-', a[0]),
    'read_pi': lambda a: (None, 'pi', '-', a[0]),
    'read_minimal_binary': lambda a: (None, 'minbin', '-', a[0]),
    'read_golomb': lambda a: (None, 'golomb', '-', a[0]),
    'read_exp_golomb': lambda a: (a[0], 'expg', '-', a[2]),
    'default_read_gamma': lambda a: (None, 'gamma', '0', '0'),
    'default_read_delta': lambda a: (a[0], 'delta', '0' + a[1], '0'),
    'default_read_zeta': lambda a: (None, 'zeta', '-', a[0]),
    'read_omega': lambda a: (a[0], 'omega', '-', '0'),
    'read_vbyte_be': lambda a: (None, 'vbbe', '-', '0'),
    'read_vbyte_le': lambda a: (None, 'vble', '-', '0'),
    'read_gamma_param': lambda a: (a[0], 'gamma', a[1], '0'),
    'read_delta_param': lambda a: (a[0], 'delta', a[1] + a[2], '0'),
    'default_read_delta_param': lambda a: (a[0], 'delta', '0' + a[1], '0'),
    'read_zeta_param': lambda a: (a[0], 'zeta', '-', a[1]),
    'read_zeta3_param': lambda a: (a[0], 'zeta3', a[1], '0'),
    'gamma_read_table': lambda a: (a[0], 'gamma', '1', '0'),
    'delta_read_table': lambda a: (a[0], 'delta', '10', '0'),
    'zeta_read_table': lambda a: (a[0], 'zeta3', '1', '0'),
}
LEN1 = {
    'len_gamma_param': lambda a: ('gamma', a[0], '0', a[1]), 'len_gamma': lambda a: ('gamma', 'd', '0', a[0]),
    'len_delta_param': lambda a: ('delta', a[0] + a[1], '0', a[2]), 'len_delta': lambda a: ('delta', 'd', '0', a[0]),
    'len_minimal_binary': lambda a: ('minbin', '-', a[1], a[0]),
    'len_zeta_param': lambda a: ('zeta', a[0], a[2], a[1]), 'len_zeta': lambda a: ('zeta', 'd', a[1], a[0]),
    'len_omega': lambda a: ('omega', '-', '0', a[0]), 'len_rice': lambda a: ('rice', '-', a[1], a[0]),
    'len_pi': lambda a: ('pi', '-', a[1], a[0]), 'len_golomb': lambda a: ('golomb', '-', a[1], a[0]),
    'len_exp_golomb': lambda a: ('expg', '-', a[1], a[0]), 'byte_len_vbyte': lambda a: ('vbytes', '-', '0', a[0]),
    'bit_len_vbyte': lambda a: ('vbyte', '-', '0', a[0]),
}
ZZ_W = {'u8': 8, 'u16': 16, 'u32': 32, 'u64': 64, 'usize': 64, 'u128': 128, 'i8': 8, 'i16': 16, 'i32': 32, 'i64': 64, 'isize': 64, 'i128': 128}


def _rb_session(tok):
    """reader back end token `R<e>,<strict>,<peekMax>,<pos>,<hex>` -> (e, strict, peekMax, pos, hex)"""
    if not tok.startswith('R'):
        return None
    e, st, pm, pos, hxs = tok[1:].split(',')
    return e, st, int(pm), int(pos), hxs


def _rb_seekable(be, rw):
    """may the session seek to the position of this reference-reader token?  (the reference refuses
    positions beyond the end of strict data; the word-padded data is what the reader holds)"""
    e, strict, pm, pos, hxs = be
    nbytes = 0 if hxs == '-' else len(hxs) // 2
    return strict != '1' or pos <= (nbytes * 8 + rw - 1) // rw * rw


def gh_to_request(witness):
    """A request line of an existing correspondence family that performs, on the real implementation,
    the operation of the witness `(target, line, gen, hand)` on (an equivalent of) its input; None
    when no family can express it (scripted back ends, unreachable states, inputs that would need
    gigabytes)."""
    target, line = witness[0], witness[1]
    a = line.split(' ')[2:]
    try:
        return _to_request(target, a)
    except (ValueError, IndexError, KeyError, TypeError):
        return None


def _to_request(target, a):
    if target in LEN1:
        code, flags, p, v = LEN1[target](a)
        if _parse(p) >= U64 or _parse(v) >= U64:
            return None
        return 'LEN1 %s %s %s %s' % (code, flags, p, v)
    if target in ('to_nat', 'to_int') or target.startswith('to_nat_') or target.startswith('to_int_'):
        if target in ('to_nat', 'to_int'):
            w, x = int(a[0]), _parse(a[1])
        else:
            w, x = ZZ_W[target.split('_')[2]], _parse(a[0])
        if w not in (8, 16, 32, 64, 128):
            return None
        x %= 1 << w
        if target.startswith('to_nat'):
            if x >= 1 << (w - 1):
                x -= 1 << w
            return 'Z %d tonat %d' % (w, x)
        return 'Z %d toint %d' % (w, x)
    if target.startswith('stats_'):
        for t in a:
            if t[:1] == 'U' and any(_parse(x) >= U64 for x in re.split('[,:]', t[1:]) if x not in ('', '-')):
                return None
    if target in ('stats_best_code', 'stats_update_many', 'stats_update', 'stats_run_updates'):
        # only statistics reachable from `default()` by observations can be replayed
        if target == 'stats_run_updates':
            if any(_parse(x) >= U64 for x in re.split('[,:]', a[0]) if x not in ('', '-')):
                return None
            return 'ST upd %s' % a[0]
        if target == 'stats_run_updates' or not a[0].startswith('U'):
            return None
        ups = a[0][1:]
        if target == 'stats_best_code':
            return 'ST best %s' % ups
        if any(_parse(x) >= U64 for x in a[1:]):
            return None
        extra = '%s:%s' % (a[1], a[2]) if target == 'stats_update_many' else '%s:1' % a[1]
        return 'ST upd %s' % (extra if ups == '-' else ups + ',' + extra)
    if target.startswith('stats_add') and a[0].startswith('U'):
        rest = a[1:]
        if len(rest) == 1 and rest[0].startswith('U'):
            op = {'stats_add': 'a', 'stats_add_assign': 'e', 'stats_add_trait': 'p'}[target]
            return 'ST merge 0.1.%s %s|%s' % (op, a[0][1:], rest[0][1:])
        return None
    if target == 'stats_sum' and all(t.startswith('U') for t in a[1:]):
        k = int(a[0])
        if k == 0:
            return None
        return 'ST merge %s.s%d %s' % ('.'.join(str(i) for i in range(k)), k, '|'.join(t[1:] for t in a[1:]))
    if target == 'fc_next':
        f = a[0]
        if f.startswith('lib:'):
            _, code, p = f.split(':')
            return 'FC lib %s %s 80' % (code, p)
        ps = f.split(':', 1)[1]
        return 'FC steps 80 %s' % ps
    if target.startswith('memr_') or target.startswith('memw_'):
        W = int(a[0])
        if W not in (8, 16, 32, 64, 128):
            return None
        data, pos = _lst(a[1]), _parse(a[2])
        flag = a[3] == '1'
        if target.startswith('memr_'):
            kind = 'rs' if flag else 'rz'
        else:
            kind = 'wv' if flag else 'ws'
            if ('slice' in target) != (kind == 'ws'):
                return None
        if pos >= U64:
            return None
        ops = ['seek %d' % pos]
        if 'read_word' in target:
            ops += ['r', 'pos']
        elif 'set_word_pos' in target:
            ops += ['seek %d' % (_parse(a[4]) % U64), 'pos', 'r']
        elif 'write_word' in target:
            if pos > 1 << 20:
                return None
            ops += ['w %d' % _parse(a[4]), 'pos', 'dump']
        elif 'word_pos' in target:
            ops += ['pos']
        elif 'len' in target:
            ops += ['len']
        return 'MW w=%d kind=%s init=%s :: %s' % (W, kind, ','.join(str(x) for x in data) or '-', ' ; '.join(ops))
    if target in ('ad_word_pos', 'ad_set_word_pos', 'ad_set_word_pos_wraps', 'ad_read_word_cursor'):
        n = int(a[0])
        if n not in (1, 2, 4, 8, 16):
            return None
        data, pos = a[1], _parse(a[2])
        if pos >= U64:
            return None
        pre = []
        if pos:
            if pos % n:
                return None           # only word-aligned positions are reachable through `sp`
            pre = ['sp %d' % (pos // n)]
        if target == 'ad_word_pos':
            ops = pre + ['wp']
        elif target == 'ad_read_word_cursor':
            ops = pre + ['rw', 'wp']
        else:
            if _parse(a[3]) * n >= U64:
                return None          # the byte position wraps at 2^64 in the implementation (a documented proviso)
            ops = pre + ['sp %d' % _parse(a[3]), 'wp', 'rw']
        return 'AD seek w=%d data=%s :: %s' % (n * 8, data, ' ; '.join(ops))
    if target in ('vbyte_write_be', 'vbyte_write_le'):
        return 'VB w%s %d' % (target[-2:], _parse(a[0])) if _parse(a[0]) < U64 else None
    if target == 'vbyte_write_dispatch':
        return 'VB wgen %s %d' % (a[0], _parse(a[1])) if _parse(a[1]) < U64 else None
    if target in ('vbyte_read_be', 'vbyte_read_le'):
        return 'VB r%s %s' % (target[-2:], a[0])
    if target == 'vbyte_read_dispatch':
        return 'VB rgen %s %s' % (a[0], a[1])
    if target in ('check_tables_buf',):
        return 'TB diag buf %d' % int(a[0]) if int(a[0]) in (8, 16, 32, 64) else None
    if target == 'check_tables_bit':
        return 'TB diag bit'
    # ---- sessions: writer states
    if target in ('flush_be', 'flush_le', 'write_bits_be', 'write_bits_le', 'write_unary_be', 'write_unary_le',
                  'td_flush', 'td_drop', 'td_into_inner'):
        if target.startswith('td_'):
            e, a = a[0], a[1:]
        else:
            e = target[-2:]
        W, buf, sp, out, cap, ch = int(a[0]), _parse(a[1]), int(a[2]), _lst(a[3]), _num(a[4]), a[5] == '1'
        if W not in WIDTHS:
            return None
        pre = _writer_prefix(e, W, buf, sp, out)
        if pre is None:
            return None
        if target.startswith('write_bits'):
            op = ['wb %s %s' % (hx(_parse(a[6])), a[7])]
        elif target.startswith('write_unary'):
            v = _parse(a[6])
            if v > MAX_BITS:
                return None         # the image would hold v zeros (and the reference materialises them)
            op = ['wu %d' % v]
        elif target == 'td_drop':
            op = ['wdrop']
        elif target == 'td_into_inner':
            op = ['winto']
        else:
            op = ['wf']
        tail = [] if op[0] in ('wdrop', 'winto') else ['wf', 'wd']
        return '%s :: %s' % (_wcfg(e, W, cap, ch), ' ; '.join(pre + op + tail))
    # ---- sessions: code writers (value written into a fresh 64-bit-word writer, both endiannesses matter only
    #      where the target has one)
    if target in CODE_W:
        be = a[-1]          # back end token
        args = a[:-1]
        e, ch, code, flags, p, v = CODE_W[target](args)
        if _parse(p) >= U64 or _parse(v) >= U64:
            return None
        if ch == '1':
            return None          # the `checks` feature is not compiled into the build the replay runs on
        pv, vv = _parse(p), _parse(v)
        # codes with a unary part: the codeword must stay small enough to be written (and materialised
        # by the reference)
        if code in ('rice', 'expg') and (pv >= 64 or (vv >> pv) > MAX_BITS):
            return None
        if code == 'golomb' and (pv == 0 or vv // pv > MAX_BITS):
            return None
        ww = 64
        if be.startswith('R'):
            e2, w2, ch2, cap2 = be[1:].split(',')
            ww = int(w2)
            if code not in ('gamma', 'delta', 'omega', 'expg', 'zeta', 'zeta3'):
                e = e2
        return 'S e=%s ww=%d :: wc %s %s %s %s ; wf ; wd' % (e, ww if ww in WIDTHS else 64, code, flags, _parse(p), _parse(v))
    if target in CODE_R:
        be = _rb_session(a[-1])
        if be is None:
            return None
        e2, strict, pm, pos, hxs = be
        if strict != '1':
            return None          # a code read on zero-extended data can spin on an astronomically long field
        e, code, flags, p = CODE_R[target](a[:-1])
        e = e or e2
        if e != e2 or _parse(p) >= U64:
            return None
        rw = pm if pm in (8, 16, 32, 64) else 64
        nbytes = 0 if hxs == '-' else len(hxs) // 2
        if pos > (nbytes * 8 + rw - 1) // rw * rw:
            return None
        return 'S e=%s rw=%d strict=%s data=%s :: seek %d ; rc %s %s %s ; pos' % (e, rw, strict, hxs, pos, code, flags, _parse(p))
    # ---- sessions: reader states (the position and the data are reproduced; the buffer is whatever the
    #      implementation holds there)
    m = re.match(r'(bufr|bitr)_(\w+)_(be|le)$', target)
    if m:
        kind, meth, e = m.groups()
        if kind == 'bufr':
            W, bib, data, pos, strict = int(a[0]), int(a[2]), _lst(a[3]), _parse(a[4]), a[5]
            rest = a[6:]
            if W not in (8, 16, 32, 64):
                return None
            bitpos = pos * W - bib
            cfg = 'S e=%s rw=%d rk=buf strict=%s data=%s' % (e, W, strict, _bytes_of_words(e, W, data))
        else:
            data, strict, bitpos = _lst(a[0]), a[2], _parse(a[3])
            rest = a[4:]
            cfg = 'S e=%s rk=bit strict=%s data=%s' % (e, strict, _bytes_of_words(e, 64, data))
        Wr = W if kind == 'bufr' else 64
        total = len(data) * Wr
        if bitpos < 0 or bitpos >= U64 - (1 << 20):
            return None
        if strict == '1' and bitpos > total:
            return None          # the reference refuses to seek beyond the end of strict data; the readers do not
        peek_max = Wr if kind == 'bufr' else 32
        ops = ['seek %d' % bitpos]
        if meth in ('peek_bits', 'skip_bits_after_peek') and not (1 <= _parse(rest[0]) <= peek_max):
            return None          # look-ahead beyond the documented capacity is unspecified
        if meth in ('read_bits', 'skip_bits') and bitpos + _parse(rest[0]) >= U64 - (1 << 20):
            return None          # positions wrap at 2^64 in the implementation
        if meth == 'set_bit_pos' and ((strict == '1' and _parse(rest[0]) > total) or _parse(rest[0]) >= U64 - (1 << 20)):
            return None
        if meth == 'read_bits':
            ops += ['rb %s' % rest[0], 'pos']
        elif meth == 'peek_bits':
            ops += ['rp %s' % rest[0], 'pos']
        elif meth == 'skip_bits_after_peek':
            ops += ['rp %s' % rest[0], 'rsp %s' % rest[0], 'pos']
        elif meth == 'read_unary':
            ops += ['ru', 'pos']
        elif meth == 'skip_bits':
            if strict != '1' and _parse(rest[0]) > MAX_BITS:
                return None      # skipping over zero-extended data is linear in the distance
            ops += ['rs %s' % rest[0], 'pos']
        elif meth == 'set_bit_pos':
            ops += ['seek %d' % (_parse(rest[0]) % U64), 'pos', 'rb 7']
        elif meth == 'bit_pos':
            ops += ['pos']
        elif meth == 'refill':
            ops += ['rp 1', 'pos']
        return cfg + ' :: ' + ' ; '.join(ops)
    # ---- counting wrappers over the reference back ends
    if target.startswith('count_'):
        meth = target[6:]
        if 'write' in meth or meth == 'flush':
            be = a[2]
            if not be.startswith('R'):
                # the trace back end stands for any writer: replay on a 64-bit-word writer
                e, ww, ch = 'be', 64, '0'
            else:
                e, ww, ch, _cap = be[1:].split(',')
                ww = int(ww) if int(ww) in WIDTHS else 64
            if meth == 'write_bits':
                v, n = _parse(a[3]), a[4]
                op = 'wb %s %s' % (hx(v % U64), n)
            elif meth == 'write_unary':
                if _parse(a[3]) > MAX_BITS:
                    return None
                op = 'wu %d' % _parse(a[3])
            elif meth == 'flush':
                op = 'wb 1 1 ; wf'
            else:
                code = {'write_gamma': 'gamma d 0', 'write_delta': 'delta d 0', 'write_zeta3': 'zeta3 d 0'}.get(meth)
                if meth == 'write_zeta':
                    code = 'zeta d %d' % _parse(a[4])
                v = _parse(a[3])
                if v >= U64 - 1:
                    return None
                op = 'wc %s %d' % (code, v)
            if ch == '1':
                return None
            return 'S e=%s ww=%d wrap=count :: %s ; stat ; wf ; wd' % (e, ww, op)
        be = _rb_session(a[2])
        if be is None:
            return None
        e, strict, pm, pos, hxs = be
        rw = pm if pm in (8, 16, 32, 64) else 64
        nbytes = 0 if hxs == '-' else len(hxs) // 2
        total = (nbytes * 8 + rw - 1) // rw * rw
        if strict == '1' and pos > total:
            return None
        ops = ['seek %d' % pos]
        if meth in ('peek_bits', 'skip_bits_after_peek') and not (1 <= _parse(a[3]) <= rw):
            return None
        if meth in ('read_bits', 'skip_bits') and _parse(a[3]) >= U64 - (1 << 21):
            return None
        if meth == 'read_bits':
            ops += ['rb %s' % a[3]]
        elif meth == 'read_unary':
            ops += ['ru']
        elif meth == 'peek_bits':
            ops += ['rp %s' % a[3]]
        elif meth == 'skip_bits':
            if strict != '1' and _parse(a[3]) > MAX_BITS:
                return None
            ops += ['rs %s' % a[3]]
        elif meth == 'skip_bits_after_peek':
            ops += ['rp %s' % a[3], 'rsp %s' % a[3]]
        elif meth in ('read_gamma', 'read_delta', 'read_zeta3'):
            if strict != '1':
                return None
            ops += ['rc %s d 0' % meth[5:]]
        elif meth == 'read_zeta':
            if strict != '1':
                return None
            ops += ['rc zeta d %d' % _parse(a[3])]
        return 'S e=%s rw=%d strict=%s wrap=count data=%s :: %s ; stat ; pos' % (e, rw, strict, hxs, ' ; '.join(ops))
    if target.startswith('io_write_'):
        be = a[1]
        ww = 64
        if be.startswith('R'):
            ww = int(be[1:].split(',')[1])
        return 'S e=%s ww=%d :: wio %s ; wf ; wd' % (target[-2:], ww if ww in WIDTHS else 64, a[2])
    if target.startswith('io_read_'):
        be = _rb_session(a[1])
        if be is None or be[0] != target[-2:]:
            return None
        e, strict, pm, pos, hxs = be
        n = 0 if a[2] == '-' else len(a[2]) // 2
        if not _rb_seekable(be, 64 if 'bitr' in target else (pm if pm in (8, 16, 32, 64) else 64)):
            return None
        rk = 'rk=bit' if 'bitr' in target else 'rk=buf rw=%d' % (pm if pm in (8, 16, 32, 64) else 64)
        return 'S e=%s %s strict=%s data=%s :: seek %d ; rio %d ; pos' % (e, rk, strict, hxs, pos, n)
    if target in ('copy_to_be', 'copy_to_le'):
        e = target[-2:]
        W, bib, data, pos, strict = int(a[1]), int(a[3]), _lst(a[4]), _parse(a[5]), a[6]
        n = _parse(a[8])
        if W not in (8, 16, 32, 64) or n > MAX_BITS:
            return None
        bitpos = pos * W - bib
        if bitpos < 0 or bitpos + n >= U64 - (1 << 20):
            return None
        if strict == '1' and bitpos > len(data) * W:
            return None
        be = a[7]
        ww = int(be[1:].split(',')[1]) if be.startswith('R') else 64
        return 'S e=%s rw=%d ww=%d rk=buf strict=%s data=%s :: seek %d ; ct %d ; pos ; wf ; wd' % (
            e, W, ww if ww in WIDTHS else 64, strict, _bytes_of_words(e, W, data), bitpos, n)
    if target in ('copy_from_be', 'copy_from_le'):
        e = target[-2:]
        W, buf, sp, out, cap, ch = int(a[0]), _parse(a[1]), int(a[2]), _lst(a[3]), _num(a[4]), a[5] == '1'
        be = _rb_session(a[6])
        n = _parse(a[7])
        if be is None or be[0] != e or W not in WIDTHS or n > MAX_BITS:
            return None
        pre = _writer_prefix(e, W, buf, sp, out)
        if pre is None:
            return None
        _, strict, pm, pos, hxs = be
        rw = pm if pm in (8, 16, 32, 64) else 64
        if not _rb_seekable(be, rw):
            return None
        return '%s rw=%d strict=%s data=%s :: %s' % (_wcfg(e, W, cap, ch), rw, strict, hxs,
                                                      ' ; '.join(pre + ['seek %d' % pos, 'cf %d' % n, 'pos', 'wf', 'wd']))
    if target in ('copy_to_default', 'copy_from_default'):
        be = _rb_session(a[0])
        n = _parse(a[2])
        if be is None or n > MAX_BITS:
            return None
        e, strict, pm, pos, hxs = be
        rw = pm if pm in (8, 16, 32, 64) else 64
        if not _rb_seekable(be, rw):
            return None
        return 'S e=%s rw=%d strict=%s data=%s :: seek %d ; gc %d ; pos ; wf ; wd' % (e, rw, strict, hxs, pos, n)
    return None
