#!/usr/bin/env python3
"""Translator for the code bodies over the bit-stream traits that tools/translate_len.py leaves out:

  lean/Dsi/Gen/TableFns.lean     `read_table_be/le`, `len_table_be/le`, `write_table_be/le` of
                                 src/codes/{gamma,delta,zeta}_tables.rs and the `*Param` trait impls of
                                 src/codes/{gamma,delta,zeta}.rs (which table module and which
                                 endianness each impl uses is read off the text)
  lean/Dsi/Gen/OmegaBodies.lean  `recursive_write`, `OmegaWrite::write_omega`, `OmegaRead::read_omega`
  lean/Dsi/Gen/VByteBodies.lean  `read_vbyte_be/le`, `write_vbyte_be/le` (bit-stream traits)

as WProg / RProg terms (lean/Dsi/Prog.lean), via the engine of tools/rscps.py.  The equality /
`Guarded` theorems are in lean/Dsi/Props/{TableFnsGen,OmegaGen,VByteGen}.lean.

Effects (receiver = `self` / the `&mut B` parameter):
   recv.read_bits(n)?          .readBits n fun r =>        recv.write_bits(v, n)?   .writeBits v n fun r =>
   recv.read_unary()?          .readUnary fun r =>         recv.write_unary(v)?     .writeUnary v fun r =>
   recv.peek_bits(n)?          .peek n fun | .error er => .fail er | .ok r =>
   if let Ok(x) = recv.peek_bits(n) { A } B     .peek n fun | .ok x => (A; B) | .error _ => (B)
   recv.skip_bits_after_peek(n);                .skipAfterPeek n <|
   f(recv, args)? / recv.f(args)? for a translated f        (f args).bind fun r =>
   TABLE[i]                    match T[i]? with | none => .panic | some x =>   (the bounds check)
   TABLE.get(i)                T[i]?
   TypeId::of::<E>() == TypeId::of::<LE>()      e = Endian.le   (`e`: the endianness parameter)
   E::IS_LITTLE / E::IS_BIG                     e = Endian.le / e = Endian.be   (what the type names and the constants
                                                are is read from src/traits/endianness.rs: tools/translate_endian.py)
Like in translate_len.py the integer arithmetic carries no overflow panics (outside the domain of
the theorems); `<<` wraps at the width of its left operand; `as u8` is `% 256`.

Loops: see FUEL.  Called from translate.py: main(write_if_changed, HEADER, src, TranslateError).
"""
import os, re, sys
sys.path.insert(0, os.path.dirname(os.path.abspath(__file__)))
from rstok import tokenize
import rsx, rscps
from rsx import err, lean_id, par, P_ATOM, P_APP, P_CMP, WIDTH
from rscps import Cps, Domain, K, UNIT, wrap, lean_ty

TABLE_MODS = {'gamma_tables': 'Gamma', 'delta_tables': 'Delta', 'zeta_tables': 'Zeta'}
TABLE_CONSTS = ('READ_BITS', 'WRITE_MAX', 'MISSING_VALUE_LEN_BE', 'MISSING_VALUE_LEN_LE', 'K')
TABLE_ARRAYS = ('READ_BE', 'READ_LEN_BE', 'READ_LE', 'READ_LEN_LE', 'WRITE_BE', 'WRITE_LEN_BE', 'WRITE_LE',
                'WRITE_LEN_LE', 'LEN')
# the selector types and their aliases, as src/traits/endianness.rs defines them (not assumed)
import translate_endian
from translate_endian import ENDIAN_NAMES

PRIMS = {'R': {'read_bits': ('.readBits', 1, 'u64'), 'read_unary': ('.readUnary', 0, 'u64')},
         'W': {'write_bits': ('.writeBits', 2, 'usize'), 'write_unary': ('.writeUnary', 1, 'usize')}}

# loop / recursion fuel: function -> (fuel at the call site | 'fuel' = a parameter of the generated
# definition, outcome when the fuel runs out, why)
FUEL = {
    'recursive_write': ('8', '.ret 0', [
        'the argument of the recursive call is `ilog2` of the current one: from a u64 the chain is',
        'n <= 2^64 - 1, then <= 63, <= 5, <= 2, <= 1 (stop): at most 5 nested calls, 8 is ample.',
        '(Out of fuel nothing is written, like `omegaWriteRec`.)']),
    'read_omega': ('8', '.dpanic', [
        'every round reads `n + 1` bits into the new `n`: n = 1, then < 2^2, < 2^4, < 2^16, and the',
        'next `read_bits` asks for more than 64 bits (refused by every reader): 8 rounds are ample.']),
    'read_vbyte_be': ('fuel', '.dpanic', [
        'one round per continuation byte of the input: the bound is a parameter (`readVByteBe`).']),
    'read_vbyte_le': ('fuel', '.dpanic', [
        'one round per byte of the input: the bound is a parameter (`readVByteLe`).']),
    'write_vbyte_be': ('10', '.dpanic', [
        'every round performs `value >>= 7` after `value -= 1` and stops at 0: from a u64 at most 9',
        'rounds follow the first byte (10 bytes in all).']),
    'write_vbyte_le': ('10', '.dpanic', [
        'every round performs `value >>= 7` and stops at 0 (`value -= 1` only makes it smaller): a u64',
        'is exhausted after at most 10 rounds.']),
}


def ret_type(txt, what):
    """the value type of a `Result<T, _>` / `Option<T>` / `Result<Option<T>, _>` return type"""
    t = txt.replace(' ', '')
    t = re.sub(r'^std::io::', '', t)

    def val(x):
        if x in WIDTH:
            return x
        if x.startswith('(') and x.endswith(')'):
            parts = x[1:-1].split(',')
            if all(p in WIDTH for p in parts):
                return ('tuple', parts)
        if x.startswith('Option<') and x.endswith('>'):
            return ('opt', val(x[7:-1]))
        err('%s: return type `%s`' % (what, txt))
    m = re.match(r'^Result<(.*),[A-Za-z:]+>$', t)
    if m:
        return 'result', val(m.group(1))
    m = re.match(r'^Result<(.*)>$', t)     # std::io::Result
    if m:
        return 'result', val(m.group(1))
    if t.startswith('Option<'):
        return 'option', val(t)
    err('%s: return type `%s`' % (what, txt))


class ProgDomain(Domain):
    def __init__(self, kind, recvs, known, tables=None, endian=None, fuel_key=None):
        self.kind = kind              # 'R' / 'W'
        self.recvs = recvs            # names that denote the bit stream
        self.known = known            # translated functions: name -> info
        self.tables = tables          # Lean namespace of the bare table constants (inside *_tables.rs)
        self.endian = endian          # endianness of the enclosing impl (`Endian.be` / `Endian.le`) or None = generic `e`
        self.fuel_key = fuel_key

    # ---- types
    def prog_type(self, cps):
        return '%s %s' % ('RProg' if self.kind == 'R' else 'WProg', par((lean_ty(cps.retval), P_APP if isinstance(cps.retval, tuple) and cps.retval[0] == 'opt' else P_ATOM), P_ATOM))

    def is_recv(self, e):
        return e[0] == 'var' and e[1] in self.recvs

    # ---- which translated function does a call denote?
    def callee(self, cps, e):
        """(info, generic-arg texts, value args) for `f(recv, ..)` / `f::<..>(recv, ..)` / `mod::f(recv, ..)` /
        `recv.f::<..>(..)`, else None"""
        if e[0] == 'call' and e[1][0] in ('var', 'path'):
            if e[1][0] == 'var':
                segs, gen = [e[1][1]], None
            else:
                segs, gen = e[1][1], e[1][2]
            args = e[2]
            recv_pos = [i for i, a in enumerate(args) if self.is_recv(a)]
            if len(recv_pos) != 1:
                return None
            key = None
            if len(segs) == 1:
                key = segs[0] if self.tables is None else '%s.%s' % (self.tables, segs[0])
                if key not in self.known and segs[0] in self.known:
                    key = segs[0]
            elif len(segs) == 2 and segs[0] in TABLE_MODS:
                key = '%s.%s' % (TABLE_MODS[segs[0]], segs[1])
            if key is None or key not in self.known:
                cps.fail('call of `%s`, which is not (yet) translated' % '::'.join(segs))
            return self.known[key], gen or [], [a for i, a in enumerate(args) if i != recv_pos[0]], recv_pos[0]
        if e[0] == 'method' and self.is_recv(e[1]) and e[2] in self.known:
            return self.known[e[2]], e[3], e[4], None
        return None

    def endian_of(self, cps, txt):
        if txt in ENDIAN_NAMES:
            return ENDIAN_NAMES[txt]
        if txt in ('_', 'E') or txt in cps.endian_generics:
            if self.endian is not None:
                return self.endian
            return cps.use('e')
        cps.fail('endianness argument `%s`' % txt)

    def call_text(self, cps, info, gen, args, env, recv_pos=None):
        """Lean application of a translated function"""
        if info['kind'] != self.kind:
            cps.fail('call of `%s` from the other interface' % info['name'])
        if recv_pos is not None and info.get('recv_pos') is not None and recv_pos != info['recv_pos']:
            cps.fail('call of `%s`: the bit stream is passed at another position' % info['name'])
        # generic arguments: positional over the callee's generics; flags are Bool terms, the endianness
        # selects the variant / is passed on, other type arguments must be `_` / Self / a type parameter
        flags = []
        endian = None
        g = info['generics']
        if gen and len(gen) != len(g):
            cps.fail('call of `%s` with %d generic arguments, expected %d' % (info['name'], len(gen), len(g)))
        for i, (gk, gname, gbound) in enumerate(g):
            a = gen[i] if gen else None
            if gk == 'const':
                if a is None:
                    cps.fail('call of `%s` without its const arguments' % info['name'])
                if a in ('true', 'false'):
                    flags.append(a)
                elif env.get(a) == 'bool':
                    flags.append(lean_id(a))
                else:
                    cps.fail('const argument `%s`' % a)
            elif gbound.replace(' ', '') == 'Endianness':
                endian = self.endian_of(cps, a if a is not None else '_')
            else:
                if a is not None and a not in ('_', 'Self') and a not in cps.type_generics:
                    cps.fail('type argument `%s` of `%s`' % (a, info['name']))
        if len(args) != info['nparams']:
            cps.fail('call of `%s` with %d arguments, expected %d' % (info['name'], len(args), info['nparams']))
        if info.get('variants'):
            # per-endianness impls: the receiver's endianness selects the variant
            en = endian or (self.endian if self.endian is not None else None)
            if en is None:
                cps.fail('call of `%s` from a context of unknown endianness' % info['name'])
            head = info['variants'][en]
        else:
            head = info['lean']
        parts = [head]
        for ext in info.get('externs', []):
            # callees that the straight-line translator left as parameters: the variant of the endianness
            en = endian or self.endian
            if en is None:
                cps.fail('call of `%s`, whose callee `%s` depends on the endianness' % (info['name'], ext))
            if ext not in self.known or not self.known[ext].get('variants'):
                cps.fail('call of `%s`: its callee `%s` is not translated' % (info['name'], ext))
            ei = self.known[ext]
            head2 = ei['variants'][en]
            imps = [cps.use(i) for i in ei['implicits'] if i != 'e']
            parts.append(par((' '.join([head2] + imps), P_APP if imps else P_ATOM), P_ATOM))
        for i in info['implicits']:
            if i == 'fuel':
                parts.append(cps.use('fuel') if info['fuel'] == 'fuel' else info['fuel'])
            elif i == 'e':
                parts.append(par((endian or self.endian_of(cps, '_'), P_ATOM), P_ATOM))
            else:
                parts.append(cps.use(i))
        parts += flags
        for a in args:
            parts.append(par(cps.pure.ex(a, env), P_ATOM))
        return ' '.join(parts), (P_APP if len(parts) > 1 else P_ATOM)

    # ---- effects
    def table_array(self, e):
        if e[0] == 'var' and self.tables is not None and e[1] in TABLE_ARRAYS:
            return '%s.%s' % (self.tables, e[1])
        if e[0] == 'path' and len(e[1]) == 2 and e[1][0] in TABLE_MODS and e[1][1] in TABLE_ARRAYS and e[2] is None:
            return '%s.%s' % (TABLE_MODS[e[1][0]], e[1][1])
        return None

    def is_effect(self, cps, e):
        k = e[0]
        if k == 'try':
            x = e[1]
            if x[0] == 'method' and self.is_recv(x[1]) and (x[2] in PRIMS[self.kind] or (self.kind == 'R' and x[2] == 'peek_bits')):
                return True
            if self.callee(cps, x) is not None:
                return True
            cps.fail('`?` on something that is not a call on the bit stream')
        if k == 'method' and self.is_recv(e[1]) and e[2] == 'skip_bits_after_peek':
            return True
        if k == 'method' and self.is_recv(e[1]) and e[2] in ('skip_bits', 'flush', 'peek_bits') + tuple(PRIMS['R']) + tuple(PRIMS['W']):
            cps.fail('`.%s(..)` without `?`' % e[2])
        if k == 'index' and self.table_array(e[1]) is not None:
            return True
        return False

    def effect(self, cps, e, env, hint):
        k = e[0]
        var = hint if hint not in (None,) else None
        if k == 'index':
            arr = self.table_array(e[1])
            i = cps.pure.ex(e[2], env)
            v = var if var not in (None, '_') else cps.fresh()
            return (['match %s[%s]? with' % (arr, i[0]), '| none => .panic   -- index out of bounds', '| some %s =>' % v],
                    (v, P_ATOM, 'lit'))
        if k == 'method' and e[2] == 'skip_bits_after_peek':
            if self.kind != 'R' or len(e[4]) != 1 or e[3]:
                cps.fail('skip_bits_after_peek')
            n = cps.pure.ex(e[4][0], env)
            return (['.skipAfterPeek %s <|' % par(n, P_ATOM)], UNIT)
        x = e[1]
        if x[0] == 'method' and self.is_recv(x[1]) and x[2] == 'peek_bits':
            if len(x[4]) != 1 or x[3]:
                cps.fail('peek_bits')
            n = cps.pure.ex(x[4][0], env)
            v = var if var not in (None, '_') else cps.fresh()
            return (['.peek %s fun' % par(n, P_ATOM), '| .error er => .fail er', '| .ok %s =>' % v], (v, P_ATOM, 'u64'))
        if x[0] == 'method' and self.is_recv(x[1]) and x[2] in PRIMS[self.kind]:
            ctor, n, ty = PRIMS[self.kind][x[2]]
            if len(x[4]) != n or x[3]:
                cps.fail('`%s` with %d arguments' % (x[2], len(x[4])))
            v = var if var is not None else cps.fresh()
            return ([' '.join([ctor] + [par(cps.pure.ex(a, env), P_ATOM) for a in x[4]] + ['fun %s =>' % v])], (v, P_ATOM, ty))
        c = self.callee(cps, x)
        info, gen, args, rp = c
        if info['ret'][0] != 'result':
            cps.fail('`?` on `%s`, which does not return a Result' % info['name'])
        t, p = self.call_text(cps, info, gen, args, env, rp)
        v = var if var is not None else cps.fresh()
        return (['(%s).bind fun %s =>' % (t, v) if p < P_ATOM else '%s.bind fun %s =>' % (t, v)], (v, P_ATOM, info['ret'][1]))

    # ---- pure extras
    def pure(self, cps, e, env):
        k = e[0]
        if k == 'var' and self.tables is not None and e[1] in TABLE_CONSTS and e[1] not in env:
            return ('%s.%s' % (self.tables, e[1]), P_ATOM, 'lit')
        if k == 'path' and len(e[1]) == 2 and e[1][0] in TABLE_MODS and e[1][1] in TABLE_CONSTS and e[2] is None:
            return ('%s.%s' % (TABLE_MODS[e[1][0]], e[1][1]), P_ATOM, 'lit')
        if k == 'method' and e[2] == 'get' and len(e[4]) == 1 and not e[3] and self.table_array(e[1]) is not None:
            i = cps.pure.ex(e[4][0], env)
            return ('%s[%s]?' % (self.table_array(e[1]), i[0]), P_ATOM, ('opt', 'lit'))
        if k == 'path' and len(e[1]) == 2 and e[2] is None and e[1][1] in translate_endian.CONST_TESTS:
            # `E::IS_LITTLE` / `E::IS_BIG`: decided with the constants src/traits/endianness.rs defines
            T = e[1][0]
            if T in ENDIAN_NAMES:
                term = ENDIAN_NAMES[T]
            elif T in cps.endian_generics:
                term = self.endian if self.endian is not None else cps.use('e')
            else:
                cps.fail('`%s::%s`: %s is not an endianness' % (T, e[1][1], T))
            return (translate_endian.endian_test(e[1][1], term), P_CMP, 'prop')
        if k == 'bin' and e[1] in ('==', '!='):
            a, b = self.type_id(cps, e[2]), self.type_id(cps, e[3])
            if a is not None and b is not None:
                return ('%s %s %s' % (a, '=' if e[1] == '==' else '≠', b), P_CMP, 'prop')
            if a is not None or b is not None:
                cps.fail('TypeId compared with something else')
        return None

    def type_id(self, cps, e):
        """`core::any::TypeId::of::<T>()` -> the Lean endianness term of T"""
        if e[0] == 'call' and e[1][0] == 'path' and e[1][1][-2:] == ['TypeId', 'of'] and not e[2]:
            if e[1][1] not in (['core', 'any', 'TypeId', 'of'], ['std', 'any', 'TypeId', 'of'], ['TypeId', 'of']):
                cps.fail('path `%s`' % '::'.join(e[1][1]))
            g = e[1][2]
            if not g or len(g) != 1:
                cps.fail('TypeId::of without one type argument')
            t = g[0]
            if t in ENDIAN_NAMES:
                return ENDIAN_NAMES[t]
            if t in cps.endian_generics:
                return self.endian if self.endian is not None else cps.use('e')
            cps.fail('TypeId::of::<%s>' % t)
        return None

    # ---- if let
    def iflet(self, cps, pat, e, env, ind, then_k, else_k):
        pad = '  ' * ind
        if pat[0] == 'pctor' and pat[1] == 'Ok' and len(pat[2]) == 1 and e[0] == 'method' and self.is_recv(e[1]) \
                and e[2] == 'peek_bits' and self.kind == 'R' and len(e[4]) == 1:
            lines = []
            n = cps.pure.ex(cps.hoist(e[4][0], env, lines, pad), env)
            ptxt, binds = cps.pat_text(pat[2][0], 'u64')
            for x in binds:
                cps.note(x)
            env2 = dict(env)
            env2.update(binds)
            return lines + [pad + '.peek %s fun' % par(n, P_ATOM), pad + '| .ok %s =>' % ptxt] + wrap(then_k(env2, ind + 1)) + \
                [pad + '| .error _ =>'] + wrap(else_k(env, ind + 1))
        if pat[0] == 'pctor' and pat[1] == 'Some' and len(pat[2]) == 1:
            x = e[1] if e[0] == 'try' else e
            c = self.callee(cps, x) if x[0] in ('call', 'method') else None
            if c is not None:
                info, gen, args, rp = c
                want = 'result' if e[0] == 'try' else 'option'
                if info['ret'][0] != want or not (isinstance(info['ret'][1], tuple) and info['ret'][1][0] == 'opt'):
                    cps.fail('`if let Some(..) = %s(..)%s`: the callee does not return an Option that way' % (info['name'], '?' if e[0] == 'try' else ''))
                lines = []
                args2 = [cps.hoist(a, env, lines, pad) for a in args]
                t, p = self.call_text(cps, info, gen, args2, env, rp)
                ptxt, binds = cps.pat_text(pat[2][0], info['ret'][1][1])
                for b in binds:
                    cps.note(b)
                env2 = dict(env)
                env2.update(binds)
                head = '(%s).bind fun' % t if p < P_ATOM else '%s.bind fun' % t
                return lines + [pad + head, pad + '| some %s =>' % ptxt] + wrap(then_k(env2, ind + 1)) + \
                    [pad + '| none =>'] + wrap(else_k(env, ind + 1))
            lines = []
            s = cps.pure.ex(cps.hoist(e, env, lines, pad), env)
            if not (isinstance(s[2], tuple) and s[2][0] == 'opt'):
                cps.fail('`if let Some(..)` on a value of type %r' % (s[2],))
            ptxt, binds = cps.pat_text(pat[2][0], s[2][1])
            for b in binds:
                cps.note(b)
            env2 = dict(env)
            env2.update(binds)
            return lines + [pad + 'match %s with' % s[0], pad + '| some %s =>' % ptxt] + wrap(then_k(env2, ind + 1)) + \
                [pad + '| none =>'] + wrap(else_k(env, ind + 1))
        return None

    # ---- results
    def final(self, cps, e, env, ind):
        pad = '  ' * ind
        kind, vty = cps.retkind, cps.retval
        if e is not None and e[0] == 'if' and e[3] is not None:
            # `if c { tail } else { tail }` as the result: each branch ends in its own result
            def tailret(blk):
                if blk and blk[-1][0] == 'expr' and not blk[-1][2] and blk[-1][1][0] not in ('return', 'break'):
                    return blk[:-1] + [('expr', ('return', blk[-1][1]), True)]
                return blk
            Kf = K(fall=None, value=None, ret=lambda e2, env2, ind2: self.final(cps, e2, env2, ind2))
            return cps.value(('if', e[1], tailret(e[2]), tailret(e[3])), env, ind, Kf, None)
        if kind == 'result':
            if e is None:
                cps.fail('`return;`')
            if e[0] == 'call' and e[1] == ('var', 'Ok') and len(e[2]) == 1:
                return cps.value(e[2][0], env, ind, K(ret=None), lambda t, env2, ind2: self.ret_line(cps, t, ind2))
            c = self.callee(cps, e) if e[0] in ('call', 'method') else None
            if c is not None:
                info, gen, args, rp = c
                if info['ret'] != (kind, vty):
                    cps.fail('tail call of `%s`, which returns something else' % info['name'])
                lines = []
                args2 = [cps.hoist(a, env, lines, pad) for a in args]
                t, p = self.call_text(cps, info, gen, args2, env, rp)
                return lines + [pad + t]
            cps.fail('the result is neither `Ok(..)` nor the call of a translated function')
        return cps.value(e, env, ind, K(ret=None), lambda t, env2, ind2: self.ret_line(cps, t, ind2))

    def ret_line(self, cps, t, ind):
        vty = cps.retval
        if not self.compatible(t[2], vty):
            cps.fail('the result has type %r, expected %r' % (t[2], vty))
        return ['  ' * ind + '.ret %s' % par(t, P_ATOM)]

    @staticmethod
    def compatible(a, b):
        if a == b or a == 'lit' and b in WIDTH or b == 'lit' and (a in WIDTH):
            return True
        if isinstance(a, tuple) and isinstance(b, tuple) and a[0] == b[0]:
            if a[0] == 'opt':
                return a[1] == 'lit' or ProgDomain.compatible(a[1], b[1])
            if a[0] == 'tuple':
                return len(a[1]) == len(b[1]) and all(ProgDomain.compatible(x, y) for x, y in zip(a[1], b[1]))
        if a in WIDTH and b in WIDTH:
            return WIDTH[a] == WIDTH[b]      # u64 / usize
        return False

    FUEL = FUEL

    def out_of_fuel(self, cps, lname, state, has_k):
        return '%s   -- out of fuel' % self.FUEL[self.fuel_key][1]

    def fuel_of(self, cps, lname):
        if self.fuel_key not in self.FUEL:
            cps.fail('a loop in a function without a declared fuel')
        return self.FUEL[self.fuel_key][0]


class ProgCps(Cps):
    """one function -> one Lean definition (plus its loops)"""

    def __init__(self, fn, dom, implicits, lean_name, rel, recursive=False):
        Cps.__init__(self, fn, dom, implicits, lean_name=lean_name)
        self.rel = rel
        self.retkind, self.retval = ret_type(fn['ret'] or '', fn['what'])
        self.endian_generics = [g[1] for g in fn['generics'] if g[0] == 'type' and g[2].replace(' ', '') == 'Endianness'] + \
            list(fn.get('outer_endian', []))
        self.type_generics = [g[1] for g in fn['generics'] if g[0] == 'type'] + list(fn.get('outer_types', []))
        self.recursive = recursive
        self.lines = None

    def run(self):
        fn = self.fn
        env = {}
        binders = ''
        for gk, gname, gb in fn['generics']:
            if gk == 'const':
                if gb != 'bool':
                    self.fail('const generic of type %s' % gb)
                env[gname] = 'bool'
                self.note(gname)
                binders += '(%s : Bool) ' % lean_id(gname)
        for x, mut, ty in fn['params']:
            if x in self.dom.recvs:
                continue
            if ty not in WIDTH:
                self.fail('parameter `%s` of type `%s`' % (x, ty))
            env[x] = ty
            self.note(x)
            binders += '(%s : Nat) ' % lean_id(x)
        Ktop = K(fall=None, value=lambda t_unused, env2, ind2: None, ret=lambda e, env2, ind2: self.dom.final(self, e, env2, ind2))
        # the value of the body is its result
        body = self.body_lines(fn['body'], env)
        T = self.dom.prog_type(self)
        out = []
        for _, lines in self.aux:
            out += lines
        fk = self.dom.fuel_key
        doc = '/-- `%s` (%s)' % (fn['what'], self.rel)
        if self.recursive:
            fuel, oof, why = self.dom.FUEL[fk]
            self.use('fuel')
            out.append(doc + ', its recursion bounded by a fuel argument.  Fuel %s:' % fuel)
            out += ['    ' + w for w in why]
            out[-1] += ' -/'
            out.append('def %s %s%s: %s :=' % (self.name, self.imp_binders(), binders, T))
            out.append('  match fuel with')
            out.append('  | 0 => %s   -- out of fuel' % oof)
            out.append('  | fuel + 1 =>')
            out += ['  ' + l for l in body]
        else:
            if self.aux and fk in self.dom.FUEL:
                F = self.dom.FUEL
                out.append(doc + ('.  Fuel: a parameter;' if F[fk][0] == 'fuel' else '.  Fuel %s:' % F[fk][0]))
                out += ['    ' + w for w in F[fk][2]]
                out[-1] += ' -/'
            else:
                out.append(doc + ' -/')
            out.append('def %s %s%s: %s :=' % (self.name, self.imp_binders(), binders, T))
            out += body
        self.lines = out

    def body_lines(self, stmts, env):
        final = lambda e, env2, ind2: self.dom.final(self, e, env2, ind2)
        # the tail expression of the body is returned: route it through `final` as an AST
        if not stmts:
            self.fail('empty body')
        last = stmts[-1]
        if last[0] == 'expr' and not last[2] and last[1][0] not in ('return', 'break'):
            stmts = stmts[:-1] + [('expr', ('return', last[1]), True)]
        return self.seq(stmts, env, 1, K(fall=None, value=None, ret=final, brk=None))


class RecDomain(ProgDomain):
    """a self-recursive free function: the recursive call passes `fuel`"""
    pass


def fn_info(c, fn, kind, lean=None, variants=None, recv_pos=None):
    nparams = len([p for p in fn['params'] if p[0] not in c.dom.recvs])
    return dict(name=fn['name'], kind=kind, lean=lean or c.name, variants=variants, generics=fn['generics'],
                nparams=nparams, ret=(c.retkind, c.retval), implicits=[i for i in Domain.IMPLICIT_ORDER if i in c.used],
                recv_pos=recv_pos, fuel=c.dom.FUEL.get(fn['name'], ('8',))[0])


def recv_position(fn, recvs):
    for i, (x, _, _) in enumerate(fn['params']):
        if x in recvs:
            return i
    return None


def one_fn(toks, idx, what, rel, kind, known, lean_name, tables=None, endian=None, outer_endian=(), outer_types=(),
           recursive=False, dom_cls=None, fuel_table=None):
    fn = rsx.parse_fn_at(toks, idx, what)
    fn['outer_endian'] = list(outer_endian)
    fn['outer_types'] = list(outer_types)
    recvs = ['self'] if fn['recv'] else []
    for x, mut, ty in fn['params']:
        if ty.replace(' ', '').startswith('&mut'):
            recvs.append(x)
    if len(recvs) != 1:
        err('%s: expected exactly one bit-stream receiver' % what)
    if fn['recv'] not in (None, '&mut self'):
        err('%s: receiver `%s`' % (what, fn['recv']))
    fkey = fn['name']
    known2 = dict(known)
    if recursive:
        # the function may call itself: register a provisional entry that passes `fuel`
        pass

    def make(implicits):
        dom = (dom_cls or ProgDomain)(kind, recvs, known2, tables=tables, endian=endian, fuel_key=fkey)
        if fuel_table is not None:
            dom.FUEL = fuel_table
        c = ProgCps(fn, dom, implicits, lean_name, rel, recursive=recursive)
        if recursive:
            rk, rv = ret_type(fn['ret'] or '', what)
            imps = [i for i in Domain.IMPLICIT_ORDER if i in implicits or i == 'fuel']
            known2[fn['name']] = dict(name=fn['name'], kind=kind, lean=lean_name, variants=None, generics=fn['generics'],
                                      nparams=len([p for p in fn['params'] if p[0] not in recvs]), ret=(rk, rv),
                                      implicits=imps, recv_pos=recv_position(fn, recvs), fuel='fuel')
        return c
    c = rscps.translate(make, fn)
    info = fn_info(c, fn, kind, recv_pos=recv_position(fn, recvs))
    if recursive and 'fuel' not in info['implicits']:
        info['implicits'] = ['fuel'] + info['implicits']
    return c, info


def find_one(toks, name, rel, a=0, b=None):
    hits = rsx.find_fns(toks, a, len(toks) if b is None else b, name)
    # only functions with a body
    out = []
    for h in hits:
        j = h
        while toks[j][1] not in ('{', ';'):
            j += 1
        if toks[j][1] == '{':
            out.append(h)
    if len(out) != 1:
        err('%s: expected exactly one `fn %s` with a body, found %d' % (rel, name, len(out)))
    return out[0]


def defined_once(toks, name, rel):
    """`fn name` with a body must occur exactly once in the whole file, at any depth: a second definition (an impl
    that overrides the trait's default body, an inherent method of the same name) would make the
    translated body not the one that runs"""
    n = 0
    for i in range(len(toks) - 1):
        if toks[i] == ('id', 'fn') and toks[i + 1] == ('id', name):
            j = i
            while toks[j][1] not in ('{', ';'):
                j += 1
            if toks[j][1] == '{':          # declarations `fn name(..);` do not count
                n += 1
    if n != 1:
        err('%s: `fn %s` is defined %d times (an impl overriding the trait default?)' % (rel, name, n))


def find_in_container(toks, keyword, pred, name, rel, descr):
    """the `fn name` (with a body) inside the one `trait`/`impl` block whose header satisfies pred"""
    found = []
    i = 0
    while i < len(toks):
        if toks[i] == ('id', keyword):
            j = i + 1
            while not (toks[j][0] == 'p' and toks[j][1] in ('{', ';')):
                j += 1
            if toks[j][1] == ';':
                i = j + 1
                continue
            hdr = rsx.text_of(toks[i:j])
            c = rsx.match_close(toks, j)
            if pred(hdr):
                found.append((hdr, j, c))
            i = c + 1
            continue
        if toks[i][0] == 'p' and toks[i][1] == '{':
            i = rsx.match_close(toks, i) + 1
            continue
        i += 1
    if len(found) != 1:
        err('%s: expected exactly one %s, found %d' % (rel, descr, len(found)))
    hdr, o, c = found[0]
    return find_one(toks, name, '%s: %s' % (rel, descr), o + 1, c), hdr


# --------------------------------------------------------------------------------------
# the three generated files
# --------------------------------------------------------------------------------------

def codebodies_known(src):
    """signatures of the definitions of lean/Dsi/Gen/CodeBodies.lean (tools/translate_len.py)"""
    import translate_len as TL
    TL.TE = rsx.Ctx.TE
    known = {}
    toks_of = {}
    out = {}
    for rel, name, kind in TL.PROG_FUNCS:
        if rel not in toks_of:
            toks_of[rel] = tokenize(src(rel))
        fn = TL.parse_fn_prog(toks_of[rel], name, rel)
        em = TL.ProgEmitter(fn, known, kind)
        em.emit()
        known[name] = dict(kind=kind, nflags=len(fn['flags']), nparams=len(fn['params']), checks=em.uses_checks,
                           externs=list(em.externs))
        i = TL.find_fn(toks_of[rel], name, rel)
        fn2 = rsx.parse_fn_at(toks_of[rel], i, '%s: fn %s' % (rel, name))
        rk = ret_type(fn2['ret'], name)
        recvs = [x for x, _, ty in fn2['params'] if ty.replace(' ', '').startswith('&mut')]
        out[name] = dict(name=name, kind=kind, lean=name, variants=None, generics=fn2['generics'],
                         nparams=len(fn['params']), ret=rk, implicits=(['checks'] if em.uses_checks else []),
                         externs=[e[0] for e in em.externs], recv_pos=recv_position(fn2, recvs + ['self']), fuel='8')
    return out


def gen_tables(src):
    rsx.Ctx.rel = 'src/codes'
    known = codebodies_known(src)
    out = []
    # 1. the table functions
    for modfile, ns in (('gamma_tables', 'Gamma'), ('delta_tables', 'Delta'), ('zeta_tables', 'Zeta')):
        rel = 'src/codes/%s.rs' % modfile
        rsx.Ctx.rel = rel
        toks = tokenize(src(rel))
        rsx.check_no_alias(toks, rel)
        out.append('namespace %s' % ns)
        out.append('')
        for name, kind, bound in (('read_table_be', 'R', 'BE'), ('read_table_le', 'R', 'LE'),
                                  ('len_table_be', 'R', 'BE'), ('len_table_le', 'R', 'LE'),
                                  ('write_table_be', 'W', 'BE'), ('write_table_le', 'W', 'LE')):
            i = find_one(toks, name, rel)
            c, info = one_fn(toks, i, 'fn %s' % name, rel, kind, known, name, tables=ns, endian=ENDIAN_NAMES[bound])
            fn = c.fn
            b = [g for g in fn['generics'] if g[0] == 'type']
            want = ('BitRead<%s' if kind == 'R' else 'BitWrite<%s') % bound
            if len(b) != 1 or b[0][2].replace(' ', '').rstrip('>') != want:
                err('%s: fn %s: the backend is not bounded by `%s>`' % (rel, name, want))
            if c.used:
                err('%s: fn %s: unexpected implicit parameters %r' % (rel, name, sorted(c.used)))
            info['lean'] = '%s.%s' % (ns, name)
            known['%s.%s' % (ns, name)] = info
            out += c.lines + ['']
        out.append('end %s' % ns)
        out.append('')
    # 2. the *Param impls
    IMPLS = [
        ('src/codes/gamma.rs', 'GammaReadParam', 'R', ['read_gamma_param']),
        ('src/codes/gamma.rs', 'GammaWriteParam', 'W', ['write_gamma_param']),
        ('src/codes/delta.rs', 'DeltaReadParam', 'R', ['read_delta_param']),
        ('src/codes/delta.rs', 'DeltaWriteParam', 'W', ['write_delta_param']),
        ('src/codes/zeta.rs', 'ZetaReadParam', 'R', ['read_zeta_param', 'read_zeta3_param']),
        ('src/codes/zeta.rs', 'ZetaWriteParam', 'W', ['write_zeta_param', 'write_zeta3_param']),
    ]
    toks_of = {}
    for rel, trait, kind, methods in IMPLS:
        rsx.Ctx.rel = rel
        if rel not in toks_of:
            toks_of[rel] = tokenize(src(rel))
            rsx.check_no_alias(toks_of[rel], rel)
        toks = toks_of[rel]
        for m in methods:
            variants = {}
            infos = []
            for E in ('BE', 'LE'):
                pred = lambda hdr, E=E: re.search(r'\b%s < %s > for B\b' % (trait, E), hdr) is not None
                idx, hdr = find_in_container(toks, 'impl', pred, m, rel, '`impl %s<%s> for B`' % (trait, E))
                lean_name = '%s_%s' % (m, E.lower())
                c, info = one_fn(toks, idx, 'impl %s<%s> for B: fn %s' % (trait, E, m), rel, kind, known, lean_name,
                                 endian=ENDIAN_NAMES[E], outer_types=['B'])
                variants[ENDIAN_NAMES[E]] = lean_name
                infos.append(info)
                out += c.lines + ['']
            a, b = infos
            if (a['implicits'], a['generics'], a['nparams'], a['ret']) != (b['implicits'], b['generics'], b['nparams'], b['ret']):
                err('%s: the BE and LE impls of `%s` have different signatures' % (rel, m))
            a['variants'] = variants
            known[m] = a
    return out


def gen_omega(src):
    rel = 'src/codes/omega.rs'
    rsx.Ctx.rel = rel
    toks = tokenize(src(rel))
    rsx.check_no_alias(toks, rel)
    known = {}
    out = []
    for nm in ('recursive_write', 'write_omega', 'read_omega'):
        defined_once(toks, nm, rel)
    i = find_one(toks, 'recursive_write', rel)
    c, info = one_fn(toks, i, 'fn recursive_write', rel, 'W', known, 'recursive_write', recursive=True)
    known['recursive_write'] = info
    out += c.lines + ['']
    i, hdr = find_in_container(toks, 'trait', lambda h: re.search(r'\btrait OmegaWrite < (\w+) : Endianness >', h) is not None,
                               'write_omega', rel, '`trait OmegaWrite<E: Endianness>`')
    E = re.search(r'\btrait OmegaWrite < (\w+) : Endianness >', hdr).group(1)
    c, info = one_fn(toks, i, 'OmegaWrite::write_omega', rel, 'W', known, 'write_omega', outer_endian=[E])
    out += c.lines + ['']
    i, hdr = find_in_container(toks, 'trait', lambda h: re.search(r'\btrait OmegaRead < (\w+) : Endianness >', h) is not None,
                               'read_omega', rel, '`trait OmegaRead<E: Endianness>`')
    E = re.search(r'\btrait OmegaRead < (\w+) : Endianness >', hdr).group(1)
    c, info = one_fn(toks, i, 'OmegaRead::read_omega', rel, 'R', known, 'read_omega', outer_endian=[E])
    out += c.lines + ['']
    return out


def gen_vbyte(src):
    rel = 'src/codes/vbyte.rs'
    rsx.Ctx.rel = rel
    toks = tokenize(src(rel))
    rsx.check_no_alias(toks, rel)
    out = []
    for trait, m, kind in (('VByteBeRead', 'read_vbyte_be', 'R'), ('VByteLeRead', 'read_vbyte_le', 'R'),
                           ('VByteBeWrite', 'write_vbyte_be', 'W'), ('VByteLeWrite', 'write_vbyte_le', 'W')):
        pred = lambda hdr, trait=trait: re.search(r'\b%s < E > for B\b' % trait, hdr) is not None
        defined_once(toks, m, rel)
        i, hdr = find_in_container(toks, 'impl', pred, m, rel, '`impl %s<E> for B`' % trait)
        c, info = one_fn(toks, i, 'impl %s<E> for B: fn %s' % (trait, m), rel, kind, {}, m, outer_endian=['E'], outer_types=['B'])
        if 'e' in c.used or 'checks' in c.used:
            err('%s: fn %s: unexpected implicit parameters %r' % (rel, m, sorted(c.used)))
        out += c.lines + ['']
    return out


FILES = [
    ('TableFns.lean', gen_tables, 'Dsi.Gen',
     ['import Dsi.Prog', 'import Dsi.Gen.TablesGamma', 'import Dsi.Gen.TablesDelta', 'import Dsi.Gen.TablesZeta',
      'import Dsi.Gen.CodeBodies'],
     ['-- (tools/translate_codes2.py: the table functions of src/codes/*_tables.rs and the `*Param` impls of',
      '-- src/codes/{gamma,delta,zeta}.rs as RProg / WProg terms.)']),
    ('OmegaBodies.lean', gen_omega, 'Dsi.Gen', ['import Dsi.Prog'],
     ['-- (tools/translate_codes2.py: the ω writer / reader of src/codes/omega.rs as WProg / RProg terms;',
      '-- `e` is the endianness type parameter `E`, `checks` the cargo feature.)']),
    ('VByteBodies.lean', gen_vbyte, 'Dsi.Gen', ['import Dsi.Prog'],
     ['-- (tools/translate_codes2.py: the VByte readers / writers over bit streams of src/codes/vbyte.rs.)']),
]


def main(write_if_changed, HEADER, src, TranslateError):
    rsx.Ctx.TE = TranslateError
    changed = []
    errors = []
    for fname, gen, ns, imports, note in FILES:
        head = [HEADER.rstrip('\n')] + note + imports + ['', 'namespace %s' % ns, 'open Dsi WProg RProg',
                                                         'set_option linter.unusedVariables false', '']
        try:
            body = gen(src)
        except TranslateError as ex:
            # fail closed: no stale definitions for the equality theorems to be about
            write_if_changed(fname, '\n'.join(head + ['-- TRANSLATION FAILED: %s' % str(ex).replace('\n', ' '), '',
                                                      'end %s' % ns, '']))
            errors.append(str(ex))
            continue
        if write_if_changed(fname, '\n'.join(head + body + ['end %s' % ns, ''])):
            changed.append(fname[:-5])
    if errors:
        raise TranslateError(' | '.join(errors))
    return changed


if __name__ == '__main__':
    import translate
    try:
        print(main(translate.write_if_changed, translate.HEADER, translate.src, translate.TranslateError))
    except translate.TranslateError as ex:
        print('translate: ERROR: %s' % ex)
        sys.exit(3)
