#!/usr/bin/env python3
"""Translator for the method bodies of src/utils/stats.rs -> lean/Dsi/Gen/StatsBodies.lean, statement by
statement (same names, same order).  The equality theorems (against the hand models `Stats.updateMany`,
`Stats.add`, `Stats.bestCode`, .. of lean/Dsi/Glue/Stats.lean and `StatsWrapper.read/write` of
lean/Dsi/Glue/StatsWrapper.lean) are in lean/Dsi/Props/StatsGen.lean.

Translated: the inherent methods of `CodesStats` (`update`, `update_many`, `add`, `best_code`), its
`Default` / `AddAssign` / `Add` / `Sum` impls, the inherent methods of `CodesStatsWrapper` (`new`, `stats`,
`into_inner`) and its `DynamicCodeRead` / `StaticCodeRead` / `DynamicCodeWrite` / `StaticCodeWrite` impls.

Every generated function returns `Res ..`: a `&mut self` method returns its value and the new `self`, a
method with `&mut` parameters returns them after the value, a `&self` method of the wrapper returns the
wrapper (its mutex has interior mutability).  `self` is the structure `Stats` (arrays are lists) resp.
`StatsWrapper W`; a `Codes` value is a `StatCodeId`; references are the values they point to.

  a + b, a * b  (u64 / usize)    if a + b ≥ 2 ^ 64 then .dpanic else   (the overflow check of a debug build;
                                 the optimised build wraps: unspecified in the model), then the `Nat` value
  a - b                          if a < b then .dpanic else, then a - b
  x += e;  self.F += e;  *v += e;   the guard of `+`, then  let x := x + e  /  let self := { self with F := .. }
  e as T                         e (same width) or e % 2 ^ w (narrower); `as _` takes the type the context
                                 (the parameter of the called function, the field of `Codes`) expects
  len_gamma(n), len_zeta(n, k), ..    the definitions of lean/Dsi/Gen/LenFormulas.lean (generated from the
                                 same functions); parameter types are read from src/codes/*.rs
  Codes::X / Codes::X { f: e }   (⟨.x, 0⟩ : StatCodeId) / (⟨.x, e⟩ : StatCodeId); variants and field types are
                                 read from src/dispatch/codes.rs
  macro_rules! m { ($a:expr, ..) => { .. } }   expanded at token level (arguments parenthesised, the
                                 expansion is a block), then translated like any other statement
  if c { .. } [else { .. }]      Res.bind (if c then (.. .ok vars) else (.. .ok vars)) fun vars =>   with
                                 `vars` the outer variables either branch assigns
  if c { ..; continue; }         if c then (.. <end of the loop body>) else <rest of the loop body>
  for (i, v) in A.iter().enumerate() { .. }            forEnum A vars fun i v vars => ..
  for (i, v) in A.iter_mut().enumerate() { .. }        forEnumMut A vars fun i v vars => .. .ok (v, vars)
  for (a, b) in A.iter_mut().zip(B.iter()) { .. }      forZipMut A B vars fun a b vars => .. .ok (a, vars)
                                 (lean/Dsi/Impl/StatsPrelude.lean); `A` is then replaced in its owner
  recv.m(args) for a translated method of `CodesStats`   Res.bind (CodesStats.m recv args) fun (r, recv) =>
  a + b, a += b on `CodesStats`  the translated `Add::add` / `AddAssign::add_assign`
  iter.fold(init, |a, b| e)      iterFold iter init fun a b => ..
  m.lock().unwrap()              Res.bind (Mutex.lockUnwrap m) fun g =>   exclusive access to the protected
                                 value; the guard is dropped at the end of the statement (of the function
                                 when bound by `let`):  let self := { self with stats := Mutex.release .. g }
  self.wrapped.read(reader)?     Res.bind (wrapped_read reader) fun (r, reader) =>   (`wrapped_read`,
  self.wrapped.write(w, v)?      `wrapped_write`: parameters of the generated definition; `?` is `Res.bind`)
  Ok(e) as the tail of a `Result` function                 .ok (e, ..)

Everything else raises TranslateError: in particular `try_lock` (not exclusive access: it fails when another
thread holds the lock), `while` / `loop`, `return`, indexing, `match`, a nested `let` that shadows a
variable, a `Result` that is not consumed by `?`.
"""
import os, re, sys
sys.path.insert(0, os.path.dirname(os.path.abspath(__file__)))
from rstok import tokenize, match_close, split_top
import rsx
from rsx import err, lean_id, par, P_ATOM, P_APP, P_CMP, P_ADD, P_MUL, P_AND, P_OR


class _Widths(dict):
    """`ty in WIDTH` for types that may be (unhashable) structured values"""

    def __contains__(self, k):
        return isinstance(k, str) and dict.__contains__(self, k)


WIDTH = _Widths(rsx.WIDTH)
# signed integer types: values are Lean `Int`s; only a cast from an unsigned value (two's-complement
# reinterpretation of the low bits) and comparisons are in the translated language
SIGNED = _Widths({'i8': 8, 'i16': 16, 'i32': 32, 'i64': 64, 'isize': 64, 'i128': 128})

REL = 'src/utils/stats.rs'
CODES_REL = 'src/dispatch/codes.rs'
CODES_DIR = 'src/codes'
CODE_FILES = ['gamma.rs', 'delta.rs', 'omega.rs', 'vbyte.rs', 'zeta.rs', 'golomb.rs', 'exp_golomb.rs', 'rice.rs',
              'pi.rs', 'minimal_binary.rs']

# Rust field of `CodesStats` -> field of the Lean structure `Dsi.Stats` (lean/Dsi/Glue/Stats.lean)
STAT_FIELDS = {'total': 'total', 'unary': 'unary', 'gamma': 'gamma', 'delta': 'delta', 'omega': 'omega',
               'vbyte': 'vbyte', 'zeta': 'zeta', 'golomb': 'golomb', 'exp_golomb': 'expGolomb', 'rice': 'rice',
               'pi': 'pi'}
STAT_ORDER = ['total', 'unary', 'gamma', 'delta', 'omega', 'vbyte', 'zeta', 'golomb', 'exp_golomb', 'rice', 'pi']
# variant of `dispatch::Codes` -> constructor of `Dsi.CodeFam` (lean/Dsi/Glue/StatsTypes.lean)
CODE_FAM = {'Unary': 'unary', 'Gamma': 'gamma', 'Delta': 'delta', 'Omega': 'omega', 'VByteLe': 'vbyteLe',
            'VByteBe': 'vbyteBe', 'Zeta': 'zeta', 'Pi': 'pi', 'Golomb': 'golomb', 'ExpGolomb': 'expGolomb',
            'Rice': 'rice'}
# the length functions with a generated definition in lean/Dsi/Gen/LenFormulas.lean
LEN_FUNCS = ('len_gamma', 'len_delta', 'len_omega', 'bit_len_vbyte', 'len_zeta', 'len_golomb', 'len_exp_golomb',
             'len_rice', 'len_pi', 'len_minimal_binary', 'byte_len_vbyte')
GENERICS = ['ZETA', 'GOLOMB', 'EXP_GOLOMB', 'RICE', 'PI']
# what the wrapped code object's methods return (traits `DynamicCodeRead`, `StaticCodeRead`, `DynamicCodeWrite`,
# `StaticCodeWrite` of src/dispatch/mod.rs): `Result<u64, _>` / `Result<usize, _>`
WRAPPED_RET = {'read': 'u64', 'write': 'usize'}

INT64 = ('u64', 'usize')
T_STATS = ('struct', 'CodesStats')
T_WRAP = ('struct', 'CodesStatsWrapper')
T_ARR = ('arr', 'u64')
T_CODES = 'Codes'
T_UNIT = ('tuple', [])
UNIT = ('()', P_ATOM, T_UNIT)


# --------------------------------------------------------------------------------------
# macro_rules! expansion (token level)
# --------------------------------------------------------------------------------------

def expand_macros(toks):
    out = list(toks)
    while True:
        i = None
        for j in range(len(out) - 3):
            if out[j] == ('id', 'macro_rules') and out[j + 1] == ('p', '!') and out[j + 2][0] == 'id':
                i = j
                break
        if i is None:
            return out
        name = out[i + 2][1]
        if out[i + 3] != ('p', '{'):
            err('macro_rules! %s: expected `{`' % name)
        c = match_close(out, i + 3)
        rules = out[i + 4:c]
        if not rules or rules[0] != ('p', '('):
            err('macro_rules! %s: expected one rule `( .. ) => { .. }`' % name)
        pc = match_close(rules, 0)
        params = []
        for part in split_top(rules[1:pc]):
            if len(part) != 4 or part[0] != ('p', '$') or part[1][0] != 'id' or part[2] != ('p', ':') or part[3] != ('id', 'expr'):
                err('macro_rules! %s: parameter `%s` is not `$name:expr`' % (name, rsx.text_of(part)))
            params.append(part[1][1])
        if len(rules) < pc + 3 or rules[pc + 1] != ('p', '=>') or rules[pc + 2] != ('p', '{'):
            err('macro_rules! %s: expected `=> { .. }`' % name)
        bc = match_close(rules, pc + 2)
        body = rules[pc + 3:bc]
        tail = rules[bc + 1:]
        if tail not in ([], [('p', ';')]):
            err('macro_rules! %s: more than one rule' % name)
        # the scope of the macro: up to the end of the enclosing block
        depth, e = 0, c + 1
        while e < len(out):
            k, x = out[e]
            if k == 'p' and x in ('{', '(', '['):
                depth += 1
            elif k == 'p' and x in ('}', ')', ']'):
                if depth == 0:
                    break
                depth -= 1
            e += 1
        if e >= len(out):
            err('macro_rules! %s: not inside a block' % name)
        scope = out[c + 1:e]
        # hygiene: a free name of the macro body means the variable visible at the definition; a later
        # `let` / `for` binding of that name in the scope would capture it in a textual expansion
        free = set()
        for j, (k, x) in enumerate(body):
            if k == 'id' and not (j > 0 and body[j - 1] == ('p', '$')):
                free.add(x)
        j = 0
        while j < len(scope):
            if scope[j] in (('id', 'let'), ('id', 'for')):
                stop = ('=', ':', ';') if scope[j][1] == 'let' else ('in',)
                m = j + 1
                while m < len(scope) and scope[m][1] not in stop:
                    if scope[m][0] == 'id' and scope[m][1] in free and scope[m][1] != 'mut':
                        err('macro_rules! %s: `%s`, used by the macro body, is bound again after the definition' % (name, scope[m][1]))
                    m += 1
                j = m
            j += 1
        # expand the invocations
        new = []
        j = 0
        while j < len(scope):
            if scope[j] == ('id', name) and j + 2 < len(scope) and scope[j + 1] == ('p', '!') and scope[j + 2][0] == 'p' and scope[j + 2][1] in ('(', '[', '{'):
                cc = match_close(scope, j + 2)
                args = split_top(scope[j + 3:cc])
                if len(args) != len(params):
                    err('%s!: %d arguments for %d parameters' % (name, len(args), len(params)))
                for a in args:
                    if any(t == ('id', name) for t in a):
                        err('%s!: nested invocation' % name)
                sub = dict(zip(params, args))
                exp = [('p', '{')]
                m = 0
                while m < len(body):
                    if body[m] == ('p', '$'):
                        if m + 1 >= len(body) or body[m + 1][0] != 'id' or body[m + 1][1] not in sub:
                            err('macro_rules! %s: unknown metavariable in the body' % name)
                        exp += [('p', '(')] + list(sub[body[m + 1][1]]) + [('p', ')')]
                        m += 2
                    else:
                        exp.append(body[m])
                        m += 1
                exp.append(('p', '}'))
                new += exp
                j = cc + 1
            else:
                new.append(scope[j])
                j += 1
        out = out[:i] + new + out[e:]


# --------------------------------------------------------------------------------------
# parser: tools/rsx.py plus struct literals and `continue`
# --------------------------------------------------------------------------------------

_BaseParser = rsx.Parser


class SParser(_BaseParser):
    NOT_PATH = ('true', 'false', 'if', 'match', 'return', 'break', 'loop', 'while', 'for', 'let', 'mut', 'as', 'in')

    def primary(self, nostruct):
        k, x = self.peek()
        if k == 'id' and x == 'continue':
            self.i += 1
            k2, x2 = self.peek()
            if not (k2 == 'p' and x2 in (';', '}', ',')):
                self.fail('`continue` with a label')
            return ('continue',)
        if k == 'id' and not nostruct and x not in self.NOT_PATH and x not in rsx.KEYWORDS_BAD:
            j = 0
            segs = [x]
            while self.peek(j + 1) == ('p', '::') and self.peek(j + 2)[0] == 'id':
                segs.append(self.peek(j + 2)[1])
                j += 2
            if self.peek(j + 1) == ('p', '{') and segs[-1][0].isupper():
                self.i += j + 2
                fields = []
                while not self.at('}'):
                    if self.at('..'):
                        self.fail('struct update syntax')
                    f = self.ident()
                    if self.at(':'):
                        self.i += 1
                        e = self.expr()
                    else:
                        e = ('var', f)
                    if any(f == g for g, _ in fields):
                        self.fail('field `%s` given twice' % f)
                    fields.append((f, e))
                    if self.at(','):
                        self.i += 1
                    elif not self.at('}'):
                        self.fail('expected `,` or `}` in a struct literal')
                self.eat('}')
                return ('struct', segs, fields)
        return _BaseParser.primary(self, nostruct)


def parse_fn(toks, i, what):
    saved = rsx.Parser
    rsx.Parser = SParser
    try:
        return rsx.parse_fn_at(toks, i, what)
    finally:
        rsx.Parser = saved


def show(e):
    """Rust-like text of an expression (for the comments of the generated file)"""
    k = e[0]
    if k == 'num':
        return str(e[1]) + (('_' + e[2]) if e[2] else '')
    if k == 'bool':
        return 'true' if e[1] else 'false'
    if k == 'var':
        return e[1]
    if k == 'path':
        return '::'.join(e[1])
    if k == 'paren':
        return '(%s)' % show(e[1])
    if k == 'cast':
        return '%s as %s' % (show(e[1]), e[2])
    if k == 'un':
        return (e[1] + ' ' if e[1] == '&mut' else e[1]) + show(e[2])
    if k == 'bin':
        return '%s %s %s' % (show(e[2]), e[1], show(e[3]))
    if k == 'field':
        return '%s.%s' % (show(e[1]), e[2])
    if k == 'call':
        return '%s(%s)' % (show(e[1]), ', '.join(show(a) for a in e[2]))
    if k == 'method':
        return '%s.%s(%s)' % (show(e[1]), e[2], ', '.join(show(a) for a in e[4]))
    if k == 'try':
        return show(e[1]) + '?'
    if k == 'tuple':
        return '(%s)' % ', '.join(show(a) for a in e[1])
    if k == 'struct':
        return '%s { %s }' % ('::'.join(e[1]), ', '.join('%s: %s' % (f, show(x)) for f, x in e[2]))
    if k == 'repeat':
        return '[%s; %s]' % (show(e[1]), show(e[2]))
    if k == 'closure':
        return '|%s| ..' % ', '.join(e[1])
    if k == 'continue':
        return 'continue'
    return '<%s>' % k


def show_pat(p):
    if p[0] == 'pwild':
        return '_'
    if p[0] == 'pbind':
        return ('mut ' if p[2] else '') + p[1]
    if p[0] == 'pref':
        return '&' + show_pat(p[1])
    if p[0] == 'ptuple':
        return '(%s)' % ', '.join(show_pat(q) for q in p[1])
    return '<pattern>'


# --------------------------------------------------------------------------------------
# what the bodies refer to: the struct fields, `Codes`, the length functions
# --------------------------------------------------------------------------------------

def struct_def(toks, name):
    """-> ([generic parameter names], {field: type text})"""
    for i in range(len(toks) - 1):
        if toks[i] == ('id', 'struct') and toks[i + 1] == ('id', name):
            p = rsx.Parser(toks, 'struct %s' % name)
            p.i = i + 2
            gens = []
            if p.at('<'):
                a = p.i
                p._angles()
                for part in split_top_angles(toks[a + 1:p.i - 1]):
                    if part and part[0] == ('id', 'const'):
                        gens.append(part[1][1])
                    elif part and part[0][0] == 'id':
                        gens.append(part[0][1])
            if not p.at('{'):
                err('struct %s: expected named fields' % name)
            c = match_close(toks, p.i)
            fields = {}
            for part in split_top_angles(toks[p.i + 1:c]):
                part = list(part)
                while part and part[0] == ('p', '#'):
                    part = part[match_close(part, 1) + 1:]
                if part and part[0] == ('id', 'pub'):
                    part = part[1:]
                if len(part) < 3 or part[0][0] != 'id' or part[1] != ('p', ':'):
                    err('struct %s: unrecognised field `%s`' % (name, rsx.text_of(part)))
                fields[part[0][1]] = rsx.text_of(part[2:])
            return gens, fields
    err('struct %s not found' % name)


def split_top_angles(toks):
    out, cur, depth = [], [], 0
    for k, x in toks:
        if k == 'p' and x in ('<', '(', '['):
            depth += 1
        elif k == 'p' and x in ('>', ')', ']'):
            depth -= 1
        elif k == 'p' and x == '>>':
            depth -= 2
        if k == 'p' and x == ',' and depth == 0:
            out.append(cur)
            cur = []
        else:
            cur.append((k, x))
    if cur:
        out.append(cur)
    return out


def codes_enum(src):
    """variants of `pub enum Codes`: {variant: None | (field, type)}"""
    toks = tokenize(src(CODES_REL))
    for i in range(len(toks) - 2):
        if toks[i] == ('id', 'enum') and toks[i + 1] == ('id', 'Codes') and toks[i + 2] == ('p', '{'):
            c = match_close(toks, i + 2)
            out = {}
            for part in split_top(toks[i + 3:c]):
                part = list(part)
                while part and part[0] == ('p', '#'):
                    part = part[match_close(part, 1) + 1:]
                if not part:
                    continue
                v = part[0][1]
                if v not in CODE_FAM:
                    err('%s: variant `%s` of `Codes` has no counterpart in `Dsi.CodeFam`' % (CODES_REL, v))
                if len(part) == 1:
                    out[v] = None
                elif part[1] == ('p', '{') and len(part) == 6 and part[3] == ('p', ':') and part[5] == ('p', '}') and part[4][1] in WIDTH:
                    out[v] = (part[2][1], part[4][1])
                else:
                    err('%s: variant `%s` of `Codes`: unrecognised shape' % (CODES_REL, v))
            return out
    err('%s: `enum Codes` not found' % CODES_REL)


def len_signatures(src):
    """{name: ([parameter types], return type)} of the `pub fn`s of src/codes/*.rs listed in LEN_FUNCS"""
    sigs = {}
    for f in CODE_FILES:
        rel = '%s/%s' % (CODES_DIR, f)
        toks = tokenize(src(rel))
        depth = 0
        for i in range(len(toks) - 1):
            if toks[i] == ('p', '{'):
                depth += 1
            elif toks[i] == ('p', '}'):
                depth -= 1
            if depth == 0 and toks[i] == ('id', 'fn') and toks[i + 1][1] in LEN_FUNCS:
                name = toks[i + 1][1]
                p = rsx.Parser(toks, '%s: fn %s' % (rel, name))
                p.i = i + 2
                if p.at('<'):
                    p._angles()
                p.eat('(')
                tys = []
                while not p.at(')'):
                    if p.at('mut'):
                        p.i += 1
                    p.ident()
                    p.eat(':')
                    tys.append(p.type_text())
                    if p.at(','):
                        p.i += 1
                p.eat(')')
                p.eat('->')
                ret = p.type_text()
                if name in sigs:
                    err('two definitions of `%s` in %s' % (name, CODES_DIR))
                if any(t not in WIDTH for t in tys) or ret not in WIDTH:
                    err('%s: fn %s: non-integer signature' % (rel, name))
                sigs[name] = (tys, ret)
    return sigs


# --------------------------------------------------------------------------------------
# the emitter
# --------------------------------------------------------------------------------------

class Var:
    def __init__(self, ty, depth, kind='val', lean=None):
        self.ty, self.depth, self.kind, self.lean = ty, depth, kind, lean


def lean_ty(ty):
    if ty in WIDTH or ty == 'lit':
        return 'Nat'
    if ty == 'bool':
        return 'Bool'
    if ty == T_STATS:
        return 'Stats'
    if ty == T_WRAP:
        return 'StatsWrapper W'
    if ty == T_ARR:
        return 'List Nat'
    if ty == T_CODES:
        return 'StatCodeId'
    if isinstance(ty, tuple) and ty[0] == 'tuple':
        if not ty[1]:
            return 'Unit'
        return ' × '.join(lean_ty(t) if not (isinstance(t, tuple) and t[0] == 'tuple') else '(%s)' % lean_ty(t) for t in ty[1])
    if isinstance(ty, tuple) and ty[0] == 'opaque':
        return ty[1]
    if isinstance(ty, tuple) and ty[0] == 'iter':
        return 'List %s' % lean_ty(ty[1])
    if isinstance(ty, tuple) and ty[0] == 'mutex':
        return 'Mutex %s' % lean_ty(ty[1])
    err('internal: no Lean type for %r' % (ty,))


def tup(names):
    if not names:
        return '()'
    if len(names) == 1:
        return names[0]
    return '(%s)' % ', '.join(names)


def proj_lets(names, base):
    """`let`s that take a tuple of the values of `names` apart by projections (no pattern matching)"""
    if not names:
        return []
    if len(names) == 1:
        return ['let %s := %s' % (names[0], base)] if names[0] != base else []
    out = []
    for i, x in enumerate(names):
        out.append('let %s := %s%s%s' % (x, base, '.2' * i, '.1' if i < len(names) - 1 else ''))
    return out


class World:
    """the parsed functions and the generated definitions"""

    def __init__(self, src):
        self.toks = expand_macros(tokenize(src(REL)))
        rsx.check_no_alias(self.toks, REL)
        self.codes = codes_enum(src)
        self.sigs = len_signatures(src)
        gens, fields = struct_def(self.toks, 'CodesStats')
        if gens != GENERICS:
            err('struct CodesStats: the generic parameters are %r' % (gens,))
        if set(fields) != set(STAT_FIELDS):
            err('struct CodesStats: the fields are %r' % (sorted(fields),))
        self.stat_field_ty = {}
        self.array_len = {}
        for f, t in fields.items():
            if t == 'u64':
                self.stat_field_ty[f] = 'u64'
            else:
                m = re.fullmatch(r'\[ u64 ; (\w+) \]', t)
                if not m or m.group(1) not in GENERICS:
                    err('struct CodesStats: field `%s` has type `%s`' % (f, t))
                self.stat_field_ty[f] = T_ARR
                self.array_len[f] = m.group(1)
        gens, fields = struct_def(self.toks, 'CodesStatsWrapper')
        if gens != ['W'] + GENERICS:
            err('struct CodesStatsWrapper: the generic parameters are %r' % (gens,))
        want = {'stats': 'Mutex<CodesStats<%s>>' % ','.join(GENERICS), 'wrapped': 'W'}
        if {f: t.replace(' ', '') for f, t in fields.items()} != want:
            err('struct CodesStatsWrapper: the fields are %r' % (fields,))
        # imports of the names the bodies use
        txt = rsx.text_of(self.toks)
        if 'use std :: sync :: Mutex ;' not in txt:
            err('`Mutex` is not `std::sync::Mutex`')
        self.fns = {}        # key -> parsed fn
        self.order = []      # keys in emission order
        self.done = {}       # key -> dict(lean=.., consts=bool, ret=.., ...)
        self.busy = set()
        self.text = {}
        self.locate()

    # ---- locating the impls
    def locate(self):
        G = ' , '.join(GENERICS)
        S = 'CodesStats < %s >' % G
        Wr = 'CodesStatsWrapper < W , %s >' % G

        def tail(h):
            """the header after the generic parameter list of `impl< .. >`"""
            p = rsx.Parser(tokenize_text(h), 'impl header')
            p.i = 1
            if p.at('<'):
                p._angles()
            return rsx.text_of(p.t[p.i:])
        impls = {}
        for hdr, o, c in rsx.find_impls(self.toks, lambda h: True):
            t = tail(hdr)
            impls.setdefault(t, []).append((hdr, o, c))
        table = [
            (S, 'CodesStats', None, ['update', 'update_many', 'add', 'best_code']),
            ('core :: default :: Default for ' + S, 'CodesStats', 'Default', ['default']),
            ('core :: ops :: AddAssign for ' + S, 'CodesStats', 'AddAssign', ['add_assign']),
            ('core :: ops :: Add for ' + S, 'CodesStats', 'Add', ['add']),
            ('core :: iter :: Sum for ' + S, 'CodesStats', 'Sum', ['sum']),
            (Wr, 'CodesStatsWrapper', None, ['new', 'stats', 'into_inner']),
            ('DynamicCodeRead for ' + Wr, 'CodesStatsWrapper', 'DynamicCodeRead', ['read']),
            ('StaticCodeRead < E , CR > for ' + Wr, 'CodesStatsWrapper', 'StaticCodeRead', ['read']),
            ('DynamicCodeWrite for ' + Wr, 'CodesStatsWrapper', 'DynamicCodeWrite', ['write']),
            ('StaticCodeWrite < E , CW > for ' + Wr, 'CodesStatsWrapper', 'StaticCodeWrite', ['write']),
        ]
        known = set()
        for t, ty, trait, methods in table:
            known.add(t)
            if len(impls.get(t, [])) != 1:
                err('expected exactly one `impl %s`, found %d' % (t, len(impls.get(t, []))))
            hdr, o, c = impls[t][0]
            # every fn of the impl must be one of the expected ones
            i = o + 1
            seen = []
            while i < c:
                if self.toks[i] == ('p', '{'):
                    i = match_close(self.toks, i) + 1
                    continue
                if self.toks[i] == ('id', 'fn'):
                    seen.append((self.toks[i + 1][1], i))
                i += 1
            if sorted(n for n, _ in seen) != sorted(methods):
                err('`impl %s`: the functions are %r, expected %r' % (t, [n for n, _ in seen], methods))
            for n, i in seen:
                what = '%s%s::%s' % (ty, ' as ' + trait if trait else '', n)
                fn = parse_fn(self.toks, i, what)
                fn['hdr'] = hdr
                self.fns[(ty, trait, n)] = fn
        # any other impl for the two types could change what a method call means
        for t in impls:
            if t not in known and re.search(r'\bfor CodesStats(Wrapper)? <', t):
                err('unexpected `impl %s`' % t)
            if t not in known and re.match(r'CodesStats(Wrapper)? <', t):
                err('unexpected `impl %s`' % t)

    def lean_name(self, key):
        ty, trait, n = key
        return '%s.%s%s' % (ty, trait + '.' if trait else '', n)

    def need(self, key):
        """the generated definition of the function (emitting it first when necessary)"""
        if key in self.done:
            return self.done[key]
        if key not in self.fns:
            err('call of `%s`, which is not translated' % self.lean_name(key))
        if key in self.busy:
            err('recursion through `%s`' % self.lean_name(key))
        self.busy.add(key)
        f = Fn(self, key, self.fns[key])
        info = f.emit()
        self.busy.discard(key)
        self.done[key] = info
        self.order.append(key)
        self.text[key] = f.lines
        return info


def tokenize_text(h):
    return tokenize(h)


class Fn:
    def __init__(self, world, key, fn):
        self.w, self.key, self.fn = world, key, fn
        self.what = fn['what']
        self.is_wrapper = key[0] == 'CodesStatsWrapper'
        self.self_ty = T_WRAP if self.is_wrapper else T_STATS
        self.reset()

    def reset(self):
        self.pre = []
        self.tmp = 0
        self.depth = 0
        self.collectors = []     # [(depth of the body, set of outer variables it rebinds)]
        self.loops = []          # exits of the enclosing loop bodies: fn(env, ind) -> lines
        self.stmt_guards = []    # guards (temporaries) to drop at the end of the statement
        self.block_guards = []   # guards bound by `let` at the top level: dropped at the end of the function
        self.self_rebound = False
        self.uses_consts = False
        self.externs = []        # [(name, [arg types], ret type)]

    def fail(self, msg):
        err('%s: %s' % (self.what, msg))

    # ---- small helpers
    def fresh(self, env, base='t'):
        while True:
            self.tmp += 1
            n = '%s%d' % (base, self.tmp)
            if n not in env:
                return n

    def lname(self, x, env):
        v = env[x]
        return v.lean if v.lean else lean_id(x)

    def rebind(self, x, env):
        if x == 'self':
            self.self_rebound = True
        d = env[x].depth
        for bd, s in self.collectors:
            if d < bd:
                s.add(x)

    def declare(self, x, ty, env, kind='val'):
        if x in env and self.depth > 0:
            self.fail('`%s` is declared again in a nested block (shadowing is not in the translated language)' % x)
        if x in GENERICS or x == 'self':
            self.fail('a local named `%s`' % x)
        env[x] = Var(ty, self.depth, kind)

    def flush(self, ind):
        pad = '  ' * ind
        out = []
        for item in self.pre:
            for l in (item if isinstance(item, list) else [item]):
                out.append(pad + l)
        self.pre = []
        return out

    def ordered(self, names, env):
        # by name, not by declaration order: reordering independent `let`s must not change the shape of
        # the loop-carried state
        return sorted(names)

    # ---- types
    def param_type(self, text, generics):
        t = text
        kind = 'val'
        if t.startswith('& mut '):
            t, kind = t[6:], 'mutref'
        elif t.startswith('& '):
            t, kind = t[2:], 'ref'
        if t in WIDTH:
            if kind != 'val':
                self.fail('parameter of type `%s`' % text)
            return t, kind
        if t == 'Self':
            return self.self_ty, kind
        if t in ('CR', 'CW'):
            if kind != 'mutref':
                self.fail('parameter of type `%s`' % text)
            return ('opaque', {'CR': 'ρ', 'CW': 'ω'}[t]), kind
        if t == 'W' and self.is_wrapper and kind == 'val':
            return ('opaque', 'W'), kind
        for gk, gn, gb in generics:
            if gk == 'type' and gn == t and gb.replace(' ', '') in ('Iterator<Item=Self>', 'Iterator<Item=Self') and kind == 'val':
                return ('iter', self.self_ty), kind
        self.fail('parameter of type `%s`' % text)

    def ret_type(self, text):
        """-> (type, is_result)"""
        if text is None:
            return T_UNIT, False
        t = text.replace(' ', '')
        S = 'CodesStats<%s>' % ','.join(GENERICS)
        if t in WIDTH:
            return t, False
        if t == 'Self':
            return self.self_ty, False
        if t == '(Codes,u64)':
            return ('tuple', [T_CODES, 'u64']), False
        if t == '&Mutex<%s>' % S:
            return ('mutex', T_STATS), False
        if t == '(W,%s)' % S:
            return ('tuple', [('opaque', 'W'), T_STATS]), False
        m = re.fullmatch(r'Result<(\w+),C[RW]::Error>', t)
        if m and m.group(1) in WIDTH:
            return m.group(1), True
        self.fail('return type `%s`' % text)

    @staticmethod
    def unify(a, b):
        if a == 'lit':
            return b if (b in WIDTH or b == 'lit') else None
        if b == 'lit':
            return a if a in WIDTH else None
        return a if a == b else None

    # ---- expressions
    def guard(self, cond):
        self.pre.append('if %s then .dpanic else' % cond)

    def place_root(self, e):
        """the variable a place expression is rooted at, and the field path"""
        path = []
        while True:
            if e[0] == 'paren':
                e = e[1]
            elif e[0] == 'un' and e[1] in ('*', '&', '&mut'):
                e = e[2]
            elif e[0] == 'field':
                path.insert(0, e[2])
                e = e[1]
            else:
                break
        if e[0] != 'var':
            return None, None
        return e[1], path

    def field_of(self, base, f):
        """(Lean field, type) of field f of a value of struct type base"""
        if base == T_STATS:
            if f not in self.w.stat_field_ty:
                self.fail('no field `%s` in CodesStats' % f)
            return STAT_FIELDS[f], self.w.stat_field_ty[f]
        if base == T_WRAP:
            if f == 'stats':
                return 'stats', ('mutex', T_STATS)
            if f == 'wrapped':
                return 'wrapped', ('opaque', 'W')
        self.fail('field `%s` of a value of type %r' % (f, base))

    def ex(self, e, env, expect=None):
        k = e[0]
        if k == 'num':
            return (str(e[1]), P_ATOM, e[2] or 'lit')
        if k == 'bool':
            return ('true' if e[1] else 'false', P_ATOM, 'bool')
        if k == 'paren':
            return self.ex(e[1], env, expect)
        if k == 'var':
            x = e[1]
            if x in GENERICS and x not in env:
                self.uses_consts = True
                return (x, P_ATOM, 'usize')
            if x not in env:
                self.fail('unknown variable `%s`' % x)
            return (self.lname(x, env), P_ATOM, env[x].ty)
        if k == 'un' and e[1] in ('*', '&'):
            return self.ex(e[2], env, expect)
        if k == 'un' and e[1] == '!':
            t = self.ex(e[2], env)
            if t[2] not in ('bool', 'prop'):
                self.fail('`!` on a value of type %r' % (t[2],))
            return ('¬%s' % par(t, P_ATOM), 40, 'prop')
        if k == 'field':
            b = self.ex(e[1], env)
            lf, ty = self.field_of(b[2], e[2])
            return ('%s.%s' % (par(b, P_ATOM), lf), P_ATOM, ty)
        if k == 'cast':
            t, p, ty = self.ex(e[1], env)
            to = e[2]
            if to == '_':
                to = expect
            if to in SIGNED and ty in WIDTH:
                k = SIGNED[to]
                return ('((((%s + 2 ^ %d) %% 2 ^ %d : Nat) : Int) - 2 ^ %d)' % (par((t, p), P_ADD), k - 1, k, k - 1), P_ATOM, to)
            if to not in WIDTH:
                self.fail('cast `%s`: cannot tell the target type' % show(e))
            if ty == 'lit':
                return (t, p, to)
            if ty not in WIDTH:
                self.fail('cast of a value of type %r' % (ty,))
            if WIDTH[to] < WIDTH[ty]:
                return ('%s %% 2 ^ %d' % (par((t, p), P_MUL), WIDTH[to]), P_MUL, to)
            return (t, p, to)
        if k == 'bin':
            return self.binop(e, env, expect)
        if k == 'call':
            return self.call(e, env, expect)
        if k == 'method':
            return self.method(e, env, expect)
        if k == 'try':
            return self.try_(e, env)
        if k == 'tuple':
            ts = [self.ex(a, env) for a in e[1]]
            if not ts:
                return UNIT
            return ('(%s)' % ', '.join(t[0] for t in ts), P_ATOM, ('tuple', [t[2] for t in ts]))
        if k == 'path':
            return self.path(e, env)
        if k == 'struct':
            return self.struct(e, env)
        if k == 'repeat':
            v = self.ex(e[1], env)
            n = self.ex(e[2], env)
            if v[2] not in ('lit', 'u64') or n[2] != 'usize':
                self.fail('`%s`: not an array of u64 of a usize length' % show(e))
            return ('List.replicate %s %s' % (par(n, P_ATOM), par(v, P_ATOM)), P_APP, T_ARR)
        self.fail('expression `%s` is not in the translated language' % show(e))

    def binop(self, e, env, expect):
        op = e[1]
        if op in ('&&', '||'):
            a = self.ex(e[2], env)
            n = len(self.pre)
            b = self.ex(e[3], env)
            if len(self.pre) != n:
                self.fail('an overflow check or an effect in the right operand of `%s`' % op)
            if a[2] not in ('bool', 'prop') or b[2] not in ('bool', 'prop'):
                self.fail('`%s` on non-boolean operands' % op)
            lo, p = ('∧', P_AND) if op == '&&' else ('∨', P_OR)
            return ('%s %s %s' % (par(a, p + 1), lo, par(b, p + 1)), p, 'prop')
        a = self.ex(e[2], env, expect)
        b = self.ex(e[3], env, expect if op in ('+', '-', '*') else None)
        if a[2] == self.self_ty == T_STATS and b[2] == T_STATS and op == '+':
            return self.call_fn(('CodesStats', 'Add', 'add'), [a, b], env, None)
        ty = self.unify(a[2], b[2])
        if ty == 'lit' and expect in WIDTH:
            ty = expect
        if ty in SIGNED and op in ('==', '!=', '<', '<=', '>', '>='):
            lo = {'==': '=', '!=': '≠', '<': '<', '<=': '≤', '>': '>', '>=': '≥'}[op]
            return ('%s %s %s' % (par(a, P_CMP + 1), lo, par(b, P_CMP + 1)), P_CMP, 'prop')
        if ty is None or (ty not in WIDTH):
            self.fail('`%s`: operands of types %r and %r' % (show(e), a[2], b[2]))
        if op in ('==', '!=', '<', '<=', '>', '>='):
            lo = {'==': '=', '!=': '≠', '<': '<', '<=': '≤', '>': '>', '>=': '≥'}[op]
            return ('%s %s %s' % (par(a, P_CMP + 1), lo, par(b, P_CMP + 1)), P_CMP, 'prop')
        if op == '+':
            t = '%s + %s' % (par(a, P_ADD), par(b, P_ADD + 1))
            self.guard('%s ≥ 2 ^ %d' % (t, WIDTH[ty]))
            return (t, P_ADD, ty)
        if op == '*':
            t = '%s * %s' % (par(a, P_MUL), par(b, P_MUL + 1))
            self.guard('%s ≥ 2 ^ %d' % (t, WIDTH[ty]))
            return (t, P_MUL, ty)
        if op == '-':
            self.guard('%s < %s' % (par(a, P_CMP + 1), par(b, P_CMP + 1)))
            return ('%s - %s' % (par(a, P_ADD), par(b, P_ADD + 1)), P_ADD, ty)
        self.fail('operator `%s` is not in the translated language' % op)

    def path(self, e, env):
        segs, gen = e[1], e[2]
        if gen is None and len(segs) == 2 and segs[0] == 'Codes':
            v = segs[1]
            if v not in self.w.codes:
                self.fail('`Codes::%s`: no such variant' % v)
            if self.w.codes[v] is not None:
                self.fail('`Codes::%s` without its field' % v)
            return ('(⟨.%s, 0⟩ : StatCodeId)' % CODE_FAM[v], P_ATOM, T_CODES)
        if gen is None and len(segs) == 2 and segs[0] in WIDTH and segs[1] == 'MAX':
            return ('2 ^ %d - 1' % WIDTH[segs[0]], P_ADD, segs[0])
        self.fail('path `%s`' % '::'.join(segs))

    def struct(self, e, env):
        segs, fields = e[1], e[2]
        if len(segs) == 2 and segs[0] == 'Codes':
            v = segs[1]
            if v not in self.w.codes or self.w.codes[v] is None:
                self.fail('`Codes::%s { .. }`: no such variant with a field' % v)
            fname, fty = self.w.codes[v]
            if len(fields) != 1 or fields[0][0] != fname:
                self.fail('`%s`: the field of `Codes::%s` is `%s`' % (show(e), v, fname))
            t = self.ex(fields[0][1], env, fty)
            if self.unify(t[2], fty) is None:
                self.fail('`%s`: the field has type %s, the value %r' % (show(e), fty, t[2]))
            return ('(⟨.%s, %s⟩ : StatCodeId)' % (CODE_FAM[v], t[0]), P_ATOM, T_CODES)
        if segs in (['Self'], ['CodesStats']) and not (segs == ['Self'] and self.is_wrapper):
            if sorted(f for f, _ in fields) != sorted(STAT_FIELDS):
                self.fail('`%s { .. }`: the fields given are %r' % (segs[0], [f for f, _ in fields]))
            parts = []
            vals = {}
            for f, x in fields:
                want = self.w.stat_field_ty[f]
                t = self.ex(x, env, want if want in WIDTH else None)
                if not (t[2] == want or (want in WIDTH and self.unify(t[2], want))):
                    self.fail('field `%s`: a value of type %r' % (f, t[2]))
                if want == T_ARR:
                    # `[u64; N]`: the length is part of the type
                    if not (x[0] == 'repeat' and x[2] == ('var', self.w.array_len[f])):
                        self.fail('field `%s`: the array length is not `%s`' % (f, self.w.array_len[f]))
                vals[f] = t[0]
            for f in STAT_ORDER:
                parts.append('%s := %s' % (STAT_FIELDS[f], vals[f]))
            return ('({ %s } : Stats)' % ', '.join(parts), P_ATOM, T_STATS)
        if segs in (['Self'], ['CodesStatsWrapper']) and self.is_wrapper:
            if sorted(f for f, _ in fields) != ['stats', 'wrapped']:
                self.fail('`%s { .. }`: the fields given are %r' % (segs[0], [f for f, _ in fields]))
            vals = {}
            for f, x in fields:
                t = self.ex(x, env)
                _, want = self.field_of(T_WRAP, f)
                if t[2] != want:
                    self.fail('field `%s`: a value of type %r' % (f, t[2]))
                vals[f] = t[0]
            return ('({ stats := %s, wrapped := %s } : StatsWrapper W)' % (vals['stats'], vals['wrapped']), P_ATOM, T_WRAP)
        self.fail('struct literal `%s`' % show(e))

    def call_fn(self, key, args, env, recv):
        """hoist a call of a translated function.  args: translated arguments (after the receiver);
        recv: None | the variable that is the `&mut self` receiver (rebound from the result)"""
        info = self.w.need(key)
        if info['consts']:
            self.uses_consts = True
        parts = [info['lean']]
        if info['consts']:
            parts += GENERICS
        if info['externs'] or info['threaded']:
            self.fail('call of `%s` (it has parameters of the wrapped object)' % info['lean'])
        if recv is not None:
            parts.append(self.lname(recv, env))
        parts += [par(a, P_ATOM) for a in args]
        call = ' '.join(parts)
        binders = []
        rty = info['ret']
        r = None
        if rty != T_UNIT:
            r = self.fresh(env)
            binders.append(r)
        if info['returns_self']:
            if recv is None:
                self.fail('internal: `%s` returns its receiver' % info['lean'])
            binders.append(self.lname(recv, env))
            self.rebind(recv, env)
        if not binders:
            self.pre.append('Res.bind (%s) fun _ =>' % call)
        elif len(binders) == 1:
            self.pre.append('Res.bind (%s) fun %s =>' % (call, binders[0]))
        else:
            b = self.fresh(env, 'r')
            self.pre.append('Res.bind (%s) fun %s =>' % (call, b))
            self.pre += proj_lets(binders, b)
        if r is None:
            return UNIT
        return (r, P_ATOM, rty)

    def call(self, e, env, expect):
        f, args = e[1], e[2]
        if f[0] == 'var' and f[1] in self.w.sigs:
            tys, ret = self.w.sigs[f[1]]
            if len(args) != len(tys):
                self.fail('`%s` with %d arguments' % (f[1], len(args)))
            ts = []
            for a, want in zip(args, tys):
                t = self.ex(a, env, want)
                if self.unify(t[2], want) is None:
                    self.fail('`%s`: argument `%s` has type %r, the parameter %s' % (f[1], show(a), t[2], want))
                ts.append(par(t, P_ATOM))
            if not re.search(r'\b%s\b' % f[1], self.w_imports()):
                self.fail('`%s` is not imported from the crate prelude' % f[1])
            return (' '.join([f[1]] + ts), P_APP, ret)
        if f[0] == 'path' and f[2] is None and f[1] in (['Self', 'default'], ['CodesStats', 'default']) and not args:
            if f[1][0] == 'Self' and self.is_wrapper:
                self.fail('`Self::default()` in the wrapper')
            return self.call_fn(('CodesStats', 'Default', 'default'), [], env, None)
        if f[0] == 'path' and f[2] is None and f[1] == ['Mutex', 'new'] and len(args) == 1:
            t = self.ex(args[0], env)
            return ('Mutex.new %s' % par(t, P_ATOM), P_APP, ('mutex', t[2]))
        self.fail('call `%s` is not in the translated language' % show(e))

    def w_imports(self):
        if not hasattr(self.w, '_imports'):
            toks = self.w.toks
            out = []
            i = 0
            while i < len(toks):
                if toks[i] == ('id', 'use'):
                    j = i
                    while toks[j] != ('p', ';'):
                        j += 1
                    t = rsx.text_of(toks[i:j])
                    if t.startswith('use crate :: prelude ::'):
                        out.append(t)
                    i = j
                i += 1
            self.w._imports = ' '.join(out)
        return self.w._imports

    def method(self, e, env, expect):
        recv, name, gen, args = e[1], e[2], e[3], e[4]
        if gen:
            self.fail('turbofish on `.%s`' % name)
        # the receiver: a place (rooted at a variable) or a temporary
        root, path = self.place_root(recv)
        if root is not None and root in env:
            rt = self.ex(recv, env)
        else:
            rt = self.ex(recv, env)
            root, path = None, None
        ty = rt[2]
        if ty in WIDTH or ty == 'lit':
            if name in ('max', 'min') and len(args) == 1:
                b = self.ex(args[0], env, ty if ty in WIDTH else None)
                if self.unify(ty, b[2]) is None:
                    self.fail('`.%s` on %r and %r' % (name, ty, b[2]))
                return ('Nat.%s %s %s' % (name, par(rt, P_ATOM), par(b, P_ATOM)), P_APP, self.unify(ty, b[2]))
            if name == 'is_power_of_two' and not args and ty in WIDTH:
                return ('isPow2 %s = true' % par(rt, P_ATOM), P_CMP, 'prop')
            self.fail('method `.%s()` on an integer' % name)
        if ty == T_STATS:
            key = ('CodesStats', None, name)
            if key not in self.w.fns:
                self.fail('method `.%s()` of CodesStats is not translated' % name)
            callee = self.w.fns[key]
            if root is None or path:
                self.fail('`%s`: the receiver is not a variable' % show(e))
            v = env[root]
            if name == 'add' and v.kind not in ('mutref', 'guard'):
                # on an owned receiver `x.add(y)` is `Add::add` (by value comes first in method resolution)
                self.fail('`%s`: cannot tell the inherent `add` from `Add::add` on this receiver' % show(e))
            if callee['recv'] == '&mut self' and v.kind not in ('mutref', 'guard', 'mut'):
                self.fail('`%s`: the receiver is not mutable' % show(e))
            if callee['recv'] not in ('&mut self', '&self'):
                self.fail('`%s`: receiver `%s`' % (show(e), callee['recv']))
            if len(args) != len(callee['params']):
                self.fail('`%s`: %d arguments' % (show(e), len(args)))
            ts = []
            for a, (pn, pm, pt) in zip(args, callee['params']):
                want = pt[2:] if pt.startswith('& ') else pt
                if want == 'Self':
                    t = self.ex(a, env)
                    if t[2] != T_STATS or (pt.startswith('& ') != (a[0] == 'un' and a[1] == '&')):
                        self.fail('`%s`: argument `%s`' % (show(e), show(a)))
                elif want in WIDTH:
                    t = self.ex(a, env, want)
                    if self.unify(t[2], want) is None:
                        self.fail('`%s`: argument `%s` has type %r' % (show(e), show(a), t[2]))
                else:
                    self.fail('`%s`: parameter of type `%s`' % (show(e), pt))
                ts.append(t)
            return self.call_fn(key, ts, env, root)
        if isinstance(ty, tuple) and ty[0] == 'mutex':
            if name == 'lock' and not args:
                return (rt[0], rt[1], ('lockresult', ty[1], recv))
            if name == 'into_inner' and not args:
                return (rt[0], rt[1], ('innerresult', ty[1]))
            if name == 'try_lock':
                self.fail('`try_lock` is not exclusive access (it fails when another thread holds the lock): not in the translated language')
            self.fail('method `.%s()` on a mutex' % name)
        if isinstance(ty, tuple) and ty[0] == 'lockresult':
            if name == 'unwrap' and not args:
                g = self.fresh(env, 'guard')
                self.pre.append('Res.bind (Mutex.lockUnwrap %s) fun %s =>' % (par(rt, P_ATOM), g))
                env[g] = Var(ty[1], self.depth, 'guard', lean=g)
                self.stmt_guards.append((g, ty[2]))
                return (g, P_ATOM, ('guardval', ty[1], g))
            self.fail('`.%s()` on the result of `lock()`' % name)
        if isinstance(ty, tuple) and ty[0] == 'innerresult':
            if name == 'unwrap' and not args:
                r = self.fresh(env)
                self.pre.append('Res.bind (Mutex.intoInnerUnwrap %s) fun %s =>' % (par(rt, P_ATOM), r))
                return (r, P_ATOM, ty[1])
            self.fail('`.%s()` on the result of `into_inner()`' % name)
        if isinstance(ty, tuple) and ty[0] == 'guardval':
            # a method of the protected value through the guard
            return self.method(('method', ('var', ty[2]), name, gen, args), env, expect)
        if isinstance(ty, tuple) and ty[0] == 'iter':
            if name == 'fold' and len(args) == 2 and args[1][0] == 'closure' and len(args[1][1]) == 2:
                if root is None or path or env[root].kind == 'consumed':
                    self.fail('`%s`: the iterator is not a parameter' % show(e))
                init = self.ex(args[0], env)
                a, b = args[1][1]
                env2 = dict(env)
                self.depth += 1
                self.declare(a, init[2], env2)
                self.declare(b, ty[1], env2)
                saved, self.pre = self.pre, []
                self.collectors.append((self.depth, set()))
                body = self.seq(args[1][2], env2, 2, lambda v, env3, ind: self.value_ok(v, init[2], env3, ind))
                _, assigned = self.collectors.pop()
                self.pre = saved
                self.depth -= 1
                if assigned:
                    self.fail('the closure assigns `%s`' % sorted(assigned)[0])
                r = self.fresh(env)
                self.pre.append(['Res.bind (iterFold %s %s fun %s %s =>' % (rt[0], par(init, P_ATOM), lean_id(a), lean_id(b))]
                                + body[:-1] + [body[-1] + ') fun %s =>' % r])
                env[root] = Var(ty, env[root].depth, 'consumed')
                return (r, P_ATOM, init[2])
            self.fail('method `.%s()` on an iterator' % name)
        self.fail('method `.%s()` on a value of type %r' % (name, ty))

    def value_ok(self, v, want, env, ind):
        if v is None or v[2] != want:
            self.fail('the closure returns a value of type %r' % (None if v is None else v[2],))
        return ['  ' * ind + '.ok %s' % par(v, P_ATOM)]

    def try_(self, e, env):
        x = e[1]
        # self.wrapped.<m>(args)?
        if (x[0] == 'method' and x[1] == ('field', ('var', 'self'), 'wrapped') and self.is_wrapper and not x[3]
                and x[2] in WRAPPED_RET and self.is_result):
            m, args = x[2], x[4]
            ts, threaded, tys = [], [], []
            for a in args:
                if a[0] == 'var' and a[1] in env and env[a[1]].kind == 'mutref':
                    if a[1] in threaded:
                        self.fail('`%s` passed twice' % a[1])
                    threaded.append(a[1])
                    ts.append(self.lname(a[1], env))
                    tys.append(env[a[1]].ty)
                else:
                    t = self.ex(a, env)
                    if t[2] not in WIDTH:
                        self.fail('`%s`: argument `%s`' % (show(x), show(a)))
                    ts.append(par(t, P_ATOM))
                    tys.append(t[2])
            if len(threaded) != 1 or args[0] != ('var', threaded[0]):
                self.fail('`%s`: the first argument must be the reader / writer' % show(x))
            want = {'read': 1, 'write': 2}[m]
            if len(args) != want:
                self.fail('`%s`: %d arguments' % (show(x), len(args)))
            name = 'wrapped_' + m
            sig = (name, tys, WRAPPED_RET[m])
            for s in self.externs:
                if s[0] == name and s != sig:
                    self.fail('`%s` used with two signatures' % name)
            if sig not in self.externs:
                self.externs.append(sig)
            r = self.fresh(env)
            b = self.fresh(env, 'r')
            self.pre.append('Res.bind (%s %s) fun %s =>' % (name, ' '.join(ts), b))
            self.pre += proj_lets([r, self.lname(threaded[0], env)], b)
            self.rebind(threaded[0], env)
            return (r, P_ATOM, WRAPPED_RET[m])
        self.fail('`%s`: `?` on something other than a call of the wrapped object' % show(e))

    # ---- statements
    def drop_stmt_guards(self, env, ind):
        out = []
        for g, place in reversed(self.stmt_guards):
            out += self.release(g, place, env, ind)
        self.stmt_guards = []
        return out

    def release(self, g, place, env, ind):
        root, path = self.place_root(place)
        if root != 'self' or path != ['stats'] or not self.is_wrapper:
            self.fail('a lock on something other than `self.stats`')
        self.rebind('self', env)
        return ['  ' * ind + 'let self := { self with stats := Mutex.release self.stats %s }' % g]

    def assign_to(self, lhs, op, rhs, env, ind):
        """lines of `lhs op= rhs`"""
        pad = '  ' * ind
        root, path = self.place_root(lhs)
        if root is None or root not in env:
            self.fail('assignment to `%s`' % show(lhs))
        v = env[root]
        deref = lhs[0] == 'un' and lhs[1] == '*'
        if not path:
            # a variable / `*elem`
            if v.kind == 'elem':
                if not deref:
                    self.fail('assignment to the reference `%s`' % root)
            elif v.kind in ('mut',):
                if deref:
                    self.fail('`*%s` of a non-reference' % root)
            else:
                self.fail('assignment to `%s`, which is not mutable' % show(lhs))
            cur = (self.lname(root, env), P_ATOM, v.ty)
            if v.ty == T_STATS:
                if op != '+':
                    self.fail('`%s %s= ..` on CodesStats' % (root, op or ''))
                t = self.ex(rhs, env)
                if t[2] != T_STATS:
                    self.fail('`%s += %s`' % (root, show(rhs)))
                self.call_fn(('CodesStats', 'AddAssign', 'add_assign'), [t], env, root)
                return self.flush(ind)
            if v.ty not in WIDTH:
                if op is not None:
                    self.fail('`%s %s= ..` on a value of type %r' % (root, op, v.ty))
                new = self.ex(rhs, env)
                if new[2] != v.ty:
                    self.fail('assignment of a value of type %r to `%s`' % (new[2], root))
            else:
                new = self.combine(cur, op, rhs, env)
            out = self.flush(ind)
            out.append(pad + 'let %s := %s' % (self.lname(root, env), new[0]))
            self.rebind(root, env)
            return out
        if len(path) == 1 and v.ty in (T_STATS,) and not deref:
            if v.kind not in ('mutref', 'mut', 'guard'):
                self.fail('assignment to `%s`, which is not mutable' % show(lhs))
            lf, fty = self.field_of(v.ty, path[0])
            if fty not in WIDTH:
                self.fail('assignment to the array `%s`' % show(lhs))
            nm = self.lname(root, env)
            cur = ('%s.%s' % (nm, lf), P_ATOM, fty)
            new = self.combine(cur, op, rhs, env)
            out = self.flush(ind)
            out.append(pad + 'let %s := { %s with %s := %s }' % (nm, nm, lf, new[0]))
            self.rebind(root, env)
            return out
        self.fail('assignment to `%s`' % show(lhs))

    def combine(self, cur, op, rhs, env):
        ty = cur[2]
        if ty not in WIDTH:
            self.fail('assignment to a value of type %r' % (ty,))
        t = self.ex(rhs, env, ty)
        u = self.unify(ty, t[2])
        if u is None:
            self.fail('assignment of a value of type %r to one of type %r' % (t[2], ty))
        if op is None:
            return t
        if op == '+':
            x = '%s + %s' % (par(cur, P_ADD), par(t, P_ADD + 1))
            self.guard('%s ≥ 2 ^ %d' % (x, WIDTH[ty]))
            return (x, P_ADD, ty)
        if op == '*':
            x = '%s * %s' % (par(cur, P_MUL), par(t, P_MUL + 1))
            self.guard('%s ≥ 2 ^ %d' % (x, WIDTH[ty]))
            return (x, P_MUL, ty)
        if op == '-':
            self.guard('%s < %s' % (par(cur, P_CMP + 1), par(t, P_CMP + 1)))
            return ('%s - %s' % (par(cur, P_ADD), par(t, P_ADD + 1)), P_ADD, ty)
        self.fail('`%s=` is not in the translated language' % op)

    def seq(self, stmts, env, ind, kont):
        """lines of the statements, then `kont(value of the tail expression | None, env, ind)`"""
        pad = '  ' * ind
        if not stmts:
            return kont(None, env, ind)
        st, rest = stmts[0], stmts[1:]
        k = st[0]
        if k == 'expr' and st[1] == ('tuple', []) and st[2]:
            return self.seq(rest, env, ind, kont)
        if k == 'let':
            pat, ty, init = st[1], st[2], st[3]
            if pat[0] != 'pbind' or init is None:
                self.fail('`let %s`' % show_pat(pat))
            want = None
            if ty is not None:
                if ty not in WIDTH:
                    self.fail('`let %s: %s`' % (pat[1], ty))
                want = ty
            t = self.ex(init, env, want)
            vty = t[2]
            if want is not None:
                if self.unify(vty, want) is None:
                    self.fail('`let %s: %s` of a value of type %r' % (pat[1], ty, vty))
                vty = want
            if vty == 'lit':
                self.fail('`let %s = %s`: cannot tell the integer type' % (pat[1], show(init)))
            out = self.flush(ind)
            if isinstance(vty, tuple) and vty[0] == 'guardval':
                # `let g = m.lock().unwrap();` the guard lives to the end of the block
                if self.depth != 0:
                    self.fail('a guard bound by `let` in a nested block')
                g = vty[2]
                entry = [x for x in self.stmt_guards if x[0] == g]
                if len(entry) != 1:
                    self.fail('internal: unknown guard')
                self.stmt_guards = [x for x in self.stmt_guards if x[0] != g]
                self.block_guards.append(entry[0])
                self.declare(pat[1], vty[1], env, 'guard')
                env[pat[1]].lean = g
                out += self.drop_stmt_guards(env, ind)
                return out + self.seq(rest, env, ind, kont)
            if isinstance(vty, tuple) and vty[0] in ('lockresult', 'innerresult'):
                self.fail('`let %s = %s`: a lock result that is not unwrapped' % (pat[1], show(init)))
            self.declare(pat[1], vty, env, 'mut' if pat[2] else 'val')
            out.append(pad + 'let %s := %s' % (lean_id(pat[1]), t[0]))
            out += self.drop_stmt_guards(env, ind)
            return out + self.seq(rest, env, ind, kont)
        if k == 'assign':
            out = [pad + '-- %s %s= %s;' % (show(st[1]), st[2] or '', show(st[3]))]
            out += self.assign_to(st[1], st[2], st[3], env, ind)
            out += self.drop_stmt_guards(env, ind)
            return out + self.seq(rest, env, ind, kont)
        if k == 'for':
            return self.for_(st, rest, env, ind, kont)
        if k == 'expr':
            e, semi = st[1], st[2]
            if e[0] == 'continue':
                if rest:
                    self.fail('statements after `continue`')
                if not self.loops:
                    self.fail('`continue` outside a loop')
                return self.loops[-1](env, ind)
            if e[0] == 'if':
                return self.if_(e, rest, env, ind, kont)
            if e[0] == 'block':
                # a nested block: its statements in sequence (a nested `let` cannot shadow, see `declare`)
                self.depth += 1
                env2 = dict(env)
                inner = self.seq(e[1], env2, ind, lambda v, env3, ind3: ['\0'])
                self.depth -= 1
                if inner[-1] != '\0':
                    self.fail('internal: nested block')
                # variables declared in the block go out of scope; the rebound ones keep their (Lean) names
                return inner[:-1] + self.seq(rest, env, ind, kont)
            if e[0] in ('iflet', 'match', 'return', 'break'):
                self.fail('`%s` is not in the translated language' % e[0])
            if not semi and not rest:
                # the tail expression
                if self.is_result and self.depth == 0:
                    if not (e[0] == 'call' and e[1] == ('var', 'Ok') and len(e[2]) == 1):
                        self.fail('the tail of a `Result` function is not `Ok(..)`')
                    e = e[2][0]
                t = self.ex(e, env, self.tail_expect if self.depth == 0 else None)
                out = self.flush(ind)
                out += self.drop_stmt_guards(env, ind)
                return out + kont(t, env, ind)
            if not semi:
                self.fail('an expression without `;` in the middle of a block')
            out = [pad + '-- %s;' % show(e)]
            self.ex(e, env)
            out += self.flush(ind)
            out += self.drop_stmt_guards(env, ind)
            return out + self.seq(rest, env, ind, kont)
        self.fail('statement `%s` is not in the translated language' % k)

    def diverges(self, blk):
        return bool(blk) and blk[-1][0] == 'expr' and blk[-1][1][0] == 'continue'

    def dry(self, f):
        """run an emission of a nested body for its set of rebound outer variables only"""
        saved = (self.tmp, list(self.pre), list(self.stmt_guards), list(self.block_guards), list(self.externs))
        self.collectors.append((self.depth + 1, set()))
        f()
        _, s = self.collectors.pop()
        self.tmp, self.pre, self.stmt_guards, self.block_guards, self.externs = saved
        return s

    def if_(self, e, rest, env, ind, kont):
        pad = '  ' * ind
        c, th, el = e[1], e[2], e[3]
        ct = self.ex(c, env)
        if ct[2] == 'bool':
            cond = '%s = true' % par(ct, P_CMP + 1)
        elif ct[2] == 'prop':
            cond = ct[0]
        else:
            self.fail('condition of type %r' % (ct[2],))
        out = self.flush(ind)
        out.append(pad + '-- if %s { .. }' % show(c))
        if el is None and self.diverges(th):
            self.depth += 1
            a = self.seq(th, dict(env), ind + 1, lambda v, env2, ind2: self.fail('internal: diverging branch'))
            self.depth -= 1
            a = wrap(a)
            return out + [pad + 'if %s then' % cond] + a + [pad + 'else'] + self.seq(rest, env, ind, kont)
        if self.diverges(th) or (el is not None and self.diverges(el)):
            self.fail('`continue` in a branch of an `if` .. `else`')

        def branch(blk, names):
            self.depth += 1
            env2 = dict(env)
            r = self.seq(blk or [], env2, ind + 2,
                         lambda v, env3, ind3: ['  ' * ind3 + '.ok %s' % tup([self.lname(x, env) for x in names])] if v is None or v[2] == T_UNIT
                         else self.fail('an `if` with a value'))
            self.depth -= 1
            return r
        assigned = self.dry(lambda: (branch(th, []), branch(el, [])))
        names = self.ordered(assigned, env)
        a = wrap(branch(th, names))
        b = wrap(branch(el, names))
        for x in names:
            self.rebind(x, env)
        lnames = [self.lname(x, env) for x in names]
        r = '_' if not names else (lnames[0] if len(names) == 1 else self.fresh(env, 'st'))
        out += [pad + 'Res.bind (if %s then' % cond] + a + [pad + '  else'] + b[:-1] + [b[-1] + ') fun %s =>' % r]
        out += [pad + l for l in proj_lets(lnames, r)]
        return out + self.seq(rest, env, ind, kont)

    def iter_shape(self, e):
        while e[0] == 'paren':
            e = e[1]

        def base(x, m):
            return x[0] == 'method' and x[2] == m and not x[3] and not x[4]
        if e[0] == 'method' and e[2] == 'enumerate' and not e[3] and not e[4]:
            x = e[1]
            if base(x, 'iter'):
                return 'enum', x[1], None
            if base(x, 'iter_mut'):
                return 'enum_mut', x[1], None
        if e[0] == 'method' and e[2] == 'zip' and not e[3] and len(e[4]) == 1:
            x, y = e[1], e[4][0]
            if base(x, 'iter_mut') and base(y, 'iter'):
                return 'zip_mut', x[1], y[1]
        self.fail('`for .. in %s`: the iterator is not in the translated language' % show(e))

    def for_(self, st, rest, env, ind, kont):
        pad = '  ' * ind
        pat, it, body = st[1], st[2], st[3]
        kind, P, Q = self.iter_shape(it)
        if pat[0] != 'ptuple' or len(pat[1]) != 2:
            self.fail('`for %s in ..`: expected a pair pattern' % show_pat(pat))

        def binder(p, allow_ref):
            if p[0] == 'pwild':
                return None
            if p[0] == 'pref' and allow_ref and p[1][0] == 'pbind' and not p[1][2]:
                return p[1][1]
            if p[0] == 'pbind' and not p[2]:
                return p[1]
            self.fail('`for %s in ..`: pattern' % show_pat(pat))
        pt = self.ex(P, env)
        if pt[2] != T_ARR:
            self.fail('`%s` is not an array of u64' % show(P))
        mut = kind in ('enum_mut', 'zip_mut')
        if mut:
            root, path = self.place_root(P)
            if root is None or root not in env or len(path) != 1 or env[root].ty != T_STATS or env[root].kind not in ('mutref', 'mut', 'guard'):
                self.fail('`%s.iter_mut()`: not a field of a mutable CodesStats' % show(P))
        if kind in ('enum', 'enum_mut'):
            b1 = binder(pat[1][0], False)
            b2 = binder(pat[1][1], not mut)
            tys = ('usize', 'u64')
            kinds = ('val', 'elem' if mut else 'val')
            comb = 'forEnumMut %s' % pt[0] if mut else 'forEnum %s' % pt[0]
        else:
            qt = self.ex(Q, env)
            if qt[2] != T_ARR:
                self.fail('`%s` is not an array of u64' % show(Q))
            b1 = binder(pat[1][0], False)
            b2 = binder(pat[1][1], True)
            tys = ('u64', 'u64')
            kinds = ('elem', 'val')
            comb = 'forZipMut %s %s' % (pt[0], qt[0])
        out = self.flush(ind)
        elem = b2 if kind == 'enum_mut' else (b1 if kind == 'zip_mut' else None)
        if mut and elem is None:
            elem_l = 'x_'
        else:
            elem_l = lean_id(elem) if elem else None

        def run(names):
            self.depth += 1
            env2 = dict(env)
            for b, ty, kd in zip((b1, b2), tys, kinds):
                if b is not None:
                    self.declare(b, ty, env2, kd)

            def exit_(env3, ind3):
                st_ = tup([self.lname(x, env) for x in names])
                if mut:
                    return ['  ' * ind3 + '.ok (%s, %s)' % (elem_l, st_)]
                return ['  ' * ind3 + '.ok %s' % st_]
            self.loops.append(exit_)
            r = self.seq(body, env2, ind + 2,
                         lambda v, env3, ind3: exit_(env3, ind3) if v is None or v[2] == T_UNIT else self.fail('a loop body with a value'))
            self.loops.pop()
            self.depth -= 1
            return r
        assigned = self.dry(lambda: run([]))
        names = self.ordered(assigned, env)
        if mut and root in names:
            # the array is borrowed from `root` for the whole loop
            self.fail('the loop body assigns `%s`, which the iterator borrows' % root)
        lines = run(names)
        lnames = [self.lname(x, env) for x in names]
        st0 = tup(lnames)
        stb = '_' if not names else (lnames[0] if len(names) == 1 else self.fresh(env, 'st'))
        pad2 = '  ' * (ind + 2)
        inner_lets = [pad2 + l for l in proj_lets(lnames, stb)]
        l1 = lean_id(b1) if b1 else '_'
        l2 = lean_id(b2) if b2 else '_'
        if mut:
            if kind == 'enum_mut':
                l2 = elem_l
            else:
                l1 = elem_l
        out.append(pad + '-- for %s in %s { .. }' % (show_pat(pat), show(it)))
        for x in names:
            self.rebind(x, env)
        out.append(pad + 'Res.bind (%s %s fun %s %s %s =>' % (comb, st0, l1, l2, stb))
        out += inner_lets
        if mut:
            lf, _ = self.field_of(T_STATS, path[0])
            nm = self.lname(root, env)
            r = self.fresh(env, 'r')
            out += lines[:-1] + [lines[-1] + ') fun %s =>' % r]
            out.append(pad + 'let %s := { %s with %s := %s.1 }' % (nm, nm, lf, r))
            out += [pad + l for l in proj_lets(lnames, r + '.2')]
            self.rebind(root, env)
        else:
            r = '_' if not names else (lnames[0] if len(names) == 1 else self.fresh(env, 'st'))
            out += lines[:-1] + [lines[-1] + ') fun %s =>' % r]
            out += [pad + l for l in proj_lets(lnames, r)]
        return out + self.seq(rest, env, ind, kont)

    # ---- the function
    def emit(self):
        fn = self.fn
        ret, is_result = self.ret_type(fn['ret'])
        self.is_result = is_result
        self.tail_expect = ret if ret in WIDTH else None
        recv = fn['recv']
        for gk, gn, gb in fn['generics']:
            if gk != 'type':
                self.fail('const generic method')

        def setup():
            env = {}
            binders = []
            if recv is not None:
                kind = {'&mut self': 'mutref', '&self': 'ref', 'self': 'mut'}[recv]
                env['self'] = Var(self.self_ty, 0, kind, lean='self')
                binders.append('(self : %s)' % lean_ty(self.self_ty))
            threaded = []
            for x, mutp, tytext in fn['params']:
                ty, kind = self.param_type(tytext, fn['generics'])
                if x in GENERICS or x == 'self' or x in env:
                    self.fail('parameter `%s`' % x)
                env[x] = Var(ty, 0, 'mut' if (mutp and kind == 'val') else kind)
                binders.append('(%s : %s)' % (lean_id(x), lean_ty(ty)))
                if kind == 'mutref':
                    if not (isinstance(ty, tuple) and ty[0] == 'opaque'):
                        self.fail('`&mut` parameter `%s`' % x)
                    threaded.append(x)
            return env, binders, threaded

        def final(returns_self, threaded):
            def k(v, env, ind):
                out = []
                for g, place in reversed(self.block_guards):
                    out += self.release(g, place, env, ind)
                comps = []
                if ret == T_UNIT:
                    if v is not None and v[2] != T_UNIT:
                        self.fail('a value of type %r at the end of a function without result' % (v[2],))
                else:
                    if v is None:
                        self.fail('the body does not end in an expression')
                    ok = v[2] == ret or (ret in WIDTH and self.unify(v[2], ret) is not None)
                    if isinstance(ret, tuple) and ret[0] == 'tuple' and isinstance(v[2], tuple) and v[2][0] == 'tuple' and len(ret[1]) == len(v[2][1]):
                        ok = all(a == b or (b in WIDTH and self.unify(a, b) is not None) for a, b in zip(v[2][1], ret[1]))
                    if not ok:
                        self.fail('the result has type %r, the function returns %r' % (v[2], ret))
                    comps.append(v)
                comps += [(self.lname(x, env), P_ATOM) for x in threaded]
                if returns_self:
                    comps.append(('self', P_ATOM))
                if len(comps) == 1:
                    return out + ['  ' * ind + '.ok %s' % par(comps[0], P_ATOM)]
                return out + ['  ' * ind + '.ok (%s)' % ', '.join(c[0] for c in comps)]
            return k
        # pass 1: does the body rebind `self`?  which parameters of the wrapped object does it need?
        self.reset()
        env, binders, threaded = setup()
        self.seq(fn['body'], env, 1, final(False, threaded))
        rebound = self.self_rebound
        returns_self = recv == '&mut self' or (recv == '&self' and rebound)
        # pass 2
        self.reset()
        env, binders, threaded = setup()
        body = self.seq(fn['body'], env, 1, final(returns_self, threaded))
        comps = []
        if ret != T_UNIT:
            comps.append(ret)
        comps += [env[x].ty for x in threaded]
        if returns_self:
            comps.append(self.self_ty)
        rt = lean_ty(('tuple', comps)) if len(comps) != 1 else lean_ty(comps[0])
        hdr = []
        tyvars = []
        for x in threaded:
            tyvars.append(env[x].ty[1])
        if self.is_wrapper:
            tyvars.append('W')
        if tyvars:
            hdr.append('{%s : Type}' % ' '.join(tyvars))
        if self.uses_consts:
            hdr.append('(%s : Nat)' % ' '.join(GENERICS))
        for name, tys, r in self.externs:
            hdr.append('(%s : %s)' % (name, ' → '.join([lean_ty(t) for t in tys] + ['Res (%s)' % lean_ty(('tuple', [r] + [t for t in tys if isinstance(t, tuple)]))])))
        lean = self.w.lean_name(self.key)
        self.lines = ['/-- `%s` (%s) -/' % (self.what, REL),
                      'def %s %s : Res (%s) :=' % (lean, ' '.join(hdr + binders), rt)] + body + ['']
        return dict(lean=lean, consts=self.uses_consts, ret=ret, returns_self=returns_self, externs=list(self.externs),
                    threaded=threaded)


def wrap(lines):
    """parenthesise a block of lines"""
    if not lines:
        err('internal: empty block')
    first = lines[0]
    n = len(first) - len(first.lstrip())
    if first.lstrip().startswith('--'):
        # keep the comment outside
        return [first] + wrap(lines[1:])
    out = [first[:n] + '(' + first[n:]] + lines[1:]
    if out[-1].lstrip().startswith('--'):
        err('internal: block ending in a comment')
    out[-1] = out[-1] + ')'
    return out


def gen(src):
    rsx.Ctx.rel = REL
    w = World(src)
    for key in list(w.fns):
        w.need(key)
    out = []
    for key in w.order:
        out += w.text[key]
    return out


HEAD = ['-- (tools/translate_statsbodies.py: the method bodies of `CodesStats` and `CodesStatsWrapper`, src/utils/stats.rs,',
        '-- on the structures `Stats` (lean/Dsi/Glue/Stats.lean) and `StatsWrapper` (lean/Dsi/Glue/StatsWrapper.lean);',
        '-- u64 / usize overflow is `dpanic`; `wrapped_read` / `wrapped_write` are the wrapped object\'s methods.)',
        'import Dsi.Glue.StatsWrapper', 'import Dsi.Gen.LenFormulas', '', 'namespace Dsi.Gen.StatsBodies', 'open Dsi Dsi.Gen',
        'set_option linter.unusedVariables false', '']


def main(write_if_changed, HEADER, src, TranslateError):
    rsx.Ctx.TE = TranslateError
    head = [HEADER.rstrip('\n')] + HEAD
    try:
        body = gen(src)
    except TranslateError as ex:
        write_if_changed('StatsBodies.lean', '\n'.join(head + ['-- TRANSLATION FAILED: %s' % str(ex).replace('\n', ' '), '',
                                                               'end Dsi.Gen.StatsBodies', '']))
        raise
    return ['StatsBodies'] if write_if_changed('StatsBodies.lean', '\n'.join(head + body + ['end Dsi.Gen.StatsBodies', ''])) else []


if __name__ == '__main__':
    import translate
    try:
        print(main(translate.write_if_changed, translate.HEADER, translate.src, translate.TranslateError))
    except translate.TranslateError as ex:
        print('translate: ERROR: %s' % ex)
        sys.exit(3)
