#!/usr/bin/env python3
"""Translator for the *arithmetic bodies* of the code modules: the straight-line `len_*` functions of
src/codes/*.rs -> lean/Dsi/Gen/LenFormulas.lean, and (part 2, see the comment before PROG_FUNCS) the
straight-line read / write bodies -> lean/Dsi/Gen/CodeBodies.lean as WProg / RProg terms.

Unlike the other translators (which emit data: tables, constants, match-arm lists) this one emits
Lean *definitions*: every listed Rust function body is parsed into a tiny expression/statement
language and printed as a Lean function over `Nat` with the same name, the same variable names and
the same order of statements, so that a reader can put the two texts side by side.
lean/Dsi/Props/LenGen.lean proves every generated function equal to the hand-written model function
of lean/Dsi/Codes.lean / lean/Dsi/Defaults.lean that every other theorem is about.  Changing one of
these Rust bodies therefore changes a generated definition and breaks one of those proofs.

The language (anything else raises TranslateError: the translator fails closed):

  statements   let x = e;   let mut x = e;   x = e;   x += e;  x -= e;  x *= e;  x /= e;  x %= e;
               x <<= e;  x >>= e;   return e;   a tail expression;
               if c { .. }   if c { .. } else { .. }   if let Some(x) = T.get(e) { .. }
               loop { .. }  (only as the last statement, only in a function with a declared fuel)
               #[cfg(target_arch = "arm")] / #[cfg(not(target_arch = "arm"))] on a statement
               (evaluated for a non-arm target: the statement is kept or dropped)
  expressions  integer literals (suffix u64/usize or none), variables, const-generic flags,
               + - * / % << >>,  == != < <= > >=,  `as usize` `as u64` `as _`,  `*x` on a table
               entry,  e.ilog2(),  a.wrapping_sub(b),  f(..) / f::<FLAGS>(..) for an already
               translated f,  T::LEN.get(e) and T::K for the generated tables.

Meaning of the arithmetic (all integer types occurring in these bodies are u64, usize on a 64-bit
target, or the u32 returned by `ilog2`; values are `Nat`s):

  * `as usize` / `as u64` / `as _`: identity (widening or same-width casts of values below 2^64);
  * `a << b`: `(a <<< b) % 2 ^ 64`  -- the high bits are dropped silently (shift amounts >= 64
    panic in debug builds and are outside the domain of the theorems);
  * `a.wrapping_sub(b)`: `(a + 2 ^ 64 - b) % 2 ^ 64`;
  * `a >> b`: `a >>> b`;   `e.ilog2()`: `Nat.log2 e` (`ilog2(0)` panics; `Nat.log2 0 = 0`);
  * `+ * /  %` and `-`: the plain `Nat` operations.  In Rust these panic on overflow / underflow /
    division by zero in debug builds (and `+ - *` wrap in release); the hand-written model does the
    same and the theorems carry the domain bounds (`n < 2^64 - 1`, ...) under which no such event
    happens, so no `% 2 ^ 64` is emitted for them.

Control flow is turned into an expression, keeping the order of the text:

  * `let` and reassignment become (shadowing) `let x := ..`;
  * `if c { ..always returns.. } rest`  becomes  `if c then .. else rest`;
  * `if c { x += 1; } rest` (no return inside) becomes `let x := if c then (..; x) else x`;
  * `if c { ..may return, assigns nothing.. } rest` becomes
    `match <the block as an Option: some r = returned r, none = fell through> with
     | some ret => ret | none => rest`;
  * `loop { .. }` becomes a function `<fn>_loop` recursive on a fuel argument whose other arguments
    are the mutable variables assigned in the loop; a self-recursive function `f` becomes
    `f_fuel`.  Running out of fuel yields 0; FUEL below says why that cannot happen for u64 input.

Called from translate.py:  translate_len.main(write_if_changed, HEADER, src, TranslateError)
"""
import os, sys
sys.path.insert(0, os.path.dirname(os.path.abspath(__file__)))
from rstok import tokenize, match_close, num_value

TE = Exception      # replaced by translate.TranslateError in main()


def err(msg):
    raise TE('code bodies: ' + msg)


# (file, function) in dependency order: a call may only refer to a function translated earlier.
LEN_FUNCS = [
    ('src/codes/gamma.rs', 'len_gamma_param'),
    ('src/codes/gamma.rs', 'len_gamma'),
    ('src/codes/delta.rs', 'len_delta_param'),
    ('src/codes/delta.rs', 'len_delta'),
    ('src/codes/minimal_binary.rs', 'len_minimal_binary'),
    ('src/codes/zeta.rs', 'len_zeta_param'),
    ('src/codes/zeta.rs', 'len_zeta'),
    ('src/codes/omega.rs', 'recursive_len'),
    ('src/codes/omega.rs', 'len_omega'),
    ('src/codes/rice.rs', 'len_rice'),
    ('src/codes/pi.rs', 'len_pi'),
    ('src/codes/golomb.rs', 'len_golomb'),
    ('src/codes/exp_golomb.rs', 'len_exp_golomb'),
    ('src/codes/vbyte.rs', 'byte_len_vbyte'),
    ('src/codes/vbyte.rs', 'bit_len_vbyte'),
]

# fuel of the bounded loop / recursion, with the reason it suffices for every u64 argument
FUEL = {
    'byte_len_vbyte': (10, [
        'every iteration performs `value >>= 7` and stops when the result is 0; a u64 is below',
        '2^64 <= 2^70 = 128^10, so `value` reaches 0 after at most 10 iterations (`value -= 1` only',
        'makes it smaller); the 11th call is never made.']),
    'recursive_len': (8, [
        'the argument of the recursive call is `ilog2` of the current one: from a u64 the chain is',
        'n <= 2^64 - 1, then <= 63, <= 5, <= 2, <= 1 (stop): at most 5 nested calls, 8 is ample.']),
}

TABLE_MODS = {'gamma_tables': 'Gamma', 'delta_tables': 'Delta', 'zeta_tables': 'Zeta'}
INT_TYPES = ('u64', 'usize')
CAST_OK = ('u64', 'usize', '_')
# narrowing casts (len_* functions only): the value is reduced modulo 2^width
NARROW = {'u32': 32, 'u16': 16, 'u8': 8}
LEAN_RESERVED = {'λ', 'fun', 'at', 'from', 'have', 'show', 'then', 'else', 'do', 'if', 'let', 'in', 'end', 'by',
                 'match', 'with', 'where', 'open', 'def', 'theorem', 'instance', 'structure', 'class', 'namespace',
                 'section', 'variable', 'universe', 'import', 'Type', 'Prop', 'Sort', 'forall', 'exists', 'this',
                 'calc', 'for', 'return', 'mut', 'macro', 'syntax', 'notation', 'infix', 'prefix', 'postfix'}


def lean_id(name):
    if name in LEAN_RESERVED or not all(c == '_' or c.isalnum() for c in name) or any(ord(c) > 127 for c in name):
        return '«%s»' % name
    return name


# ------------------------------------------------------------------------------------------
# parser: tokens -> AST
# ------------------------------------------------------------------------------------------
# expressions: ('num', v) ('var', x) ('bool', b) ('bin', op, a, b) ('cast', e, ty) ('deref', e)
#              ('method', recv, name, args, flags) ('call', name, flags, args) ('path', [seg..])
#              prog mode only: ('try', e)  ('ifexpr', c, then, else)
# statements:  ('let', x, mut, e) ('assign', x, op, e) ('return', e) ('tail', e)
#              ('if', c, then, else|None) ('iflet', x, e, then) ('loop', body)
#              prog mode only: ('cfg', positive, stmt)  -- #[cfg([not](feature = "checks"))]
#                              ('block', stmts) ('expr', e) ('dassert', text)

BINOPS = [  # Rust precedence, lowest first; comparisons are non-associative
    ('cmp', ['==', '!=', '<', '<=', '>', '>=']),
    ('shift', ['<<', '>>']),
    ('add', ['+', '-']),
    ('mul', ['*', '/', '%']),
]
BINOPS_PROG = [BINOPS[0], ('bor', ['|']), ('bxor', ['^']), ('band', ['&'])] + BINOPS[1:]
ASSIGN_OPS = {'=': None, '+=': '+', '-=': '-', '*=': '*', '/=': '/', '%=': '%', '<<=': '<<', '>>=': '>>'}
ASSIGN_OPS_PROG = dict(ASSIGN_OPS, **{'|=': '|', '^=': '^', '&=': '&'})


class Parser:
    def __init__(self, toks, what, prog=False):
        self.t = toks
        self.i = 0
        self.what = what
        self.prog = prog            # the larger language of the read/write bodies
        self.binops = BINOPS_PROG if prog else BINOPS
        self.assign_ops = ASSIGN_OPS_PROG if prog else ASSIGN_OPS

    def fail(self, msg):
        ctx = ' '.join(x[1] for x in self.t[max(0, self.i - 4):self.i + 6])
        err('%s: %s (near `%s`)' % (self.what, msg, ctx))

    def peek(self, k=0):
        return self.t[self.i + k] if self.i + k < len(self.t) else ('eof', '')

    def at(self, text, k=0):
        kd, t = self.peek(k)
        return t == text and kd in ('p', 'id')

    def eat(self, text):
        if not self.at(text):
            self.fail('expected `%s`' % text)
        self.i += 1

    def ident(self):
        kd, t = self.peek()
        if kd != 'id':
            self.fail('expected an identifier')
        self.i += 1
        return t

    # ---- expressions
    def expr(self, level=0, no_struct=False):
        if level == len(self.binops):
            return self.cast_expr()
        name, ops = self.binops[level]
        a = self.expr(level + 1)
        n = 0
        while self.peek()[0] == 'p' and self.peek()[1] in ops:
            if name == 'cmp' and n:
                self.fail('chained comparison')
            op = self.peek()[1]
            self.i += 1
            b = self.expr(level + 1)
            a = ('bin', op, a, b)
            n += 1
        kd, t = self.peek()
        bad = ('&&', '||', '..', '..=') if self.prog else ('&', '|', '^', '&&', '||', '..', '..=', '?')
        if level == 0 and kd == 'p' and t in bad:
            self.fail('operator `%s` is not in the translated language' % t)
        return a

    def cast_expr(self):
        e = self.unary()
        while self.at('as'):
            self.i += 1
            ty = self.ident()
            if ty not in CAST_OK and not (ty in NARROW and not self.prog):
                self.fail('cast to `%s` is not in the translated language' % ty)
            e = ('cast', e, ty)
        return e

    def unary(self):
        if self.at('*'):
            self.i += 1
            return ('deref', self.unary())
        kd, t = self.peek()
        if kd == 'p' and t in ('-', '!', '&'):
            self.fail('unary `%s` is not in the translated language' % t)
        return self.postfix()

    def args(self):
        self.eat('(')
        out = []
        while not self.at(')'):
            out.append(self.expr())
            if self.at(','):
                self.i += 1
            elif not self.at(')'):
                self.fail('expected `,` or `)`')
        self.eat(')')
        return out

    def postfix(self):
        e = self.primary()
        while self.at('.') or (self.prog and self.at('?')):
            if self.at('?'):
                self.i += 1
                e = ('try', e)
                continue
            self.i += 1
            name = self.ident()
            flags = []
            if self.at('::'):
                if not self.prog:
                    self.fail('generic method call')
                self.i += 1
                flags = self.flag_args()
            e = ('method', e, name, self.args(), flags)
        return e

    def flag_args(self):
        """`<FLAG, ..>` after `::` (const-generic flags only; `_` / endianness type arguments are skipped)"""
        self.eat('<')
        flags = []
        while not self.at('>'):
            kd2, t2 = self.peek()
            if kd2 != 'id':
                self.fail('generic argument is not a flag')
            self.i += 1
            if t2 in ('true', 'false'):
                flags.append(('bool', t2 == 'true'))
            elif self.prog and t2 in ('_', 'BE', 'LE', 'E', 'BO'):
                pass
            else:
                flags.append(('var', t2))
            if self.at(','):
                self.i += 1
        self.eat('>')
        return flags

    def primary(self):
        kd, t = self.peek()
        if kd == 'num':
            self.i += 1
            suffix = t.split(':')[1] if ':' in t else None
            if suffix is not None and suffix not in INT_TYPES and not (self.prog and suffix == 'u128'):
                self.fail('literal suffix `%s`' % suffix)
            if '.' in t or 'e' in t.split(':')[0].lower() and not t.startswith('0x'):
                self.fail('non-integer literal')
            return ('num', num_value(t), suffix)
        if kd == 'p' and t == '(':
            self.i += 1
            e = self.expr()
            self.eat(')')
            return e
        if kd == 'id':
            if t in ('true', 'false'):
                self.i += 1
                return ('bool', t == 'true')
            if t == 'if' and self.prog:
                self.i += 1
                c = self.expr()
                th = self.block()
                self.eat('else')
                return ('ifexpr', c, th, self.block())
            if t in ('if', 'match', 'loop', 'while', 'for', 'unsafe', 'move', 'return', 'break', 'continue'):
                self.fail('`%s` in expression position' % t)
            segs = [self.ident()]
            flags = None
            while self.at('::'):
                self.i += 1
                if self.at('<'):
                    flags = self.flag_args()
                    break
                segs.append(self.ident())
            if self.at('('):
                if len(segs) != 1:
                    self.fail('call of a path')
                return ('call', segs[0], flags or [], self.args())
            if flags is not None:
                self.fail('generic arguments without a call')
            if len(segs) == 1:
                return ('var', segs[0])
            return ('path', segs)
        self.fail('unrecognised expression')

    # ---- statements
    def cfg_attr(self):
        """`#[cfg(PRED)]` -> bool for a non-arm target, or ('checks', positive) for the cargo feature
        (prog mode); any other attribute is refused."""
        self.eat('#')
        self.eat('[')
        if not self.at('cfg'):
            self.fail('attribute other than cfg on a statement')
        self.i += 1
        self.eat('(')
        v = self.cfg_pred()
        self.eat(')')
        self.eat(']')
        return v

    def cfg_pred(self):
        if self.at('not'):
            self.i += 1
            self.eat('(')
            v = self.cfg_pred()
            self.eat(')')
            if isinstance(v, tuple):
                return ('checks', not v[1])
            return not v
        if self.at('feature') and self.prog:
            self.i += 1
            self.eat('=')
            kd, t = self.peek()
            if kd != 'str' or t != 'checks':
                self.fail('cfg(feature = ..): only the `checks` feature is known')
            self.i += 1
            return ('checks', True)
        if self.at('target_arch'):
            self.i += 1
            self.eat('=')
            kd, t = self.peek()
            if kd != 'str':
                self.fail('cfg(target_arch = ..) without a string')
            self.i += 1
            if t != 'arm':
                self.fail('cfg(target_arch = "%s"): only the arm / not-arm split is known' % t)
            return False
        self.fail('cfg predicate is not in the translated language')

    def block(self):
        self.eat('{')
        stmts = []
        while not self.at('}'):
            keep = True
            feat = None
            while self.at('#'):
                v = self.cfg_attr()
                if isinstance(v, tuple):
                    if feat is not None:
                        self.fail('two feature attributes on one statement')
                    feat = v[1]
                else:
                    keep = v and keep
            s = self.stmt()
            if feat is not None:
                if s[0] != 'block':
                    self.fail('cfg(feature) on something that is not a block')
                s = ('cfg', feat, s)
            if keep:
                stmts.append(s)
        self.eat('}')
        return stmts

    def stmt(self):
        if self.at('let'):
            self.i += 1
            mut = False
            if self.at('mut'):
                mut = True
                self.i += 1
            x = self.ident()
            if self.at(':'):
                self.i += 1
                ty = self.ident()
                if ty not in INT_TYPES:
                    self.fail('let with type `%s`' % ty)
            self.eat('=')
            e = self.expr()
            self.eat(';')
            return ('let', x, mut, e)
        if self.at('return'):
            self.i += 1
            e = self.expr()
            self.eat(';')
            return ('return', e)
        if self.at('loop'):
            self.i += 1
            return ('loop', self.block())
        if self.at('if'):
            self.i += 1
            if self.at('let'):
                self.i += 1
                self.eat('Some')
                self.eat('(')
                x = self.ident()
                self.eat(')')
                self.eat('=')
                e = self.expr()
                body = self.block()
                if self.at('else'):
                    self.fail('`if let .. else`')
                return ('iflet', x, e, body)
            c = self.expr()
            th = self.block()
            el = None
            if self.at('else'):
                self.i += 1
                if self.at('if'):
                    el = [self.stmt()]
                else:
                    el = self.block()
            if self.at(';'):
                self.i += 1
            return ('if', c, th, el)
        kd, t = self.peek()
        if kd == 'id' and self.peek(1)[0] == 'p' and self.peek(1)[1] in self.assign_ops:
            x = self.ident()
            op = self.peek()[1]
            self.i += 1
            e = self.expr()
            self.eat(';')
            return ('assign', x, self.assign_ops[op], e)
        if self.prog and kd == 'p' and t == '{':
            return ('block', self.block())
        if self.prog and kd == 'id' and t == 'debug_assert' and self.at('!', 1) and self.at('(', 2):
            j = match_close(self.t, self.i + 2)
            from rstok import split_top
            text = ' '.join(x[1] for x in (split_top(self.t[self.i + 3:j]) or [[]])[0])
            self.i = j + 1
            self.eat(';')
            return ('dassert', text)
        if kd == 'id' and t in ('while', 'for', 'match', 'break', 'continue', 'unsafe', 'debug_assert', 'assert'):
            self.fail('statement `%s` is not in the translated language' % t)
        e = self.expr()
        if self.at('}'):
            return ('tail', e)
        if self.prog and self.at(';') and e[0] == 'try':
            self.i += 1
            return ('expr', e)
        self.fail('expression statement without effect')


def find_fn(toks, name, rel):
    """Index of the single `fn name` in the file."""
    hits = [i for i in range(len(toks) - 1) if toks[i] == ('id', 'fn') and toks[i + 1] == ('id', name)]
    if len(hits) != 1:
        err('%s: expected exactly one `fn %s`, found %d' % (rel, name, len(hits)))
    return hits[0]


def parse_fn(toks, name, rel):
    """-> dict(name, flags=[..], params=[(x, mut)], body=[stmts])"""
    i = find_fn(toks, name, rel)
    p = Parser(toks, '%s: fn %s' % (rel, name))
    p.i = i + 2
    flags = []
    if p.at('<'):
        p.i += 1
        while not p.at('>'):
            p.eat('const')
            f = p.ident()
            p.eat(':')
            if p.ident() != 'bool':
                p.fail('const generic that is not a bool')
            flags.append(f)
            if p.at(','):
                p.i += 1
        p.eat('>')
    p.eat('(')
    params = []
    while not p.at(')'):
        mut = False
        if p.at('mut'):
            mut = True
            p.i += 1
        x = p.ident()
        p.eat(':')
        ty = p.ident()
        if ty not in INT_TYPES:
            p.fail('parameter `%s` of type `%s`' % (x, ty))
        params.append((x, mut))
        if p.at(','):
            p.i += 1
    p.eat(')')
    p.eat('->')
    if p.ident() not in INT_TYPES:
        p.fail('return type')
    if not p.at('{'):
        p.fail('expected the body')
    body = p.block()
    return dict(name=name, flags=flags, params=params, body=body, rel=rel)


# ------------------------------------------------------------------------------------------
# emitter: AST -> Lean
# ------------------------------------------------------------------------------------------

P_CMP, P_ADD, P_MUL, P_SHIFT, P_APP, P_ATOM = 50, 65, 70, 75, 1022, 1024
LEAN_BIN = {'+': ('+', P_ADD), '-': ('-', P_ADD), '*': ('*', P_MUL), '/': ('/', P_MUL), '%': ('%', P_MUL),
            '>>': ('>>>', P_SHIFT),
            '==': ('=', P_CMP), '!=': ('≠', P_CMP), '<': ('<', P_CMP), '<=': ('≤', P_CMP), '>': ('>', P_CMP),
            '>=': ('≥', P_CMP)}


def par(tp, need):
    t, p = tp
    return t if p >= need else '(%s)' % t


class Emitter:
    def __init__(self, fn, known):
        self.fn = fn
        self.known = known          # name -> (nflags, nparams) of the functions translated so far
        self.what = '%s: fn %s' % (fn['rel'], fn['name'])
        self.aux = []               # auxiliary definitions (loop / fuel functions), emitted first
        self.selfrec = False

    def fail(self, msg):
        err('%s: %s' % (self.what, msg))

    # scope: dict name -> 'flag' | 'const' (immutable) | 'mut' | 'entry' (binding of `if let Some(x) = T.get(..)`)
    def expr(self, e, sc):
        k = e[0]
        if k == 'num':
            return (str(e[1]), P_ATOM)
        if k == 'bool':
            return ('true' if e[1] else 'false', P_ATOM)
        if k == 'var':
            if e[1] not in sc:
                self.fail('unknown variable `%s`' % e[1])
            if sc[e[1]] == 'entry':
                self.fail('table entry `%s` used without `*`' % e[1])
            return (lean_id(e[1]), P_ATOM)
        if k == 'deref':
            if e[1][0] != 'var' or sc.get(e[1][1]) != 'entry':
                self.fail('`*` on something that is not a table entry')
            return (lean_id(e[1][1]), P_ATOM)
        if k == 'cast':
            if e[2] in NARROW:
                # `as u32` / `as u16` / `as u8` of an unsigned value: truncation
                return ('%s %% 2 ^ %d' % (par(self.expr(e[1], sc), P_MUL + 1), NARROW[e[2]]), P_MUL)
            return self.expr(e[1], sc)
        if k == 'path':
            if len(e[1]) == 2 and e[1][0] in TABLE_MODS and e[1][1] == 'K' and e[1][0] == 'zeta_tables':
                return ('%s.K' % TABLE_MODS[e[1][0]], P_ATOM)
            self.fail('path `%s`' % '::'.join(e[1]))
        if k == 'bin':
            op, a, b = e[1], e[2], e[3]
            if op == '<<':
                return ('(%s <<< %s) %% 2 ^ 64' % (par(self.expr(a, sc), P_SHIFT),
                                                  par(self.expr(b, sc), P_SHIFT + 1)), P_MUL)
            if op not in LEAN_BIN:
                self.fail('operator `%s`' % op)
            lop, p = LEAN_BIN[op]
            if p == P_CMP:
                return ('%s %s %s' % (par(self.expr(a, sc), p + 1), lop, par(self.expr(b, sc), p + 1)), p)
            if p == P_SHIFT:
                # Lean's `>>>` binds tighter than `+` and `*` (Rust's `>>` looser): the result is given a low
                # precedence so that it is always parenthesised inside arithmetic
                return ('%s %s %s' % (par(self.expr(a, sc), p), lop, par(self.expr(b, sc), p + 1)), P_CMP + 1)
            return ('%s %s %s' % (par(self.expr(a, sc), p), lop, par(self.expr(b, sc), p + 1)), p)
        if k == 'method':
            recv, name, args = e[1], e[2], e[3]
            if name == 'ilog2' and not args:
                return ('%s.log2' % par(self.expr(recv, sc), P_ATOM), P_ATOM)
            if name == 'wrapping_sub' and len(args) == 1:
                return ('(%s + 2 ^ 64 - %s) %% 2 ^ 64' % (par(self.expr(recv, sc), P_ADD),
                                                         par(self.expr(args[0], sc), P_ADD + 1)), P_MUL)
            if name in ('wrapping_shl', 'wrapping_shr') and len(args) == 1:
                # `wrapping_shl(k)` / `wrapping_shr(k)`: the shift amount is reduced modulo the width of the
                # receiver, which must be evident from the text (a suffixed literal or a cast)
                w = None
                if recv[0] == 'num' and recv[2] in ('u64', 'usize'):
                    w = 64
                elif recv[0] == 'cast' and recv[2] in ('u64', 'usize'):
                    w = 64
                if w is None:
                    self.fail('`.%s()` on a receiver whose width is not evident' % name)
                amt = '%s %% %d' % (par(self.expr(args[0], sc), P_MUL + 1), w)
                if name == 'wrapping_shl':
                    return ('(%s <<< (%s)) %% 2 ^ %d' % (par(self.expr(recv, sc), P_SHIFT), amt, w), P_MUL)
                return ('%s >>> (%s)' % (par(self.expr(recv, sc), P_SHIFT), amt), P_CMP + 1)
            self.fail('method `.%s()`' % name)
        if k == 'call':
            name, flags, args = e[1], e[2], e[3]
            if name == self.fn['name']:
                if name not in FUEL:
                    self.fail('recursive function without a declared fuel')
                if flags:
                    self.fail('recursive call with generic arguments')
                self.selfrec = True
                target = '%s_fuel fuel' % name
                nf, np_ = 0, len(self.fn['params'])
            else:
                if name not in self.known:
                    self.fail('call of `%s`, which is not (yet) translated' % name)
                nf, np_ = self.known[name]
                target = name
            if len(flags) != nf or len(args) != np_:
                self.fail('call of `%s` with %d flags / %d arguments, expected %d / %d' % (name, len(flags), len(args), nf, np_))
            parts = [target]
            for f in flags:
                if f[0] == 'var' and sc.get(f[1]) != 'flag':
                    self.fail('generic argument `%s` is not a const flag' % f[1])
                parts.append(par(self.expr(f, sc), P_ATOM))
            for a in args:
                parts.append(par(self.expr(a, sc), P_ATOM))
            return (' '.join(parts), P_APP)
        self.fail('expression %r' % (e,))

    def cond(self, e, sc):
        """a condition: a comparison or a const flag"""
        if e[0] == 'bin' and e[1] in ('==', '!=', '<', '<=', '>', '>='):
            return self.expr(e, sc)[0]
        if e[0] == 'var' and sc.get(e[1]) == 'flag':
            return lean_id(e[1])
        self.fail('condition is neither a comparison nor a const flag')

    def table_get(self, e, sc):
        """`T::LEN.get(idx)` -> `T.LEN[idx]?`"""
        if (e[0] == 'method' and e[2] == 'get' and len(e[3]) == 1 and e[1][0] == 'path' and len(e[1][1]) == 2
                and e[1][1][0] in TABLE_MODS and e[1][1][1] == 'LEN'):
            return '%s.LEN[%s]?' % (TABLE_MODS[e[1][1][0]], self.expr(e[3][0], sc)[0])
        self.fail('`if let Some(..)` on something that is not a LEN table lookup')

    # ---- classification of blocks
    def may_return(self, stmts):
        for s in stmts:
            if s[0] == 'return':
                return True
            if s[0] == 'if' and (self.may_return(s[2]) or (s[3] is not None and self.may_return(s[3]))):
                return True
            if s[0] == 'iflet' and self.may_return(s[3]):
                return True
            if s[0] == 'loop':
                return True
        return False

    def always_returns(self, stmts):
        if not stmts:
            return False
        s = stmts[-1]
        if s[0] in ('return', 'tail', 'loop'):
            return True
        if s[0] == 'if' and s[3] is not None:
            return self.always_returns(s[2]) and self.always_returns(s[3])
        return False

    def assigned(self, stmts, local=None):
        """outer variables assigned in the block, in order of first assignment"""
        local = set(local or ())
        out = []
        for s in stmts:
            if s[0] == 'let':
                local.add(s[1])
            elif s[0] == 'assign':
                if s[1] not in local and s[1] not in out:
                    out.append(s[1])
            elif s[0] == 'if':
                for blk in (s[2], s[3] or []):
                    for x in self.assigned(blk, local):
                        if x not in out:
                            out.append(x)
            elif s[0] in ('iflet', 'loop'):
                for x in self.assigned(s[3] if s[0] == 'iflet' else s[1], local):
                    if x not in out:
                        out.append(x)
        return out

    # ---- statements
    def opt_block(self, stmts, sc):
        """block that may return and otherwise falls through *without assigning*: an `Option Nat`"""
        if not stmts:
            return 'none'
        if len(stmts) != 1:
            self.fail('early-return block with more than one statement')
        s = stmts[0]
        if s[0] == 'return':
            return 'some %s' % par(self.expr(s[1], sc), P_ATOM)
        if s[0] == 'if' and s[3] is None:
            inner = self.opt_block(s[2], sc)
            if inner.startswith('if '):
                inner = '(%s)' % inner
            return 'if %s then %s else none' % (self.cond(s[1], sc), inner)
        if s[0] == 'iflet':
            sc2 = dict(sc)
            sc2[s[1]] = 'entry'
            return '(match %s with | some %s => %s | none => none)' % (self.table_get(s[2], sc), lean_id(s[1]),
                                                                      self.opt_block(s[3], sc2))
        self.fail('early-return block: statement `%s` not supported' % s[0])

    def stmts(self, ss, sc, ind, tail):
        """Lean lines for the statement list in value position.  `tail`: what to produce when the
        statements run out (None: an error; in a loop body: the recursive call)."""
        sc = dict(sc)
        pad = '  ' * ind
        out = []
        for n, s in enumerate(ss):
            last = n == len(ss) - 1
            k = s[0]
            if k == 'let':
                out.append('%slet %s := %s' % (pad, lean_id(s[1]), self.expr(s[3], sc)[0]))
                sc[s[1]] = 'mut' if s[2] else 'const'
                continue
            if k == 'assign':
                if sc.get(s[1]) != 'mut':
                    self.fail('assignment to `%s`, which is not a mutable variable' % s[1])
                rhs = s[3] if s[2] is None else ('bin', s[2], ('var', s[1]), s[3])
                out.append('%slet %s := %s' % (pad, lean_id(s[1]), self.expr(rhs, sc)[0]))
                continue
            if k in ('return', 'tail'):
                if not last:
                    self.fail('statements after `return`')
                out.append(pad + self.expr(s[1], sc)[0])
                return out
            if k == 'loop':
                if not last:
                    self.fail('statements after `loop`')
                out += self.loop(s[1], sc, ind)
                return out
            if k == 'if' and s[3] is not None:
                if not (last and tail is None and self.always_returns(s[2]) and self.always_returns(s[3])):
                    self.fail('`if .. else ..` that is not the final value of the function')
                out.append('%sif %s then' % (pad, self.cond(s[1], sc)))
                out += self.stmts(s[2], sc, ind + 1, None)
                out.append(pad + 'else')
                out += self.stmts(s[3], sc, ind + 1, None)
                return out
            if k == 'if':
                body = s[2]
                if self.always_returns(body):
                    out.append('%sif %s then' % (pad, self.cond(s[1], sc)))
                    out += self.stmts(body, sc, ind + 1, None)
                    out.append(pad + 'else')
                    continue
                if not self.may_return(body):
                    vs = self.assigned(body)
                    if len(vs) != 1:
                        self.fail('conditional block assigning %d variables (exactly one is supported)' % len(vs))
                    v = vs[0]
                    if sc.get(v) != 'mut':
                        self.fail('assignment to `%s`, which is not a mutable variable' % v)
                    inner = self.stmts(body + [('tail', ('var', v))], sc, ind + 2, None)
                    if len(inner) == 2 and len(body) == 1 and body[0][0] == 'assign':
                        # `if c { x op= e; }`: print on one line
                        rhs = body[0][3] if body[0][2] is None else ('bin', body[0][2], ('var', v), body[0][3])
                        out.append('%slet %s := if %s then %s else %s' % (pad, lean_id(v), self.cond(s[1], sc),
                                                                          self.expr(rhs, sc)[0], lean_id(v)))
                    else:
                        out.append('%slet %s := if %s then (' % (pad, lean_id(v), self.cond(s[1], sc)))
                        out += inner
                        out.append('%s  ) else %s' % (pad, lean_id(v)))
                    continue
                if self.assigned(body):
                    self.fail('block that both assigns outer variables and may return early')
                out.append('%smatch (%s) with' % (pad, self.opt_block([s], sc)))
                out.append('%s| some ret => ret' % pad)
                out.append('%s| none =>' % pad)
                continue
            if k == 'iflet':
                if self.assigned(s[3]):
                    self.fail('block that both assigns outer variables and may return early')
                out.append('%smatch %s with' % (pad, self.opt_block([s], sc)))
                out.append('%s| some ret => ret' % pad)
                out.append('%s| none =>' % pad)
                continue
            self.fail('statement %r' % (k,))
        if tail is None:
            self.fail('the body can end without producing a value')
        out.append(pad + tail)
        return out

    def loop(self, body, sc, ind):
        name = self.fn['name']
        if name not in FUEL:
            self.fail('`loop` in a function without a declared fuel')
        if any(a[0].startswith(name + '_loop') for a in self.aux):
            self.fail('more than one loop')
        fuel, why = FUEL[name]
        state = [v for v in sc if sc[v] == 'mut' and v in self.assigned(body)]
        for v in self.assigned(body):
            if sc.get(v) != 'mut':
                self.fail('assignment to `%s`, which is not a mutable variable' % v)
        # variables of the enclosing scope read in the loop but not part of the state
        free = [v for v in sc if sc[v] in ('const', 'mut', 'flag') and v not in state and self.mentions(body, v)]
        lname = name + '_loop'
        call = ' '.join([lname, 'fuel'] + [lean_id(v) for v in free + state])
        lines = ['/-- the `loop` of `%s`; state: %s.  Fuel %d:' % (name, ', '.join(state), fuel)]
        lines += ['    ' + w for w in why]
        lines[-1] += ' -/'
        lines.append('def %s (fuel : Nat) %s: Nat :=' % (lname, ''.join('(%s : %s) ' % (lean_id(v), 'Bool' if sc[v] == 'flag' else 'Nat')
                                                                          for v in free + state)))
        lines.append('  match fuel with')
        lines.append('  | 0 => 0   -- out of fuel: not reachable from a u64, see above')
        lines.append('  | fuel + 1 =>')
        lines += self.stmts(body, sc, 2, call)
        self.aux.append((lname, lines))
        pad = '  ' * ind
        return ['%s%s %d %s' % (pad, lname, fuel, ' '.join(lean_id(v) for v in free + state))]

    def mentions(self, node, v):
        if isinstance(node, tuple):
            if node[0] == 'var' and node[1] == v:
                return True
            if node[0] == 'assign' and node[1] == v:
                return True
            return any(self.mentions(x, v) for x in node[1:])
        if isinstance(node, list):
            return any(self.mentions(x, v) for x in node)
        return False

    def emit(self):
        fn = self.fn
        name = fn['name']
        sc = {}
        for f in fn['flags']:
            sc[f] = 'flag'
        for x, mut in fn['params']:
            if x in sc:
                self.fail('duplicate parameter `%s`' % x)
            sc[x] = 'mut' if mut else 'const'
        binders = ''.join('(%s : Bool) ' % lean_id(f) for f in fn['flags']) + \
            ''.join('(%s : Nat) ' % lean_id(x) for x, _ in fn['params'])
        body = self.stmts(fn['body'], sc, 1, None)
        out = []
        for _, lines in self.aux:
            out += lines
        src_note = '/-- `%s` (%s) -/' % (name, fn['rel'])
        if self.selfrec:
            fuel, why = FUEL[name]
            out.append('/-- `%s` (%s) with its recursion bounded by a fuel argument.  Fuel %d:' % (name, fn['rel'], fuel))
            out += ['    ' + w for w in why]
            out[-1] += ' -/'
            out.append('def %s_fuel (fuel : Nat) %s: Nat :=' % (name, binders))
            out.append('  match fuel with')
            out.append('  | 0 => 0   -- out of fuel: not reachable from a u64, see above')
            out.append('  | fuel + 1 =>')
            out += ['  ' + l for l in body]
            out.append(src_note)
            out.append('def %s %s: Nat := %s_fuel %d %s' % (name, binders, name, fuel,
                                                          ' '.join(lean_id(x) for x, _ in fn['params'])))
        else:
            if name in FUEL and not self.aux:
                self.fail('a fuel is declared but the body has neither a loop nor a recursive call')
            out.append(src_note)
            out.append('def %s %s: Nat :=' % (name, binders))
            out += body
        return out


# ------------------------------------------------------------------------------------------
# part 2: the straight-line read / write bodies -> WProg / RProg terms (lean/Dsi/Gen/CodeBodies.lean)
# ------------------------------------------------------------------------------------------
# The larger language ("prog mode" of the parser): `recv.m(..)?` with recv = self / the backend
# parameter, `Ok(e)`, `& | ^` and `&= |= ^=`, u128 literals, `#[cfg(feature = "checks")] { .. }`
# blocks (optionally followed by the `not(..)` block), `if .. { .. } else { .. }` in tail position
# or under `Ok(..)`, `debug_assert!(..)` (kept as a comment: it only ever panics in debug builds,
# outside the domain of the theorems).
#
# Effects are sequenced in Rust's evaluation order (left to right, arguments before the call):
#   recv.write_unary(a)?     .writeUnary a fun r =>          recv.read_unary()?   .readUnary fun r =>
#   recv.write_bits(v, n)?   .writeBits v n fun r =>         recv.read_bits(n)?   .readBits n fun r =>
#   recv.f(args)? for a translated f                         (f [checks] args).bind fun r =>
#   recv.g::<FLAGS>(args)? for g in EXTERNAL                 (g FLAGS args).bind fun r =>   with g a parameter
# The generated programs contain NO panic points: overflow of `+`, `-` below zero, shifts by >= 64
# and `ilog2(0)` are outside the domain on which lean/Dsi/Props/CodeBodiesGen.lean compares them
# with the hand-written programs (which do carry those panic points).
# Widths: `<<` and `wrapping_sub` wrap at the width of their left operand (128 for an `_u128`
# literal, 64 otherwise -- an unsuffixed literal combined with u64 values is a u64); `as u64` of a
# 128-bit value is `% 2 ^ 64`.

PROG_FUNCS = [
    ('src/codes/rice.rs', 'write_rice', 'W'),
    ('src/codes/pi.rs', 'write_pi', 'W'),
    ('src/codes/minimal_binary.rs', 'write_minimal_binary', 'W'),
    ('src/codes/golomb.rs', 'write_golomb', 'W'),
    ('src/codes/exp_golomb.rs', 'write_exp_golomb', 'W'),
    ('src/codes/gamma.rs', 'default_write_gamma', 'W'),
    ('src/codes/delta.rs', 'default_write_delta', 'W'),
    ('src/codes/zeta.rs', 'default_write_zeta', 'W'),
    ('src/codes/rice.rs', 'read_rice', 'R'),
    ('src/codes/pi.rs', 'read_pi', 'R'),
    ('src/codes/minimal_binary.rs', 'read_minimal_binary', 'R'),
    ('src/codes/golomb.rs', 'read_golomb', 'R'),
    ('src/codes/exp_golomb.rs', 'read_exp_golomb', 'R'),
    ('src/codes/gamma.rs', 'default_read_gamma', 'R'),
    ('src/codes/delta.rs', 'default_read_delta', 'R'),
    ('src/codes/zeta.rs', 'default_read_zeta', 'R'),
]
PRIMS = {'W': {'write_unary': ('.writeUnary', 1), 'write_bits': ('.writeBits', 2)},
         'R': {'read_unary': ('.readUnary', 0), 'read_bits': ('.readBits', 1)}}
# methods that are not translated (table lookups, per-endianness impls, params.rs defaults):
# they become parameters of the generated function.  name -> (number of flags, number of arguments)
EXTERNAL = {'W': {'write_gamma': (0, 1), 'write_gamma_param': (1, 1)},
            'R': {'read_gamma': (0, 0), 'read_gamma_param': (1, 0)}}
PROG_TY = {'W': 'WProg Nat', 'R': 'RProg Nat'}
LEAN_BIT = {'&': '&&&', '|': '|||', '^': '^^^'}


def parse_fn_prog(toks, name, rel):
    """`fn name<..generics..>(&mut self | backend: &mut B, params..) -> Result<..> { body }`"""
    i = find_fn(toks, name, rel)
    p = Parser(toks, '%s: fn %s' % (rel, name), prog=True)
    p.i = i + 2
    flags = []
    if p.at('<'):
        # generic parameters: `const X: bool` are flags, type parameters (with bounds) are skipped
        depth = 0
        j = p.i
        items, cur = [], []
        while True:
            kd, t = p.t[j]
            if kd == 'p' and t == '<':
                depth += 1
                if depth > 1:
                    cur.append((kd, t))
            elif kd == 'p' and t == '>':
                depth -= 1
                if depth == 0:
                    break
                cur.append((kd, t))
            elif kd == 'p' and t == '>>':
                depth -= 2
                if depth < 0:
                    p.fail('unbalanced generics')
                if depth == 0:
                    cur.append(('p', '>'))
                    break
                cur.append((kd, t))
            elif kd == 'p' and t == ',' and depth == 1:
                items.append(cur)
                cur = []
            else:
                cur.append((kd, t))
            j += 1
        if cur:
            items.append(cur)
        for it in items:
            if it[0] == ('id', 'const'):
                if len(it) != 4 or it[2] != ('p', ':') or it[3] != ('id', 'bool'):
                    p.fail('const generic that is not a bool')
                flags.append(it[1][1])
            elif it[0][0] != 'id' or (len(it) > 1 and it[1] != ('p', ':')):
                p.fail('unrecognised generic parameter')
        p.i = j + 1
    p.eat('(')
    recv = None
    if p.at('&'):
        p.eat('&')
        p.eat('mut')
        p.eat('self')
        recv = 'self'
    else:
        recv = p.ident()
        p.eat(':')
        p.eat('&')
        p.eat('mut')
        p.ident()
    if p.at(','):
        p.i += 1
    params = []
    while not p.at(')'):
        mut = False
        if p.at('mut'):
            mut = True
            p.i += 1
        x = p.ident()
        p.eat(':')
        ty = p.ident()
        if ty not in INT_TYPES:
            p.fail('parameter `%s` of type `%s`' % (x, ty))
        params.append((x, mut))
        if p.at(','):
            p.i += 1
    p.eat(')')
    p.eat('->')
    p.eat('Result')
    while not p.at('{'):
        if p.peek()[0] == 'eof' or p.at(';'):
            p.fail('expected the body')
        p.i += 1
    body = p.block()
    return dict(name=name, flags=flags, params=params, body=body, rel=rel, recv=recv)


class ProgEmitter(Emitter):
    def __init__(self, fn, known, kind):
        Emitter.__init__(self, fn, known)
        self.kind = kind
        self.uses_checks = False
        self.externs = []           # [(name, nflags, nargs)] in order of first use
        self.binds = None
        self.nfresh = 0
        self.hint = None

    def width(self, e, sc):
        k = e[0]
        if k == 'num':
            return 128 if e[2] == 'u128' else 64
        if k == 'bin':
            if e[1] in ('<<', '>>'):
                return self.width(e[2], sc)
            return max(self.width(e[2], sc), self.width(e[3], sc))
        if k == 'method' and e[2] == 'wrapping_sub':
            return self.width(e[1], sc)
        return 64

    def expr(self, e, sc):
        k = e[0]
        if k == 'bin' and e[1] == '<<':
            return ('(%s <<< %s) %% 2 ^ %d' % (par(self.expr(e[2], sc), P_SHIFT), par(self.expr(e[3], sc), P_SHIFT + 1),
                                              self.width(e[2], sc)), P_MUL)
        if k == 'bin' and e[1] in LEAN_BIT:
            # always parenthesised inside arithmetic, operands parenthesised unless atomic / products
            return ('%s %s %s' % (par(self.expr(e[2], sc), P_APP), LEAN_BIT[e[1]], par(self.expr(e[3], sc), P_APP)),
                    P_CMP + 1)
        if k == 'method' and e[2] == 'wrapping_sub' and len(e[3]) == 1:
            w = self.width(e[1], sc)
            return ('(%s + 2 ^ %d - %s) %% 2 ^ %d' % (par(self.expr(e[1], sc), P_ADD), w,
                                                     par(self.expr(e[3][0], sc), P_ADD + 1), w), P_MUL)
        if k == 'cast':
            w = self.width(e[1], sc)
            if w == 64:
                return self.expr(e[1], sc)
            if e[2] == 'u64':
                return ('%s %% 2 ^ 64' % par(self.expr(e[1], sc), P_MUL + 1), P_MUL)
            self.fail('cast of a 128-bit value to `%s`' % e[2])
        if k == 'try':
            return self.effect(e, sc)
        if k == 'call' and e[1] == 'Ok':
            self.fail('`Ok(..)` that is not the result of the function')
        if k == 'ifexpr':
            self.fail('`if` expression that is not directly under the final `Ok(..)`')
        return Emitter.expr(self, e, sc)

    def effect(self, e, sc):
        m = e[1]
        if m[0] != 'method' or m[1] != ('var', self.fn['recv']):
            self.fail('`?` on something that is not a method call on the bit stream')
        if self.binds is None:
            self.fail('an effect in a position where none is allowed')
        name, args, flags = m[2], m[3], m[4]
        hint, self.hint = self.hint, None
        argt = [par(self.expr(a, sc), P_ATOM) for a in args]
        flagt = []
        for f in flags:
            if f[0] == 'var' and sc.get(f[1]) != 'flag':
                self.fail('generic argument `%s` is not a const flag' % f[1])
            flagt.append(par(Emitter.expr(self, f, sc), P_ATOM))
        if hint is None:
            self.nfresh += 1
            hint = 'r%d' % self.nfresh
        prims = PRIMS[self.kind]
        if name in prims:
            ctor, n = prims[name]
            if len(args) != n or flags:
                self.fail('`%s` with %d arguments' % (name, len(args)))
            self.binds.append(' '.join([ctor] + argt + ['fun %s =>' % hint]))
        elif name in self.known:
            kn = self.known[name]
            if kn['kind'] != self.kind:
                self.fail('call of `%s` from the other interface' % name)
            if len(flags) != kn['nflags'] or len(args) != kn['nparams']:
                self.fail('call of `%s` with %d flags / %d arguments' % (name, len(flags), len(args)))
            if kn['externs']:
                self.fail('call of `%s`, which has untranslated callees' % name)
            if kn['checks']:
                self.uses_checks = True
            self.binds.append('(%s).bind fun %s =>' % (' '.join([name] + (['checks'] if kn['checks'] else []) + flagt + argt), hint))
        elif name in EXTERNAL[self.kind]:
            nf, na = EXTERNAL[self.kind][name]
            if len(flags) != nf or len(args) != na:
                self.fail('call of `%s` with %d flags / %d arguments' % (name, len(flags), len(args)))
            if (name, nf, na) not in self.externs:
                self.externs.append((name, nf, na))
            call = ' '.join([name] + flagt + argt)
            self.binds.append(('(%s).bind fun %s =>' if (flagt or argt) else '%s.bind fun %s =>') % (call, hint))
        else:
            self.fail('method `.%s()` is neither a primitive, a translated function nor a declared external' % name)
        return (hint, P_ATOM)

    def with_binds(self, pad, f):
        """run f() collecting the effects it performs; returns (lines of the binds, result of f)"""
        self.binds = []
        r = f()
        lines = [pad + b for b in self.binds]
        self.binds = None
        return lines, r

    @staticmethod
    def direct_try(e):
        while e[0] == 'cast' and e[2] in ('usize', 'u64', '_'):
            e = e[1]
        return e if e[0] == 'try' else None

    def check_shadow(self, blk, rest):
        for s in blk:
            if s[0] == 'let' and self.mentions(rest, s[1]):
                self.fail('block-local `%s` would shadow a later use' % s[1])

    @staticmethod
    def wrap_ok(blk, fail):
        if not blk or blk[-1][0] != 'tail':
            fail('branch of the final `if` without a value')
        return blk[:-1] + [('tail', ('call', 'Ok', [], [blk[-1][1]]))]

    def seq(self, ss, sc, ind):
        sc = dict(sc)
        pad = '  ' * ind
        out = []
        n = 0
        while n < len(ss):
            s = ss[n]
            rest = ss[n + 1:]
            n += 1
            k = s[0]
            if k == 'let' or k == 'assign':
                x = s[1]
                if k == 'assign':
                    if sc.get(x) != 'mut':
                        self.fail('assignment to `%s`, which is not a mutable variable' % x)
                    rhs = s[3] if s[2] is None else ('bin', s[2], ('var', x), s[3])
                else:
                    rhs = s[3]
                d = self.direct_try(rhs) if k == 'let' else None
                if d is not None:
                    self.hint = lean_id(x)
                    lines, _ = self.with_binds(pad, lambda: self.expr(d, sc))
                    out += lines
                else:
                    lines, t = self.with_binds(pad, lambda: self.expr(rhs, sc))
                    out += lines
                    out.append('%slet %s := %s' % (pad, lean_id(x), t[0]))
                if k == 'let':
                    sc[x] = 'mut' if s[2] else 'const'
                continue
            if k == 'expr':
                self.hint = '_'
                lines, _ = self.with_binds(pad, lambda: self.expr(s[1], sc))
                out += lines
                continue
            if k == 'dassert':
                out.append('%s-- debug_assert!(%s)' % (pad, s[1]))
                continue
            if k == 'cfg':
                pos, blk = s[1], s[2][1]
                other = []
                if rest and rest[0][0] == 'cfg':
                    if rest[0][1] == pos:
                        self.fail('two cfg(feature) blocks with the same polarity in a row')
                    other = rest[0][2][1]
                    rest = rest[1:]
                a, b = (blk, other) if pos else (other, blk)
                self.check_shadow(a, rest)
                self.check_shadow(b, rest)
                self.uses_checks = True
                out.append(pad + 'if checks then')
                out += self.seq(a + rest, sc, ind + 1)
                out.append(pad + 'else')
                out += self.seq(b + rest, sc, ind + 1)
                return out
            if k == 'if' and s[3] is not None:
                self.check_shadow(s[2], rest)
                self.check_shadow(s[3], rest)
                c = self.cond(s[1], sc)
                out.append('%sif %s then' % (pad, c))
                out += self.seq(s[2] + rest, sc, ind + 1)
                out.append(pad + 'else')
                out += self.seq(s[3] + rest, sc, ind + 1)
                return out
            if k in ('tail', 'return'):
                if rest:
                    self.fail('statements after the result')
                e = s[1]
                if not (e[0] == 'call' and e[1] == 'Ok' and not e[2] and len(e[3]) == 1):
                    self.fail('the result is not `Ok(..)`')
                x = e[3][0]
                if x[0] == 'ifexpr':
                    return out + self.seq([('if', x[1], self.wrap_ok(x[2], self.fail), self.wrap_ok(x[3], self.fail))], sc, ind)
                lines, t = self.with_binds(pad, lambda: self.expr(x, sc))
                out += lines
                out.append('%s.ret %s' % (pad, par(t, P_ATOM)))
                return out
            self.fail('statement `%s` is not in the translated language' % k)
        self.fail('the body can end without a result')

    def emit(self):
        fn = self.fn
        name = fn['name']
        sc = {}
        for f in fn['flags']:
            sc[f] = 'flag'
        for x, mut in fn['params']:
            if x in sc:
                self.fail('duplicate parameter `%s`' % x)
            sc[x] = 'mut' if mut else 'const'
        body = self.seq(fn['body'], sc, 1)
        ty = PROG_TY[self.kind]
        binders = ''
        for g, nf, na in self.externs:
            binders += '(%s : %s) ' % (g, ' → '.join(['Bool'] * nf + ['Nat'] * na + [ty]))
        if self.uses_checks:
            binders += '(checks : Bool) '
        binders += ''.join('(%s : Bool) ' % lean_id(f) for f in fn['flags'])
        binders += ''.join('(%s : Nat) ' % lean_id(x) for x, _ in fn['params'])
        out = ['/-- `%s` (%s) -/' % (name, fn['rel']), 'def %s %s: %s :=' % (name, binders, ty)] + body
        return out


def gen_prog(src):
    toks_of = {}
    known = {}
    out = []
    for rel, name, kind in PROG_FUNCS:
        if rel not in toks_of:
            toks_of[rel] = tokenize(src(rel))
        fn = parse_fn_prog(toks_of[rel], name, rel)
        em = ProgEmitter(fn, known, kind)
        out += em.emit()
        out.append('')
        known[name] = dict(kind=kind, nflags=len(fn['flags']), nparams=len(fn['params']), checks=em.uses_checks,
                           externs=list(em.externs))
    return out


def gen_len(src):
    toks_of = {}
    known = {}
    out = []
    for rel, name in LEN_FUNCS:
        if rel not in toks_of:
            toks_of[rel] = tokenize(src(rel))
        fn = parse_fn(toks_of[rel], name, rel)
        em = Emitter(fn, known)
        out += em.emit()
        out.append('')
        known[name] = (len(fn['flags']), len(fn['params']))
    return out


def main(write_if_changed, HEADER, src, TranslateError):
    global TE
    TE = TranslateError
    changed = []
    body = gen_len(src)
    text = [HEADER.rstrip('\n'),
            '-- (tools/translate_len.py: the bodies of the `len_*` functions of src/codes/*.rs, statement by',
            '-- statement; u64/usize values are `Nat`s, `<<` and `wrapping_sub` carry their `% 2 ^ 64`.)',
            'import Dsi.Gen.TablesGamma', 'import Dsi.Gen.TablesDelta', 'import Dsi.Gen.TablesZeta', '',
            'namespace Dsi.Gen', ''] + body + ['end Dsi.Gen', '']
    if write_if_changed('LenFormulas.lean', '\n'.join(text)):
        changed.append('LenFormulas')
    body = gen_prog(src)
    text = [HEADER.rstrip('\n'),
            '-- (tools/translate_len.py: the straight-line read / write bodies of src/codes/*.rs as WProg / RProg',
            '-- terms, effects in evaluation order, no panic points; `checks` is the cargo feature.)',
            'import Dsi.Prog', '',
            'namespace Dsi.Gen', 'open Dsi WProg RProg', ''] + body + ['end Dsi.Gen', '']
    if write_if_changed('CodeBodies.lean', '\n'.join(text)):
        changed.append('CodeBodies')
    return changed
