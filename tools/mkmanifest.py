#!/usr/bin/env python3
"""Writes MANIFEST.json from the table below (keeps it valid and in sync with ./check)."""
import json, os, sys
ROOT = os.path.dirname(os.path.dirname(os.path.abspath(__file__)))
sys.path.insert(0, os.path.join(ROOT, 'tools'))

TEXT = {
 'C01': ("L3 model of BufBitWriter refines the L1 reference writer (append bits; canonical byte layout) — simulation theorems per operation, for every word width; tied to the code by a differential run over all (space_left, operation) pairs, word sizes, endiannesses and random histories", "7/C01"),
 'C02': ("L3 model of BufBitReader/BitReader simulates the L1 reference reader (cursor in a bit list) for read/peek/skip/unary/clone; differential run over buffer-fill states x operations and random histories on every reader kind", "7/C02"),
 'C03': ("per-code theorems on the reference stream: the reader program decodes the published codeword wherever it is embedded and consumes exactly it (instantaneous), for the whole domain; differential round trips at offsets on every reader/writer kind and table option", "7/C03"),
 'C04': ("per-code theorems: the implemented writer program (u64 arithmetic, wrapping ops) appends exactly the published codeword (Dsi.Spec, transcribed from the module docs); differential comparison of written bytes with the Lean spec for the value grid and all values below 2^12/2^16", "7/C04"),
 'C05': ("generated tables checked by kernel evaluation against the bit-by-bit reader/writer programs, lifted by a generic lemma to any stream position; differential run of every table index at alignments, table vs non-table on clones", "7/C05"),
 'C06': ("len = |published codeword| = value returned by the write = bits consumed by the read, per code, as theorems; differential run-length comparison of every len_* function", "7/C06"),
 'C07': ("bit_pos/set_bit_pos lemmas of the reader simulation (position is part of the refinement relation); differential run over every seek target x next operation", "7/C07"),
 'C08': ("copy_to/copy_from models refine 'move n bits' on the reference; differential run over n x source state x destination fill x continuation, specialised vs generic copy", "7/C08"),
 'C09': ("strict vs zero-extended semantics are the L1 reference itself; simulation lemmas cover the error cases; differential run over streams truncated after every backend word", "7/C09"),
 'C10': ("generated dispatch tables (every hand-maintained match arm) proved by decide to select the code they name; differential run of every dispatcher kind x identifier", "7/C10"),
 'C11': ("WordAdapter over a fault schedule: lossless-or-error theorem; differential fault enumeration against fault-injecting Read/Write objects", "7/C11"),
 'C12': ("io::Write/io::Read views as programs over the bit interface: appended bits = bytes' bits at any offset; differential run over lengths x offsets x word sizes", "7/C12"),
 'C13': ("MemWord models vs array+cursor spec by case analysis; differential exhaustive op sequences on small arrays", "7/C13"),
 'C14': ("counting/tracing wrappers as transformers: counter = bits moved, values unchanged; differential histories wrapper vs bare", "7/C14"),
 'C15': ("stats totals = sum of lengths with generated offsets; add = union; permutation invariance models thread interleavings at mutex granularity (partial: atomicity is std::sync::Mutex's); differential incl. real threads", "7/C15"),
 'C16': ("parse(display c) = c for every variant and parameter, rejection lemmas, const round trips over generated lists; differential on all variants x parameters and malformed strings", "7/C16"),
 'C17': ("zig-zag bijection proved for every bit width on BitVec w; differential exhaustive 8/16-bit, sampled wider", "7/C17"),
 'C18': ("byte-level VByte = bit-stream VByte bytes; decode(encode v) = v; completeness; length steps; differential incl. all strings of length <= 3", "7/C18"),
 'C19': ("checks flag in the model: write_bits panics iff checks and dirty; library-issued writes are clean; (partial: builds are configurations) the scripts are replayed on harness builds with checks / no_copy_impls x release/dev profiles", "7/C19"),
 'C20': ("length functions monotone; Kraft via Mathlib's Kraft-McMillan; FindChangePoints model: sound, complete up to 2^63, terminating; differential on library length functions and synthetic step functions under a watchdog", "7/C20"),
}
NOTE = ("Trusted: Lean 4.33 kernel (axioms propext, Classical.choice, Quot.sound only, audited by #print axioms on every listed theorem each run); the "
        "translators tools/translate*.py, which regenerate lean/Dsi/Gen from the Rust source on every run (tables, match-arm lists, and statement-by-statement "
        "method bodies; they fail closed) — the *Gen theorems prove the regenerated definitions equal to the hand model and the Headline* theorems restate "
        "the property over the regenerated definitions only; the correspondence check (harness + compiled Lean driver + generators) additionally runs model "
        "and implementation on the same scenarios and is bounded by what the generators reach; rustc/std/common_traits, std::io objects, Mutex are trusted "
        "(DESIGN.md §9, coverage table §4.1-bis).")

def main():
    import props
    claimed = sorted(props.PROPS.keys())
    allp = [json.loads(l)['id'] for l in open(os.path.join(ROOT, 'properties.jsonl'))]
    checks = []
    for pid in claimed:
        text, ref = TEXT[pid]
        checks.append(dict(
            property_id=pid,
            quick_cmd='./check %s --tier quick' % pid,
            thorough_cmd='./check %s --tier thorough' % pid,
            evidence_file='evidence/%s.json' % pid,
            replay_cmd_template='./check %s --replay {path}' % pid,
            engine='lean4-proof+correspondence',
            level_claimed=dict(category='proof', text=text, design_ref='DESIGN.md §' + ref),
            level_note=NOTE,
            technique='Lean 4 theorems over an executable model regenerated from the source by a translator (equality to the hand model, refinement / round-trip / kernel-evaluated tables) + model-vs-implementation correspondence check',
        ))
    na = [dict(property_id=p, reason='not claimed in this revision: the machinery for it is still being built (see DESIGN.md §8)') for p in allp if p not in claimed]
    man = dict(
        version=1,
        setup_cmd='python3 tools/translate.py && (cd lean && lake build Dsi.All driver ghdriver) && (cd harness && cp -n /repo/Cargo.lock Cargo.lock 2>/dev/null; CARGO_NET_OFFLINE=true cargo build --release --offline)',
        hooks=dict(guard='--cfg dsi_bitstream_verif', enable='no hook is needed: the harness observes the library through its public API only', baseline_off_cmd='cd /repo && cargo test --workspace --no-fail-fast --offline', source_commits=[], add_only=True),
        engines=[dict(name='lean4-proof+correspondence', path='check', serves_properties=claimed, kind_free_text='Lean 4 model + theorems (lean/), translator (tools/translate.py), Rust harness (harness/), differential runner (tools/)')],
        checks=checks,
        notes='All checks share ./check <ID>; exit 0 held, exit 1 VIOLATION line, exit 2 machinery error.',
        not_applicable=na,
    )
    with open(os.path.join(ROOT, 'MANIFEST.json'), 'w') as f:
        json.dump(man, f, indent=1)
    print('claimed', len(claimed), 'not claimed', len(na))

if __name__ == '__main__':
    main()
