#!/usr/bin/env python3
"""Structural guard for the translators: the ITEM INVENTORY of the crate must be the audited one.

Every translator of this directory locates "the" `impl T for S`, "the" `fn f` of that impl, "the"
constant `READ_BITS`, ... by name in a fixed file, and translates that text.  That is only sound if
the text it finds is what the crate compiles.  It is not when, e.g.,

  * the impl / the file is compiled out (`#[cfg(..)]` on the impl, `#[path = ".."] mod m;`) and a
    differently spelled live copy exists (`impl BitRead<BigEndian> for ..` instead of `BitRead<BE>`);
  * a file-local item changes the meaning of a name the translator interprets (`type BE = LittleEndian;`,
    `macro_rules! debug_assert`, `mod gamma_tables { pub use ..delta_tables::*; }`, a re-export
    `pub use delta::len_delta as len_gamma;`);
  * an impl overrides a trait-default method whose DEFAULT body is what the translator reads, or an
    inherent method shadows a trait method;
  * a struct, a const-generic default, a macro invocation (`impl_default_read_codes! {..}`) changes;
  * a function no translator covers, but the model fixes by hand, changes (constructors `new`,
    `clone`, `MemWordWriter*::flush`, ...): those bodies are PINNED by a hash of their tokens.

So this module computes, for every non-test source file, the multiset of its items -- kind, header
text (generics, bounds, where-clauses, `for` type), the cfg / path / derive / macro_use attributes,
and for impls and traits the same for every member -- plus the `[features]` / `[dependencies]` of
Cargo.toml, and compares it with tools/hygiene_expected.json (written by `hygiene.py --pin` from a
reviewed crate).  Bodies are NOT part of the inventory (they are the translators' business), except
the pinned ones.  Any difference is a violation: translate.py then exits 3 and
lean/Dsi/Gen/Hygiene.lean lists the violations, which Dsi.Props.HygieneGen proves to be `[]`.

Harmless edits do not show: reordering items, renaming locals, changing messages, comments, `inline`
/ `allow` / `must_use` attributes, visibility.

  python3 tools/hygiene.py            print the violations for $DSI_REPO (default /repo)
  python3 tools/hygiene.py --pin      (re)write tools/hygiene_expected.json from $DSI_REPO
"""
import os, sys, json, hashlib
sys.path.insert(0, os.path.dirname(os.path.abspath(__file__)))
from rstok import tokenize, match_close

HERE = os.path.dirname(os.path.abspath(__file__))
EXPECTED = os.path.join(HERE, 'hygiene_expected.json')

# attributes that cannot change what is compiled or what a name means
BENIGN_ATTRS = ('inline', 'must_use', 'allow', 'warn', 'deny', 'doc', 'deprecated', 'cold', 'track_caller', 'rustfmt')

# (file, fn name): the body is pinned by a hash -- functions outside every translator whose
# behaviour the hand model nevertheless fixes (initial states, clones, no-op flushes, ...)
PINNED = {
    ('src/impls/buf_bit_writer.rs', 'new'),
    ('src/impls/buf_bit_reader.rs', 'new'), ('src/impls/buf_bit_reader.rs', 'clone'),
    ('src/impls/bit_reader.rs', 'new'),
    ('src/impls/mem_word_reader.rs', 'new'), ('src/impls/mem_word_reader.rs', 'new_strict'),
    ('src/impls/mem_word_writer.rs', 'new'), ('src/impls/mem_word_writer.rs', 'flush'),
    ('src/impls/mem_word_writer.rs', 'is_empty'),
    ('src/utils/count.rs', 'new'),
    ('src/utils/find_change.rs', 'new'),
    ('src/codes/rice.rs', 'log2_b'), ('src/codes/golomb.rs', 'b'),
    ('src/traits/endianness.rs', 'fmt'),
    # found by the coverage probe of the audit (every fn body replaced by `unimplemented!()`): no translator reads these
    ('src/impls/buf_bit_writer.rs', 'flush'),                    # incl. `std::io::Write::flush`
    ('src/utils/count.rs', 'bit_pos'), ('src/utils/count.rs', 'set_bit_pos'),   # BitSeek of the counting wrappers
    ('src/dispatch/dynamic.rs', 'clone'), ('src/dispatch/dynamic.rs', 'new_with_func'),
    ('src/dispatch/factory.rs', 'clone'), ('src/dispatch/factory.rs', 'new_with_func'),
}

# files whose translators drop `debug_assert*!` statements (the code bodies and find_change are
# translated for release semantics): the asserted conditions are pinned as text, so that tightening,
# loosening or removing one -- a change of the debug-build behaviour -- is refused
ASSERT_PINNED = ('src/codes/', 'src/utils/find_change.rs')


class HygieneError(Exception):
    pass


def txt(toks):
    out = []
    for k, x in toks:
        if k == 'str':
            out.append('"%s"' % x.replace('\n', '\\n'))
        elif k == 'char':
            out.append("'%s'" % x)
        else:
            out.append(x)
    return ' '.join(out)


def h(toks):
    return hashlib.sha256(txt(toks).encode('utf-8')).hexdigest()[:16]


def fn_header_txt(toks):
    """text of a `fn` header with the parameter NAMES (and the `mut` of by-value bindings) replaced by `_`:
    renaming a parameter is not a structural change"""
    out = []
    depth = 0
    seen_params = False
    n = len(toks)
    for j, t in enumerate(toks):
        k, x = t
        if k == 'p' and x == '(':
            depth += 1
            if depth == 1 and not seen_params:
                seen_params = 'in'
        elif k == 'p' and x == ')':
            depth -= 1
            if depth == 0 and seen_params == 'in':
                seen_params = 'done'
        if seen_params == 'in' and depth == 1 and k == 'id' and x not in ('self', 'mut') and j + 1 < n and toks[j + 1] == ('p', ':') \
                and not (j + 2 < n and toks[j + 2] == ('p', ':')) and toks[j - 1][1] in ('(', ',', 'mut'):
            if out and out[-1] == ('id', 'mut'):
                out.pop()
            out.append(('id', '_'))
            continue
        out.append(t)
    return txt(out)


def header_end(toks, i, b):
    """index of the `{` opening the body, or of the terminating `;`, of the item whose header starts
    at i: the first `{` / `;` outside parentheses, brackets and generic brackets"""
    angle = paren = 0
    while i < b:
        k, x = toks[i]
        if k == 'p':
            if x in ('(', '['):
                paren += 1
            elif x in (')', ']'):
                paren -= 1
            elif x == '<':
                angle += 1
            elif x == '>':
                angle = max(0, angle - 1)
            elif x == '>>':
                angle = max(0, angle - 2)
            elif x == '{':
                if paren == 0 and angle == 0:
                    return i
                i = match_close(toks, i)          # a const-generic block `{ .. }`
            elif x == ';' and paren == 0:
                return i
        i += 1
    raise HygieneError('unterminated item near `%s`' % txt(toks[max(0, i - 8):i]))


def stmt_end(toks, i, b):
    """index of the `;` ending a `use` / `type` / `const` / `static` item (braces may occur inside)"""
    depth = 0
    while i < b:
        k, x = toks[i]
        if k == 'p':
            if x in ('(', '[', '{'):
                depth += 1
            elif x in (')', ']', '}'):
                depth -= 1
            elif x == ';' and depth == 0:
                return i
        i += 1
    raise HygieneError('unterminated item')


def debug_asserts(toks, a, b):
    """texts of the conditions of the `debug_assert*!( .. )` invocations in toks[a:b] (messages dropped)"""
    out = []
    i = a
    while i < b - 2:
        k, x = toks[i]
        if k == 'id' and x in ('debug_assert', 'debug_assert_eq', 'debug_assert_ne') and toks[i + 1] == ('p', '!') \
                and toks[i + 2][1] in ('(', '[', '{'):
            c = match_close(toks, i + 2)
            parts, cur, depth = [], [], 0
            for t in toks[i + 3:c]:
                if t[0] == 'p' and t[1] in ('(', '[', '{'):
                    depth += 1
                elif t[0] == 'p' and t[1] in (')', ']', '}'):
                    depth -= 1
                if t == ('p', ',') and depth == 0:
                    parts.append(cur)
                    cur = []
                else:
                    cur.append(t)
            if cur:
                parts.append(cur)
            n = 1 if x == 'debug_assert' else 2
            out.append('%s!(%s)' % (x, ' , '.join(txt(p) for p in parts[:n])))
            i = c + 1
            continue
        i += 1
    return out


def macro_impls(toks, a, b):
    """the `impl .. {` headers inside a macro_rules body, each with the names of its `fn`s"""
    out = []
    i = a
    while i < b:
        if toks[i] == ('id', 'impl'):
            try:
                e = header_end(toks, i, b)
            except HygieneError:
                break
            if toks[e] == ('p', '{'):
                c = match_close(toks, e)
                fns = [toks[j + 1][1] for j in range(e, c) if toks[j] == ('id', 'fn') and toks[j + 1][0] == 'id']
                out.append('%s { fn %s }' % (txt(toks[i:e]), ' , '.join(fns)))
                i = c + 1
                continue
        i += 1
    return out


QUALS = ('unsafe', 'async', 'default')
KINDS = ('use', 'mod', 'fn', 'struct', 'enum', 'union', 'trait', 'impl', 'type', 'const', 'static', 'extern', 'macro_rules')


def items(toks, a, b, rel, where, out):
    """append the inventory entries of the items in toks[a:b] (a module / impl / trait body)"""
    i = a
    while i < b:
        attrs = []
        test_only = False
        while toks[i] == ('p', '#'):
            j = i + 1
            inner = toks[j] == ('p', '!')
            if inner:
                j += 1
            if toks[j] != ('p', '['):
                raise HygieneError('%s: stray `#`' % rel)
            c = match_close(toks, j)
            at = toks[j + 1:c]
            name = at[0][1] if at else ''
            t = txt(at)
            if inner:
                if name not in BENIGN_ATTRS:
                    out.append('%s :: inner attribute #![%s]' % (where, t))
            elif t == 'cfg ( test )' or t == 'test':
                test_only = True
            elif name not in BENIGN_ATTRS:
                attrs.append(t)
            i = c + 1
            if i >= b:
                break
        if i >= b:
            break
        start = i
        # visibility
        if toks[i] == ('id', 'pub'):
            i += 1
            if toks[i] == ('p', '('):
                i = match_close(toks, i) + 1
        quals = []
        while toks[i][0] == 'id' and toks[i][1] in QUALS:
            quals.append(toks[i][1])
            i += 1
        if toks[i] == ('id', 'const') and toks[i + 1] in (('id', 'fn'), ('id', 'unsafe')):
            quals.append('const')
            i += 1
            while toks[i][0] == 'id' and toks[i][1] in QUALS:
                quals.append(toks[i][1])
                i += 1
        if toks[i] == ('id', 'extern') and toks[i + 1][0] == 'str' and toks[i + 2] == ('id', 'fn'):
            quals.append('extern "%s"' % toks[i + 1][1])
            i += 2
        k, x = toks[i]
        a_txt = ''.join('#[%s] ' % t for t in sorted(attrs)) + ''.join(q + ' ' for q in quals)
        if k == 'id' and x in ('use', 'type', 'static') or (k == 'id' and x == 'extern' and toks[i + 1] == ('id', 'crate')):
            e = stmt_end(toks, i, b)
            entry = txt(toks[i:e])
            nxt = e + 1
        elif k == 'id' and x == 'const':
            e = stmt_end(toks, i, b)
            # `const NAME: TYPE` (+ the value when it is short; long array values are the table translator's)
            j = i
            depth = 0
            while j < e and not (toks[j] == ('p', '=') and depth == 0):
                if toks[j][0] == 'p' and toks[j][1] in ('(', '[', '{', '<'):
                    depth += 1
                elif toks[j][0] == 'p' and toks[j][1] in (')', ']', '}', '>'):
                    depth -= 1
                j += 1
            entry = txt(toks[i:j])
            nxt = e + 1
        elif k == 'id' and x == 'mod':
            name = toks[i + 1][1]
            o = i + 2
            if toks[i + 1] == ('id', 'r') and toks[i + 2] == ('p', '#'):       # raw identifier `r#static`
                name = 'r#' + toks[i + 3][1]
                o = i + 4
            if toks[o] == ('p', ';'):
                entry = 'mod %s ;' % name
                nxt = o + 1
            else:
                c = match_close(toks, o)
                entry = 'mod %s { .. }' % name
                if not test_only:
                    items(toks, o + 1, c, rel, '%s :: %smod %s' % (where, a_txt, name), out)
                nxt = c + 1
        elif k == 'id' and x == 'fn':
            e = header_end(toks, i, b)
            name = toks[i + 1][1]
            if toks[e] == ('p', ';'):
                entry = fn_header_txt(toks[i:e]) + ' ;'
                nxt = e + 1
            else:
                c = match_close(toks, e)
                entry = fn_header_txt(toks[i:e]) + ' { .. }'
                if (rel, name) in PINNED:
                    entry += ' [pinned body %s]' % h(toks[e:c + 1])
                elif rel.startswith(ASSERT_PINNED):
                    da = debug_asserts(toks, e, c)
                    if da:
                        entry += ' [debug assertions: %s]' % ' ; '.join(da)
                nxt = c + 1
        elif k == 'id' and x in ('struct', 'enum', 'union'):
            e = header_end(toks, i, b)
            if toks[e] == ('p', '{'):
                c = match_close(toks, e)
                entry = txt(toks[i:c + 1])
                nxt = c + 1
            else:
                entry = txt(toks[i:e])
                nxt = e + 1
        elif k == 'id' and x in ('trait', 'impl'):
            e = header_end(toks, i, b)
            if toks[e] != ('p', '{'):
                raise HygieneError('%s: `%s` without a body' % (rel, x))
            c = match_close(toks, e)
            hdr = txt(toks[i:e])
            entry = hdr + ' { .. }'
            if not test_only:
                items(toks, e + 1, c, rel, '%s :: %s%s' % (where, a_txt, hdr), out)
            nxt = c + 1
        elif k == 'id' and x == 'macro_rules' and toks[i + 1] == ('p', '!'):
            name = toks[i + 2][1]
            o = i + 3
            c = match_close(toks, o)
            entry = 'macro_rules ! %s' % name
            for mi in macro_impls(toks, o + 1, c):
                out.append('%s :: macro_rules ! %s :: %s' % (where, name, mi))
            nxt = c + 1
            if nxt < b and toks[nxt] == ('p', ';'):
                nxt += 1
        elif k == 'id':
            # an item-position macro invocation `path ! ( .. ) ;` / `path ! { .. }`
            j = i
            while j < b and toks[j] != ('p', '!') and (toks[j][0] == 'id' or toks[j] == ('p', '::')):
                j += 1
            if j >= b or toks[j] != ('p', '!') or toks[j + 1][1] not in ('(', '[', '{'):
                raise HygieneError('%s: unrecognised item near `%s`' % (rel, txt(toks[i:i + 6])))
            c = match_close(toks, j + 1)
            entry = 'macro invocation ' + txt(toks[i:c + 1])
            nxt = c + 1
            if nxt < b and toks[nxt] == ('p', ';'):
                nxt += 1
        else:
            raise HygieneError('%s: unrecognised item near `%s`' % (rel, txt(toks[i:i + 6])))
        if not test_only:
            out.append('%s :: %s%s' % (where, a_txt, entry))
        i = nxt
    return out


def cargo_entries(repo):
    out = []
    sect = None
    p = os.path.join(repo, 'Cargo.toml')
    if not os.path.exists(p):
        return ['Cargo.toml missing']
    for line in open(p, encoding='utf-8'):
        line = line.split('#')[0].strip() if not line.strip().startswith('#') else ''
        if not line:
            continue
        if line.startswith('['):
            sect = line
            continue
        if sect in ('[features]', '[dependencies]', '[lib]', '[profile.release]', '[profile.dev]'):
            out.append('Cargo.toml %s %s' % (sect, ' '.join(line.split())))
    return out


def inventory(repo):
    inv = {}
    root = os.path.join(repo, 'src')
    for d, sub, files in sorted(os.walk(root)):
        sub.sort()
        if os.path.relpath(d, root).split(os.sep)[0] == 'fuzz':
            continue
        for f in sorted(files):
            if not f.endswith('.rs'):
                continue
            p = os.path.join(d, f)
            rel = os.path.relpath(p, repo)
            with open(p, encoding='utf-8') as fh:
                toks = tokenize(fh.read())
            try:
                inv[rel] = sorted(items(toks, 0, len(toks), rel, rel, []))
            except (HygieneError, ValueError, IndexError, KeyError) as ex:
                inv[rel] = ['UNPARSED: %s' % ex]
    inv['Cargo.toml'] = sorted(cargo_entries(repo))
    return inv


PROPS = ['C%02d' % i for i in range(1, 21)]


def relevant_props(rel):
    """the properties whose theorems depend on what this file says (a difference elsewhere in the crate
    does not touch them); module roots and the trait definitions concern every property"""
    base = os.path.basename(rel)
    def file_props(r):
        if r.startswith('src/impls/buf_bit_writer.rs'):
            return ['C01', 'C03', 'C04', 'C06', 'C08', 'C12', 'C14', 'C19']
        if r.startswith('src/impls/buf_bit_reader.rs'):
            return ['C02', 'C03', 'C05', 'C06', 'C07', 'C08', 'C09', 'C12', 'C14', 'C19']
        if r.startswith('src/impls/bit_reader.rs'):
            return ['C02', 'C03', 'C05', 'C06', 'C07', 'C09', 'C12']
        if r.startswith('src/impls/mem_word_'):
            return ['C13', 'C09', 'C01', 'C02']
        if r.startswith('src/impls/word_adapter.rs'):
            return ['C11']
        if r.startswith('src/codes/') and r.endswith('_tables.rs'):
            return ['C05', 'C03', 'C04', 'C06']
        if r.startswith('src/codes/params.rs'):
            return ['C03', 'C04', 'C05', 'C06']
        if r.startswith('src/codes/vbyte.rs'):
            return ['C18', 'C03', 'C04', 'C06']
        if r.startswith('src/codes/'):
            return ['C03', 'C04', 'C06', 'C20', 'C10']
        if r.startswith('src/dispatch/'):
            return ['C10', 'C16']
        if r.startswith('src/utils/count.rs') or r.startswith('src/utils/dbg_codes.rs'):
            return ['C14']
        if r.startswith('src/utils/stats.rs'):
            return ['C15']
        if r.startswith('src/utils/find_change.rs') or r.startswith('src/utils/implied.rs'):
            return ['C20']
        return None
    if rel in ('Cargo.toml', 'src/lib.rs') or rel.startswith('src/traits/'):
        return list(PROPS)
    if base == 'mod.rs':
        d = os.path.dirname(rel) + '/'
        out = set(['C17'] if rel == 'src/codes/mod.rs' else [])
        for r in ('src/impls/buf_bit_writer.rs', 'src/impls/buf_bit_reader.rs', 'src/impls/bit_reader.rs', 'src/impls/mem_word_reader.rs',
                  'src/impls/word_adapter.rs', 'src/codes/gamma_tables.rs', 'src/codes/params.rs', 'src/codes/vbyte.rs', 'src/codes/gamma.rs',
                  'src/dispatch/codes.rs', 'src/utils/count.rs', 'src/utils/stats.rs', 'src/utils/find_change.rs'):
            if r.startswith(d):
                out |= set(file_props(r))
        return sorted(out) if out else list(PROPS)
    fp = file_props(rel)
    return fp if fp is not None else list(PROPS)


def _words(s):
    import re
    return set(re.findall(r'[A-Za-z_][A-Za-z0-9_]*', s))


def fresh_free_item(rel, entry, known):
    """an unexpected TOP-LEVEL `fn` / `const` / `static` / `struct` / `enum` without cfg / path attributes
    whose name occurs nowhere in the audited inventory: it cannot shadow, override or replace anything the
    translators read (nothing translated or pinned can refer to it without itself changing), so adding it
    is not a difference that matters"""
    pre = rel + ' :: '
    if not entry.startswith(pre):
        return False
    rest = entry[len(pre):]
    if ' :: ' in rest.split('{')[0].split('(')[0] or rest.startswith('#['):
        return False
    toks = rest.split()
    while toks and toks[0] in ('const', 'unsafe', 'async', 'default') and len(toks) > 1 and toks[1] in ('fn', 'unsafe'):
        toks = toks[1:]
    if len(toks) < 2 or toks[0] not in ('fn', 'const', 'static', 'struct', 'enum'):
        return False
    name = toks[1]
    return name.isidentifier() and name not in known


def violations(repo):
    """list of (file, text)"""
    if not os.path.exists(EXPECTED):
        return [('Cargo.toml', 'tools/hygiene_expected.json is missing (run tools/hygiene.py --pin on a reviewed crate)')]
    exp = json.load(open(EXPECTED, encoding='utf-8'))
    cur = inventory(repo)
    known = set()
    for es in exp.values():
        for e in es:
            known |= _words(e)
    out = []
    for rel in sorted(set(exp) | set(cur)):
        a, b = list(exp.get(rel, [])), list(cur.get(rel, []))
        if rel not in cur:
            # a file that is gone is only a problem if something still mounts it; its `mod` line is in the parent
            out.append((rel, '%s: file is gone' % rel))
            continue
        if rel not in exp:
            # unmounted extra files are invisible to the compiler; mounted ones show as a changed `mod` item
            continue
        from collections import Counter
        ca, cb = Counter(a), Counter(b)
        for e in sorted((ca - cb).elements()):
            out.append((rel, 'missing: %s' % e))
        for e in sorted((cb - ca).elements()):
            if fresh_free_item(rel, e, known):
                continue
            out.append((rel, 'unexpected: %s' % e))
    return out


def lean_string(s):
    return '"' + s.replace('\\', '\\\\').replace('"', '\\"').replace('\n', '\\n') + '"'


def main(write_if_changed, HEADER, src, TranslateError):
    """writes lean/Dsi/Gen/Hygiene.lean: for every property the differences in the files its theorems
    depend on.  `Dsi.Props.HygieneGen.clean_Cnn` proves the list of property Cnn empty, so a difference
    breaks the obligations of exactly the properties it can concern; the other translators are not
    stopped (each fails closed on its own)."""
    repo = os.environ.get('DSI_REPO', '/repo')
    v = violations(repo)
    per = {p: [] for p in PROPS}
    for rel, text in v:
        for p in relevant_props(rel):
            per[p].append(text)
    body = [HEADER.rstrip('\n'),
            '-- (tools/hygiene.py: differences between the item inventory of the crate -- items, impl / trait members,',
            '-- cfg / path / derive attributes, pinned constructor bodies, Cargo features -- and the audited inventory',
            '-- tools/hygiene_expected.json, per property: only the files the property depends on.)',
            'namespace Dsi.Gen.Hygiene', '']
    for p in PROPS:
        body.append('def violations_%s : List String := [%s]' % (p, ',\n  '.join(lean_string(x) for x in per[p][:100])))
    body += ['', 'end Dsi.Gen.Hygiene', '']
    changed = write_if_changed('Hygiene.lean', '\n'.join(body))
    return ['Hygiene'] if changed else []


if __name__ == '__main__':
    repo = os.environ.get('DSI_REPO', '/repo')
    if '--pin' in sys.argv:
        inv = inventory(repo)
        bad = [r for r, e in inv.items() if e and e[0].startswith('UNPARSED')]
        if bad:
            print('cannot pin: %s' % '; '.join('%s: %s' % (r, inv[r][0]) for r in bad))
            sys.exit(1)
        json.dump(inv, open(EXPECTED, 'w', encoding='utf-8'), indent=0, ensure_ascii=False, sort_keys=True)
        print('pinned %d files, %d entries' % (len(inv), sum(len(v) for v in inv.values())))
    else:
        v = violations(repo)
        for rel, x in v:
            print('%s  [%s]' % (x, ','.join(relevant_props(rel))))
        print('%d violation(s)' % len(v))
        sys.exit(3 if v else 0)
