"""Scenario generators for C15 (family ST) and C20 (families FC, LEN, LEN1)."""

U64 = (1 << 64) - 1
BUDGET = (1 << 64) - 1          # every tracked total must stay below 2^64
SLACK = 200                     # every tracked length of n is at most n + SLACK


def hx(v):
    return str(v) if v < 1 << 20 else 'x%x' % v


def rand_value(rng, maxv=U64 - 1):
    k = rng.random()
    if k < 0.35:
        return rng.randrange(0, min(300, maxv + 1))
    if k < 0.6:
        i = rng.randrange(0, 65)
        return max(0, min(maxv, (1 << i) + rng.choice((-2, -1, 0, 1))))
    if k < 0.63:
        return maxv
    return rng.randrange(0, min(maxv + 1, 1 << rng.randrange(1, 65)))


def weight(ups):
    return sum(c * (v + SLACK) for v, c in ups)


def rand_updates(rng, n, budget=BUDGET, small=False, maxcount=None):
    """n (value, count) observations whose totals fit in `budget`"""
    ups = []
    left = budget
    for _ in range(n):
        v = rng.randrange(0, 400) if small else rand_value(rng)
        if v + SLACK > left:
            v = rng.randrange(0, 50)
            if v + SLACK > left:
                break
        k = rng.random()
        if k < 0.5:
            c = 1
        elif k < 0.8:
            c = rng.randrange(0, 20)
        elif k < 0.95:
            c = rng.randrange(1, 1 << rng.randrange(1, 40))
        else:
            c = left // (v + SLACK)
        if maxcount is not None:
            c = min(c, maxcount)
        c = min(c, left // (v + SLACK))
        ups.append((v, c))
        left -= c * (v + SLACK)
    return ups


def fmt(ups):
    if not ups:
        return '-'
    return ','.join(('%s:%s' % (hx(v), hx(c))) if c != 1 or v % 3 == 0 else hx(v) for v, c in ups)


def geometric(rng, p, n):
    out = []
    for _ in range(n):
        v = 0
        while rng.random() > p and v < 100000:
            v += 1
        out.append((v, 1))
    return out


def gen_C15(rng, tier):
    quick = tier == 'quick'
    L = []
    # --- single observations: every slot sees every interesting value once, with multiplicities
    vals = sorted(set(list(range(0, 70 if quick else 300)) + [(1 << i) + d for i in range(1, 65) for d in (-2, -1, 0, 1)
                                                               if 0 <= (1 << i) + d <= U64 - 1]))
    for v in vals:
        L.append('ST upd %s:1' % hx(v))
    for v in vals[::5 if quick else 1]:
        c = rng.choice([0, 2, 7, 1000, min((1 << 40), BUDGET // (v + SLACK)), BUDGET // (v + SLACK)])
        L.append('ST upd %s:%s' % (hx(v), hx(c)))
    L.append('ST upd -')
    # --- multisets
    for _ in range(150 if quick else 2500):
        L.append('ST upd ' + fmt(rand_updates(rng, rng.randrange(1, 40), small=rng.random() < 0.3)))
    # --- best code: ties, every family as the winner, random
    L.append('ST best -')
    for v in range(0, 40):
        L.append('ST best %d:%d' % (v, rng.randrange(1, 5)))
    for _ in range(60 if quick else 600):
        p = rng.choice([0.9, 0.7, 0.5, 0.3, 0.1, 0.05, 0.02, 0.005, 0.001])
        L.append('ST best ' + fmt(geometric(rng, p, rng.randrange(1, 60))))
    for _ in range(60 if quick else 600):
        sh = rng.randrange(0, 50)
        n = rng.randrange(1, 30)
        L.append('ST best ' + fmt([(rng.randrange(0, 1 << rng.randrange(1, sh + 2)), rng.randrange(1, 4)) for _ in range(n)]))
    for _ in range(100 if quick else 1500):
        L.append('ST best ' + fmt(rand_updates(rng, rng.randrange(1, 25), small=rng.random() < 0.5)))
    # uniform blocks favour zeta/pi/golomb with specific parameters
    for k in range(1, 14):
        for b in (3, 5, 7, 12, 20, 21):
            L.append('ST best ' + fmt([(rng.randrange(0, b * k + 1), 1) for _ in range(20)]))
    # --- merges: add, +=, +, sum in random shapes
    for _ in range(120 if quick else 2000):
        nl = rng.randrange(1, 7)
        lists = [rand_updates(rng, rng.randrange(0, 12), budget=BUDGET // 64, small=rng.random() < 0.4) for _ in range(nl)]
        # random RPN over the leaves (a leaf may be used more than once)
        toks = []
        depth = 0
        mult = [0] * nl
        steps = rng.randrange(1, 14)
        for _ in range(steps):
            if depth >= 2 and rng.random() < 0.45:
                toks.append(rng.choice('ape'))
                depth -= 1
            elif depth >= 1 and rng.random() < 0.15:
                k = rng.randrange(0, depth + 1)
                toks.append('s%d' % k)
                depth = depth - k + 1
            else:
                i = rng.randrange(nl)
                mult[i] += 1
                toks.append(str(i))
                depth += 1
        if depth == 0:
            toks.append('0'); mult[0] += 1; depth = 1
        while depth > 1:
            if rng.random() < 0.3:
                toks.append('s%d' % depth); depth = 1
            else:
                toks.append(rng.choice('ape')); depth -= 1
        if sum(m * weight(l) for m, l in zip(mult, lists)) > BUDGET:
            continue
        L.append('ST merge %s %s' % ('.'.join(toks), '|'.join(fmt(l) for l in lists)))
    L.append('ST merge s0 -')
    L.append('ST merge 0.s1 5:2')
    # --- threads through one shared wrapper
    for _ in range(12 if quick else 200):
        nt = rng.randrange(2, 9)
        per = rng.randrange(50, 400 if quick else 2000)
        ups = [(rand_value(rng, (1 << rng.randrange(1, 63))), 1) for _ in range(nt * per)]
        while weight(ups) > BUDGET:
            ups = ups[:len(ups) // 2]
        L.append('ST threads %d %s' % (nt, ','.join(hx(v) for v, _ in ups)))
    L.append('ST threads 3 -')
    L.append('ST threads 5 7:3,8:2,9:4')
    # --- really encode with the reported best code
    wraps = ['Gamma', 'Delta', 'Omega', 'VByteBe', 'VByteLe', 'Zeta(3)', 'Zeta(1)', 'Zeta(5)', 'Pi(2)', 'Pi(0)', 'ExpGolomb(4)']
    for _ in range(60 if quick else 800):
        k = rng.random()
        if k < 0.4:
            ups = geometric(rng, rng.choice([0.8, 0.4, 0.1, 0.03, 0.01, 0.002]), rng.randrange(1, 80))
        elif k < 0.7:
            sh = rng.randrange(1, 63)
            ups = [(rng.randrange(0, 1 << rng.randrange(1, sh + 1)), rng.randrange(1, 4)) for _ in range(rng.randrange(1, 40))]
        else:
            ups = rand_updates(rng, rng.randrange(1, 30), maxcount=5)
        L.append('ST encode %s %s' % (rng.choice(wraps), fmt(ups)))
    for w in ('Unary', 'Rice(2)', 'Golomb(5)'):
        L.append('ST encode %s %s' % (w, fmt([(rng.randrange(0, 60), 1) for _ in range(30)])))
    return L


# ------------------------------------------------------------------------------------------------
# C20
# ------------------------------------------------------------------------------------------------

def code_cfgs(rng, quick):
    """(code, flags, param) of every length function with the parameters to explore"""
    out = [('unary', '-', 0), ('omega', '-', 0), ('vbyte', '-', 0), ('vbytes', '-', 0)]
    out += [('gamma', f, 0) for f in ('0', '1', 'd')]
    out += [('delta', f, 0) for f in ('00', '01', '10', '11', 'd')]
    ks = list(range(1, 17)) + [21, 31, 32, 33, 62, 63] + [rng.randrange(17, 64)]
    if quick:
        ks = [1, 2, 3, 4, 5, 6, 7, 8, 10, 13, 16, 21, 32, 33, 63, rng.randrange(17, 64)]
    for k in ks:
        for f in (('0', '1', 'd') if k in (2, 3, 4) or not quick else ('d',)):
            out.append(('zeta', f, k))
    ps = list(range(0, 17)) + [31, 32, 62, 63, rng.randrange(17, 64)]
    if quick:
        ps = [0, 1, 2, 3, 4, 5, 8, 11, 16, 32, 63, rng.randrange(17, 64)]
    for k in ps:
        out.append(('pi', '-', k))
        out.append(('rice', '-', k))
        out.append(('expg', '-', k))
    bs = list(range(1, 65)) + [100, 1 << 32, (1 << 32) + 1, (1 << 63) - 1, 1 << 63, (1 << 63) + 1, U64 - 1, U64,
                               rng.randrange(65, 1 << 64), rng.randrange(65, 1 << 20)]
    if quick:
        bs = [1, 2, 3, 4, 5, 6, 7, 8, 9, 15, 16, 17, 20, 33, 64, 100, (1 << 32) + 1, 1 << 63, (1 << 63) + 1, U64,
              rng.randrange(65, 1 << 64), rng.randrange(65, 1 << 20)]
    for b in bs:
        out.append(('golomb', '-', b))
    us = [1, 2, 3, 4, 5, 6, 7, 8, 9, 100, 1 << 32, (1 << 63) - 1, 1 << 63, (1 << 63) + 1, U64, rng.randrange(1, 1 << 64)]
    for u in us:
        out.append(('minbin', '-', u))
    return out


def max_dense(code, p):
    """largest value for which the published codeword is still short enough to materialise"""
    if code == 'unary':
        return 4000
    if code == 'rice':
        return min(U64, (3000 << p) - 1)
    if code == 'golomb':
        return min(U64, 3000 * p - 1)
    if code == 'expg':
        return U64 - 1 if p == 0 else U64
    if code == 'minbin':
        return p - 1
    if code in ('vbyte', 'vbytes'):
        return U64
    return U64 - 1


def gen_C20(rng, tier):
    quick = tier == 'quick'
    L = []
    cfgs = code_cfgs(rng, quick)
    dense = 1 << 12 if quick else 1 << 20
    for code, flags, p in cfgs:
        top = max_dense(code, p)
        # --- dense prefix
        # the reference builds every published codeword: keep the unary-heavy codes' dense prefix short
        d = min(dense, 1 << 16) if code in ('rice', 'golomb', 'unary') else dense
        L.append('LEN %s %s %s 0 %d' % (code, flags, hx(p), min(d, top + 1)))
        # --- around every power of two
        for i in range(1, 65):
            lo = max(0, (1 << i) - 6)
            hi = min(top, (1 << i) + 6)
            if lo <= hi and (not quick or i % 3 == 0 or i > 60 or i < 12):
                L.append('LEN %s %s %s %s %d' % (code, flags, hx(p), hx(lo), hi - lo + 1))
        # --- the end of the domain and single large values (reference skipped when the codeword is huge)
        big = U64 if code in ('vbyte', 'vbytes', 'minbin') or (code in ('rice', 'golomb', 'expg') and p > 1) else U64 - 1
        for v in sorted(set([big, big - 1, big - 2, 1 << 63, (1 << 63) - 1, rng.randrange(0, big + 1),
                             rng.randrange(0, big + 1)])):
            if code == 'minbin' and v >= p:
                continue
            L.append('LEN1 %s %s %s %s' % (code, flags, hx(p), hx(v)))
        # --- random windows
        for _ in range(2 if quick else 10):
            s = rng.randrange(0, min(top, 1 << rng.randrange(1, 65)) + 1)
            c = min(64, top - s + 1)
            if c > 0:
                L.append('LEN %s %s %s %s %d' % (code, flags, hx(p), hx(s), c))
    # out-of-domain arguments: the outcome (panic / debug-only panic) is modelled too
    for line in ('gamma d 0', 'gamma 0 0', 'gamma 1 0', 'delta d 0', 'delta 11 0', 'omega - 0', 'pi - 3', 'zeta d 3', 'zeta 0 5',
                 'unary - 0', 'rice - 0', 'golomb - 1', 'expg - 0'):
        L.append('LEN1 %s %s' % (line, hx(U64)))
    for line in ('zeta d 0 5', 'zeta 1 0 5', 'zeta d 64 5', 'zeta d 100 5', 'golomb - 0 5', 'rice - 64 5', 'expg - 64 5', 'pi - 64 5',
                 'minbin - 0 0', 'minbin - 0 7'):
        L.append('LEN1 ' + line)

    # --- the change-point iterator on every library length function
    seen = set()
    for code, flags, p in cfgs:
        if code in ('vbytes',) or (code, p) in seen:
            continue
        seen.add((code, p))
        n = 300 if code in ('gamma', 'delta', 'omega', 'zeta', 'pi', 'expg', 'vbyte', 'minbin') else 70
        L.append('FC lib %s %s %d' % (code, hx(p), n))
        L.append('FC lib %s %s %d' % (code, hx(p), rng.randrange(1, 12)))
        if code not in ('minbin',):
            L.append('FC implied %s %s' % (code, hx(p)))
    # --- synthetic step functions
    L.append('FC steps 5 -')
    L.append('FC steps 1 -')
    L.append('FC steps 4 1')
    L.append('FC steps 4 0')
    L.append('FC steps 4 0,0,1')
    for i in range(1, 65):
        for d in (-1, 0, 1):
            pz = (1 << i) + d
            if 1 <= pz <= U64:
                if not quick or i > 56 or i < 6 or d == 0:
                    L.append('FC steps 4 %s' % hx(pz))
                    if i > 60:
                        L.append('FC steps 6 %s,%s' % (hx(pz // 3), hx(pz)))
    for _ in range(150 if quick else 3000):
        k = rng.random()
        n = rng.randrange(1, 12)
        if k < 0.25:
            ps = [rng.randrange(1, 1 << 64) for _ in range(n)]
        elif k < 0.5:
            ps = [rng.randrange(1, 1 << rng.randrange(1, 65)) for _ in range(n)]
        elif k < 0.7:
            # increasing gaps, some larger than the reach of the search
            ps = []
            cur = 0
            for _ in range(n):
                cur += rng.randrange(1, 1 << rng.randrange(1, 65))
                if cur > U64:
                    break
                ps.append(cur)
        elif k < 0.85:
            ps = [U64 - rng.randrange(0, 40) for _ in range(n)] + [rng.randrange(1, 1 << 64)]
        else:
            base = rng.randrange(0, 1 << 64)
            ps = [min(U64, base + rng.randrange(0, 30)) for _ in range(n)]
            ps = [x for x in ps if x > 0]
        L.append('FC steps %d %s' % (len(ps) + rng.randrange(1, 4), ','.join(hx(x) for x in ps) if ps else '-'))
    return L
