#!/usr/bin/env python3
"""Translator for the METHOD BODIES of `BufBitWriter` (src/impls/buf_bit_writer.rs)
-> lean/Dsi/Gen/BufWriterBodies.lean.

Every run re-reads the Rust source and emits, statement by statement (same names, same order),
Lean definitions

    Dsi.Gen.BufW.write_bits_{be,le}  (s : BufW W) (value : BitVec 64) (n_bits : Nat) : Res (Nat × BufW W)
    Dsi.Gen.BufW.write_unary_{be,le} (s : BufW W) (value : BitVec 64)                : Res (Nat × BufW W)
    Dsi.Gen.BufW.flush_{be,le}       (s : BufW W)                                    : Res (Nat × BufW W)
    Dsi.Gen.BufW.copy_from_{be,le}   {ρ} (ri : RImpl ρ) (s : BufW W) (r : ρ) (n : BitVec 64) : Res (ρ × BufW W)
                                     (class CopyFn below; proved equal to `BufW.copyFrom` for W ≤ 64 in
                                     lean/Dsi/Props/BufWriterCopyGen.lean)

which lean/Dsi/Props/BufWriterGen.lean proves EQUAL to the hand-written model
(lean/Dsi/Impl/BufWriter.lean).  A change of the Rust bodies therefore either changes nothing that
matters (the equalities are re-proved), or breaks a named theorem, or is refused here.

Fail-closed: only the constructs listed below are understood; anything else raises TranslateError.
The parser and the statement/expression engine live in tools/rsbody.py (shared with
translate_bufr.py and translate_bitr.py); this file supplies the writer-specific hooks.

  statements   debug_assert!(c)                       -> `dpanic` when violated
               debug_assert_ne!(a, b)                 -> `dpanic` when equal
               [#[cfg(feature = "checks")]] assert!(c, ..) -> `panic` when (s.checks and) violated
               #[cfg(test)] <statement>               -> skipped (not compiled into the library)
               let [mut] x [: T] = e;    x = e;   x op= e;   self.buffer / self.space_left_in_buffer likewise
                                                      (op= in  <<= >>= |= &= += -= /= %=)
               if c { .. return Ok(e); }              -> if c then .. else <rest>
               if c { .. } [else { .. }]              -> joined on the variables either branch assigns
               for _ in 0..e { .. }                   -> Dsi.forN (lean/Dsi/Impl/GenPrelude.lean)
               self.backend.write_word(e.to_be()/.to_le())?;  -> BufW.emit (errors propagate)
               self.backend.flush()?;                 -> nothing (the model's backends have no buffer)
               return Ok(e);   Ok(e)
  expressions  << >> | & ! + - / % == != < <= > >= && ||, `as u32|u64|usize`, .cast() (u64 <-> word),
               .rotate_right(k), .wrapping_sub(k), WW::Word::{BITS,MAX,ONE,ZERO}, u64::MAX, literals
  types        WW::Word -> BitVec W, u64 -> BitVec 64, u128 -> BitVec 128, usize -> Nat,
               u32 -> Nat (reduced mod 2^32 at the cast)

What the types do NOT model (as in the hand model): overflow of `usize` arithmetic (`Nat`, truncated
subtraction) and over-wide shift amounts (Lean shifts give 0 / the unshifted-out value); the code
guards every such place and the differential run exercises the real arithmetic.

`.to_be()` / `.to_le()` are the identity on the logical words the model stores, so they are only
accepted where they cannot be confused: as the outermost operation of a `write_word` argument, and
`to_be` only in the BE bodies, `to_le` only in the LE bodies; a `write_word` argument without one
must be the byte-order-symmetric constant `WW::Word::ZERO`.
"""
import os, sys
sys.path.insert(0, os.path.dirname(os.path.abspath(__file__)))
from rstok import tokenize
import rsbody
from rsbody import err, Parser, find_fn, parse_sig, FnBase, lname, lean_ty, unparen

REL = 'src/impls/buf_bit_writer.rs'


def find_impl(toks, endian):
    """(open, close) of the body of `impl<..> BitWrite<ENDIAN> for BufBitWriter<..> .. { }`"""
    return rsbody.find_impl(toks, 'BitWrite < %s > for BufBitWriter <' % endian,
                            'impl BitWrite<%s> for BufBitWriter' % endian)


class Fn(FnBase):
    STATE = 'BufW W'
    RET = 'USZ'

    def field(self, name):
        if name == 'buffer':
            return 'buffer', 'W'
        if name == 'space_left_in_buffer':
            return 'space', 'USZ'
        return None

    def path(self, segs):
        if segs[:2] == ['WW', 'Word'] and len(segs) == 3:
            c = segs[2]
            if c == 'BITS':
                return 'W', 'USZ'
            if c == 'MAX':
                return '(BitVec.allOnes W)', 'W'
            if c == 'ONE':
                return '(1 : BitVec W)', 'W'
            if c == 'ZERO':
                return '(0 : BitVec W)', 'W'
        return None

    def method(self, recv, name, args, env, want):
        if name == 'cast' and not args:
            t, ty = self.ex(recv, env)
            if ty == 'U64':
                return '(%s.setWidth W)' % t, 'W'
            if ty == 'W':
                return '(%s.setWidth 64)' % t, 'U64'
            err('%s: .cast() on a value of type %s' % (self.what, ty))
        if name in ('to_be', 'to_le'):
            err('%s: .%s() outside the outermost position of a write_word argument' % (self.what, name))
        return None

    def backend_call(self, e):
        """('write_word', arg) / ('flush', None) for `self.backend.X(..)?`, else None"""
        if e[0] == 'try' and e[1][0] == 'mcall' and e[1][1] == ('fld', ('var', self.selfname), 'backend'):
            name, args = e[1][2], e[1][3]
            if name == 'write_word' and len(args) == 1:
                return ('write_word', args[0])
            if name == 'flush' and not args:
                return ('flush', None)
            err('%s: unsupported backend call `%s`' % (self.what, name))
        return None

    def touches(self, e):
        if e[0] == 'try':
            bc = self.backend_call(e)
            return bool(bc) and bc[0] == 'write_word'
        return False

    def word_arg(self, a, env):
        while a[0] == 'paren':
            a = a[1]
        want = 'to_' + self.endian
        if a[0] == 'mcall' and a[2] in ('to_be', 'to_le') and not a[3]:
            if a[2] != want:
                err('%s: .%s() in the %s implementation' % (self.what, a[2], self.endian.upper()))
            return unparen(self.typed(a[1], env, 'W', 'the written word'))
        if a == ('path', ['WW', 'Word', 'ZERO']):
            return unparen(self.typed(a, env, 'W', 'the written word'))
        err('%s: write_word argument is neither `x.%s()` nor WW::Word::ZERO' % (self.what, want))

    def expr_stmt(self, st, env, ind):
        L = self.lines
        bc = self.backend_call(st[1])
        if bc is None:
            return False
        if bc[0] == 'flush':
            L.append('%s-- %s   (nothing to do: the model\'s backends are unbuffered)' % (ind, st[2]))
            return True
        L.append('%s-- %s' % (ind, st[2]))
        L.append('%sRes.bind (s.emit (%s)) fun s =>' % (ind, self.word_arg(bc[1], env)))
        return True


class CopyFn(Fn):
    """`copy_from<F, R: BitRead<F>>(&mut self, bit_read: &mut R, mut n: u64)`: besides the writer `s`
    a second state `r : ρ` is threaded, the reader, known only through its interface `ri : RImpl ρ`
    (as in the hand model `BufW.copyFrom`).

      bit_read.read_bits(k).map_err(CopyError::ReadError)?   -> ri.readBits r k  (a u64: `BitVec.ofNat 64`)
      self.write_bits(v, k).map_err(CopyError::WriteError)?; -> the translated write_bits_XX
      self.backend.write_word(..).map_err(CopyError::WriteError)?;  -> BufW.emit
      core::cmp::min(a, b)
      the fuel of the `while n > 0` loop of the wide-word branch is the hand model's `n / 64 + 2`
    """
    STATES = ('r', 's')
    RET = 'UNIT'

    def __init__(self, what, endian, selfname, params, reader):
        Fn.__init__(self, what, endian, selfname, params)
        self.reader = reader
        self.fuels = [('n.toNat / 64 + 2', 'n')]

    def unwrap(self, e, tag):
        """X for `X.map_err(CopyError::<tag>)?`, else None"""
        if (e[0] == 'try' and e[1][0] == 'mcall' and e[1][2] == 'map_err'
                and e[1][3] == [('path', ['CopyError', tag])]):
            return e[1][1]
        return None

    def is_reader_read(self, e):
        x = self.unwrap(e, 'ReadError')
        return x is not None and x[0] == 'mcall' and x[1] == ('var', self.reader) and x[2] == 'read_bits' and len(x[3]) == 1

    def backend_call(self, e):
        x = self.unwrap(e, 'WriteError')
        if x is not None and x[0] == 'mcall' and x[1] == ('fld', ('var', self.selfname), 'backend'):
            if x[2] == 'write_word' and len(x[3]) == 1:
                return ('write_word', x[3][0])
            err('%s: unsupported backend call `%s`' % (self.what, x[2]))
        return None

    def self_write_bits(self, e):
        x = self.unwrap(e, 'WriteError')
        if x is not None and x[0] == 'mcall' and x[1] == ('var', self.selfname) and x[2] == 'write_bits' and len(x[3]) == 2:
            return x[3]
        return None

    def touches(self, e):
        out = set()

        def walk(x):
            if not isinstance(x, tuple):
                return
            if x[0] == 'try':
                if self.is_reader_read(x):
                    out.add('r')
                elif self.backend_call(x) is not None or self.self_write_bits(x) is not None:
                    out.add('s')
            for c in x[1:]:
                if isinstance(c, tuple):
                    walk(c)
                elif isinstance(c, list):
                    for y in c:
                        walk(y)
        walk(e)
        return out

    def effects(self, e, env, ind, discard=False):
        L = self.lines
        found = []

        def walk(x):
            if not isinstance(x, tuple) or x[0] in ('num', 'var', 'path', 'tmp', 'unit'):
                return x
            if x[0] == 'try' and self.is_reader_read(x):
                found.append(1)
                if len(found) > 1:
                    err('%s: two reads in one statement' % self.what)
                k = unparen(self.typed(walk(self.unwrap(x, 'ReadError')[3][0]), env, 'USZ', 'the number of bits read'))
                L.append('%sRes.bind (ri.readBits r (%s)) fun rr =>' % (ind, k))
                L.append('%slet r := rr.2' % ind)
                return ('tmp', '(BitVec.ofNat 64 rr.1)', 'U64')
            out = [x[0]]
            for c in x[1:]:
                if isinstance(c, tuple):
                    out.append(walk(c))
                elif isinstance(c, list) and x[0] in ('mcall', 'call') and c is x[-1]:
                    out.append([walk(y) for y in c])
                else:
                    out.append(c)
            return tuple(out)
        return walk(e)

    def call(self, segs, args, env, want):
        if segs == ['core', 'cmp', 'min'] and len(args) == 2:
            a, ta = self.ex(args[0], env)
            b, tb = self.ex(args[1], env)
            t = self.unify(ta, tb, 'min')
            if t != 'U64':
                err('%s: core::cmp::min on %s' % (self.what, t))
            return '(if %s ≤ %s then %s else %s)' % (a, b, a, b), t
        return None

    def expr_stmt(self, st, env, ind):
        L = self.lines
        wb = self.self_write_bits(st[1])
        if wb is not None:
            L.append('%s-- %s' % (ind, st[2]))
            v = self.typed(wb[0], env, 'U64', 'the written value')
            k = self.typed(wb[1], env, 'USZ', 'the number of bits written')
            L.append('%sRes.bind (write_bits_%s s %s %s) fun ws =>' % (ind, self.endian, v, k))
            L.append('%slet s := ws.2' % ind)
            return True
        bc = self.backend_call(st[1])
        if bc is None:
            return False
        L.append('%s-- %s' % (ind, st[2]))
        arg = self.effects(bc[1], env, ind)
        L.append('%sRes.bind (s.emit (%s)) fun s =>' % (ind, self.word_arg(arg, env)))
        return True

    def fuel(self, kind, env):
        if kind != 'while' or not self.fuels:
            err('%s: no fuel is configured for this `%s`' % (self.what, kind))
        text, var = self.fuels.pop(0)
        if env.get(var) != 'U64':
            err('%s: the fuel variable `%s` is not a u64 in scope' % (self.what, var))
        return '(%s)' % text


def translate_copy_from(toks, sig, o, c, what, endian, lean_name):
    parts, ret = rsbody.split_params(sig, what)
    if (len(parts) != 3 or parts[0] != ['&', 'mut', 'self'] or parts[1][1:] != [':', '&', 'mut', 'R']
            or parts[2] != ['mut', 'n', ':', 'u64']):
        err('%s: unexpected parameters' % what)
    gen = ' '.join(x for _, x in sig[2:sig.index(('p', '('))])
    if 'R : BitRead < F >' not in gen:
        err('%s: the reader is not a generic `R: BitRead<F>`' % what)
    if ret[:5] != ['->', 'Result', '<', '(', ')']:
        err('%s: return type is not Result<(), _>' % what)
    reader = parts[1][0]
    body = Parser(toks[o:c + 1], what).block()
    params = [('n', 'U64')]
    f = CopyFn.run(lambda: CopyFn(what, endian, 'self', params, reader), body, dict(params), None, True)
    if f.fuels:
        err('%s: the configured loop fuel is unused (a loop disappeared)' % what)
    head = ['/-- `%s` -/' % what,
            'def %s {ρ : Type} (ri : RImpl ρ) (s : BufW W) (r : ρ) (n : BitVec 64) : Res (ρ × BufW W) :=' % lean_name]
    return '\n'.join(head + f.lines) + '\n'


def translate_fn(toks, sig, o, c, what, endian, lean_name, expect_params):
    selfname, params, ret = parse_sig(sig, what, receiver_types=('BufBitWriter',))
    if ret[:5] != ['->', 'Result', '<', 'usize', ',']:
        err('%s: return type is not Result<usize, _>' % what)
    if [t for _, t in params] != expect_params:
        err('%s: parameters %r, expected types %r' % (what, params, expect_params))
    body = Parser(toks[o:c + 1], what).block()
    f = Fn(what, endian, selfname, params)
    env = dict(params)
    f.emit(body, 0, env, '  ', None, True)
    ps = ''.join(' (%s : %s)' % (lname(n), lean_ty(t)) for n, t in params)
    head = ['/-- `%s` -/' % what,
            'def %s (s : BufW W)%s : Res (Nat × BufW W) :=' % (lean_name, ps)]
    return '\n'.join(head + f.lines) + '\n'


def generate(src):
    rsbody.Ctx.rel = REL
    toks = tokenize(src(REL))
    defs = []
    for endian, E in (('be', 'BE'), ('le', 'LE')):
        o, c = find_impl(toks, E)
        what = 'impl BitWrite<%s> for BufBitWriter' % E
        sig, bo, bc = find_fn(toks, o + 1, c, 'write_bits', what)
        defs.append(translate_fn(toks, sig, bo, bc, '%s::write_bits' % what, endian, 'write_bits_' + endian, ['U64', 'USZ']))
        sig, bo, bc = find_fn(toks, o + 1, c, 'write_unary', what)
        defs.append(translate_fn(toks, sig, bo, bc, '%s::write_unary' % what, endian, 'write_unary_' + endian, ['U64']))
        # flush: must be exactly `flush_XX(self)`; the free function is translated
        sig, bo, bc = find_fn(toks, o + 1, c, 'flush', what)
        selfname, params, _ = parse_sig(sig, what + '::flush', receiver_types=('BufBitWriter',))
        helper = 'flush_' + endian
        if params or [t for t in toks[bo + 1:bc]] != [('id', helper), ('p', '('), ('id', 'self'), ('p', ')')]:
            err('%s::flush is not `%s(self)`' % (what, helper))
        sig, bo, bc = find_fn(toks, 0, len(toks), helper, 'top level')
        # The model's backends are unbuffered, so `backend.flush()?` translates to nothing -- which would
        # make its removal (or `let _ = backend.flush();`, which swallows the error) invisible.  `BitWrite::flush`
        # promises to flush the backend, so require the call: exactly one top-level statement
        # `<receiver>.backend.flush()?;` in the helper's body.
        hb = Parser(toks[bo:bc + 1], helper).block()
        nflush = 0
        for st in hb:
            if (st[0] == 'expr' and st[1][0] == 'try' and st[1][1][0] == 'mcall' and st[1][1][2] == 'flush'
                    and not st[1][1][3] and st[1][1][1][0] == 'fld' and st[1][1][1][2] == 'backend'):
                nflush += 1
        if nflush != 1:
            err('fn %s: expected exactly one top-level `backend.flush()?;`, found %d' % (helper, nflush))
        defs.append(translate_fn(toks, sig, bo, bc, 'fn %s (called by %s::flush)' % (helper, what), endian, helper, []))
        # copy_from (after write_bits, which it calls)
        # compiled unless the feature `no_copy_impls` is on (then the trait's generic default is used)
        sig, bo, bc = find_fn(toks, o + 1, c, 'copy_from', what, ok_cfg=('cfg ( not ( feature = no_copy_impls ) )',))
        defs.append(translate_copy_from(toks, sig, bo, bc, '%s::copy_from' % what, endian, 'copy_from_' + endian))
    return defs


def main(write_if_changed, HEADER, src, TranslateError):
    rsbody.Ctx.TE = TranslateError
    rsbody.Ctx.rel = REL
    head = [HEADER.rstrip('\n'),
            '-- Source: %s, method bodies translated statement by statement by tools/translate_bufw.py.' % REL,
            'import Dsi.Prog',
            'import Dsi.Impl.BufWriter',
            'import Dsi.Impl.GenPrelude',
            'namespace Dsi.Gen.BufW',
            'open Dsi',
            'variable {W : Nat}',
            'set_option linter.unusedVariables false',
            '']
    try:
        defs = generate(src)
    except TranslateError as ex:
        # fail closed on the proof leg too: without a translation there is nothing the equality
        # theorems of Dsi.Props.BufWriterGen could be about, so they must not build against a
        # stale file from an earlier run
        write_if_changed('BufWriterBodies.lean', '\n'.join(
            head + ['-- TRANSLATION FAILED: %s' % str(ex).replace('\n', ' '), '', 'end Dsi.Gen.BufW\n']))
        raise
    changed = write_if_changed('BufWriterBodies.lean', '\n'.join(head + defs + ['end Dsi.Gen.BufW\n']))
    return ['BufWriterBodies'] if changed else []


if __name__ == '__main__':
    import translate
    rsbody.Ctx.TE = translate.TranslateError
    try:
        print('\n'.join(generate(translate.src)) if '--print' in sys.argv else main(translate.write_if_changed, translate.HEADER, translate.src, translate.TranslateError))
    except translate.TranslateError as ex:
        print('translate: ERROR: %s' % ex)
        sys.exit(3)
