#!/usr/bin/env python3
"""Translator for `FindChangePoints::next` (src/utils/find_change.rs) -> lean/Dsi/Gen/FindChangeBody.lean,
via the engine of tools/rscps.py.  The equality theorem (against `FC.next` of
lean/Dsi/Glue/FindChange.lean) is in lean/Dsi/Props/FindChangeGen.lean.

The iterator state is the pair of variables `current`, `prev_value` (the fields `self.current`,
`self.prev_value`); `(self.func)(x)` is `func x` for the parameter `func : Nat → Nat`.  The
generated function returns `Res (Option (Nat × Nat) × Nat × Nat)`: the item and the new state.

   self.<field>                 the variable <field>;   self.<field> = e   ->   let <field> := e
   return Some(e) / None / the tail `Some(e)`      .ok (some e, current, prev_value) / .ok (none, ..)
   debug_assert!(c, ..);        if ¬(c) then .dpanic else
   x.checked_mul(y)             if x * y < 2 ^ 64 then some (x * y) else none      (x, y: u64)
   u64::MAX, usize::MAX         2 ^ 64 - 1
   a + b  (u64 / usize)         if a + b ≥ 2 ^ 64 then .dpanic else   (the overflow check of a debug build), then a + b
Loops are fuelled as in the hand-written model (65 rounds each; out of fuel = `.err .other`).
`-`, `*` and `/` carry no check: every subtraction of this body is guarded by a comparison.
"""
import os, re, sys
sys.path.insert(0, os.path.dirname(os.path.abspath(__file__)))
from rstok import tokenize
import rsx, rscps
from rsx import err, lean_id, par, P_ATOM, P_APP, P_CMP, WIDTH
from rscps import Cps, Domain, K, UNIT, lean_ty

REL = 'src/utils/find_change.rs'
FUEL = ('65', '.err .other', [
    'the exponential search doubles `step` (at most 64 times before `checked_mul` fails), the binary',
    'search halves an interval of width below 2^64: 65 rounds each, as in `FC.expPhase` / `FC.binPhase`.'])
FIELDS = {'current': 'u64', 'prev_value': 'usize'}


def subst_self(node, locals_):
    """`self.<field>` -> the variable <field>; `(self.func)(x)` -> func(x)"""
    if isinstance(node, list):
        return [subst_self(x, locals_) for x in node]
    if not isinstance(node, tuple) or not node:
        return node
    if node[0] == 'field' and node[1] == ('var', 'self'):
        if node[2] in FIELDS or node[2] == 'func':
            return ('var', node[2])
        err('use of `self.%s`' % node[2])
    if node[0] == 'var' and node[1] == 'self':
        err('bare use of `self`')
    if node[0] == 'macro':
        # arguments are token lists: parse the first (the condition of debug_assert!) later
        return node
    if node[0] in ('pbind',):
        if node[1] in FIELDS or node[1] == 'func':
            err('a local named like a field (`%s`)' % node[1])
        return node
    return tuple(subst_self(x, locals_) if isinstance(x, (tuple, list)) else x for x in node)


class FcDomain(Domain):
    def prog_type(self, cps):
        return 'Res (Option (Nat × Nat) × Nat × Nat)'

    def final(self, cps, e, env, ind):
        if e is None:
            cps.fail('`return;`')
        Kf = K(ret=lambda e2, env2, ind2: self.final(cps, e2, env2, ind2))

        def kv(t, env2, ind2):
            ok = t[2] == ('opt', 'lit') or (isinstance(t[2], tuple) and t[2][0] == 'opt' and isinstance(t[2][1], tuple)
                                            and t[2][1][0] == 'tuple' and len(t[2][1][1]) == 2)
            if not ok:
                cps.fail('the result has type %r' % (t[2],))
            return ['  ' * ind2 + '.ok (%s, current, prev_value)' % t[0]]
        return cps.value(e, env, ind, Kf, kv)

    def pure(self, cps, e, env):
        k = e[0]
        if k == 'call' and e[1] == ('var', 'func') and len(e[2]) == 1:
            a = cps.pure.ex(e[2][0], env)
            return ('func %s' % par(a, P_ATOM), P_APP, 'usize')
        if k == 'call' and e[1][0] == 'paren' and e[1][1] == ('var', 'func') and len(e[2]) == 1:
            a = cps.pure.ex(e[2][0], env)
            return ('func %s' % par(a, P_ATOM), P_APP, 'usize')
        if k == 'method' and e[2] == 'checked_mul' and len(e[4]) == 1 and not e[3]:
            a = cps.pure.ex(e[1], env)
            b = cps.pure.ex(e[4][0], env)
            ty = rsx.Pure.unify(a[2], b[2])
            if ty == 'lit':
                ty = 'u64'
            if ty not in ('u64', 'usize'):
                cps.fail('checked_mul on %r' % (ty,))
            prod = '%s * %s' % (par(a, rsx.P_MUL), par(b, rsx.P_MUL + 1))
            return ('(if %s < 2 ^ 64 then some (%s) else none)' % (prod, prod), P_ATOM, ('opt', ty))
        if k == 'bin' and e[1] in ('==', '!=', '<', '<=', '>', '>='):
            # usize and u64 are the same 64-bit type here
            a = cps.pure.ex(e[2], env)
            b = cps.pure.ex(e[3], env)
            if {a[2], b[2]} == {'u64', 'usize'}:
                lo = {'==': '=', '!=': '≠', '<': '<', '<=': '≤', '>': '>', '>=': '≥'}[e[1]]
                return ('%s %s %s' % (par(a, P_CMP + 1), lo, par(b, P_CMP + 1)), P_CMP, 'prop')
        return None

    def is_effect(self, cps, e):
        return e[0] == 'bin' and e[1] == '+'

    def effect(self, cps, e, env, hint):
        a = cps.pure.ex(e[2], env)
        b = cps.pure.ex(e[3], env)
        ty = rsx.Pure.unify(a[2], b[2])
        if ty == 'lit':
            ty = 'u64'
        if ty not in ('u64', 'usize'):
            cps.fail('`+` on %r' % (ty,))
        t = '%s + %s' % (par(a, rsx.P_ADD), par(b, rsx.P_ADD + 1))
        return (['if %s ≥ 2 ^ 64 then .dpanic else' % t], (t, rsx.P_ADD, ty))

    def assign_other(self, cps, lhs, vt, env, ind):
        return None

    def stmt_other(self, cps, s, env, ind, after):
        e = s[1]
        if e[0] == 'macro' and e[1] == 'debug_assert':
            if not e[2]:
                cps.fail('empty debug_assert!')
            p = rsx.Parser(list(e[2][0]), cps.what)
            c = p.expr()
            if p.i != len(p.t):
                cps.fail('cannot parse the condition of debug_assert!')
            c = subst_self(c, None)
            ct = cps.pure.cond(c, env)
            pad = '  ' * ind
            return [pad + '-- debug_assert!(%s, ..)' % rsx.text_of(e[2][0]),
                    pad + 'if ¬(%s) then .dpanic else' % ct[0]] + after(env, ind)
        if e[0] == 'macro':
            cps.fail('macro `%s!`' % e[1])
        return None

    def out_of_fuel(self, cps, lname, state, has_k):
        return '%s   -- out of fuel' % FUEL[1]

    def fuel_of(self, cps, lname):
        return FUEL[0]

    def loop_scope(self, cps, body):
        return ('current', 'prev_value', 'func')


class FcCps(Cps):
    def run(self):
        fn = self.fn
        env = {'func': '!fn', 'current': 'u64', 'prev_value': 'usize'}
        for v in ('func', 'current', 'prev_value'):
            self.note(v)
        body = fn['body']
        last = body[-1]
        if last[0] == 'expr' and not last[2] and last[1][0] not in ('return', 'break'):
            body = body[:-1] + [('expr', ('return', last[1]), True)]
        final = lambda e, env2, ind2: self.dom.final(self, e, env2, ind2)
        lines = self.seq(body, env, 1, K(fall=None, value=None, ret=final, brk=None))
        out = []
        for _, ls in self.aux:
            out += ls
        out.append('/-- `%s` (%s).  Fuel %s:' % (fn['what'], REL, FUEL[0]))
        out += ['    ' + w for w in FUEL[2]]
        out[-1] += ' -/'
        out.append('def next (func : Nat → Nat) (current : Nat) (prev_value : Nat) : %s :=' % self.dom.prog_type(self))
        out += lines
        self.lines = out


# the engine declares loop parameters from the environment: `func` is a function
_orig_lean_ty = rscps.lean_ty


def _lean_ty(ty):
    if ty == '!fn':
        return 'Nat → Nat'
    return _orig_lean_ty(ty)


def gen(src):
    rsx.Ctx.rel = REL
    toks = tokenize(src(REL))
    rsx.check_no_alias(toks, REL)
    found = rsx.find_impls(toks, lambda h: re.search(r'> Iterator for FindChangePoints < F >', h) is not None)
    if len(found) != 1:
        err('expected exactly one `impl Iterator for FindChangePoints<F>`, found %d' % len(found))
    hdr, o, c = found[0]
    if 'F : Fn ( u64 ) -> usize' not in hdr:
        err('the function type is not `Fn(u64) -> usize`')
    item = rsx.text_of(toks[o + 1:c])
    if 'type Item = ( u64 , usize ) ;' not in item:
        err('`type Item` is not `(u64, usize)`')
    # the struct fields
    st = rsx.text_of(toks)
    m = re.search(r'struct FindChangePoints < F : Fn \( u64 \) -> usize > \{ func : F , current : u64 , prev_value : usize ,? \}', st)
    if not m:
        err('the fields of `FindChangePoints` are not `func: F, current: u64, prev_value: usize`')
    hits = rsx.find_fns(toks, o + 1, c, 'next')
    if len(hits) != 1:
        err('expected exactly one fn next')
    fn = rsx.parse_fn_at(toks, hits[0], 'Iterator for FindChangePoints: fn next')
    if fn['recv'] != '&mut self' or fn['params'] or fn['generics'] or (fn['ret'] or '').replace(' ', '') != 'Option<Self::Item>':
        err('unexpected signature of `next`')
    fn['body'] = subst_self(fn['body'], None)
    rscps.lean_ty = _lean_ty
    try:
        c = FcCps(fn, FcDomain(), (), lean_name='next')
        # `func` is not a value: the pure emitter only meets it through the hook above
        c.run()
    finally:
        rscps.lean_ty = _orig_lean_ty
    if c.used:
        err('unexpected implicit parameters %r' % sorted(c.used))
    return c.lines + ['']


def main(write_if_changed, HEADER, src, TranslateError):
    rsx.Ctx.TE = TranslateError
    head = [HEADER.rstrip('\n'),
            '-- (tools/translate_findchange.py: `FindChangePoints::next`, src/utils/find_change.rs; the state is the',
            '-- pair `current`, `prev_value`; the result is the item and the new state.)',
            'import Dsi.Basic', '', 'namespace Dsi.Gen.FindChange', 'open Dsi',
            'set_option linter.unusedVariables false', '']
    try:
        body = gen(src)
    except TranslateError as ex:
        write_if_changed('FindChangeBody.lean', '\n'.join(head + ['-- TRANSLATION FAILED: %s' % str(ex).replace('\n', ' '), '',
                                                                  'end Dsi.Gen.FindChange', '']))
        raise
    return ['FindChangeBody'] if write_if_changed('FindChangeBody.lean', '\n'.join(head + body + ['end Dsi.Gen.FindChange', ''])) else []


if __name__ == '__main__':
    import translate
    try:
        print(main(translate.write_if_changed, translate.HEADER, translate.src, translate.TranslateError))
    except translate.TranslateError as ex:
        print('translate: ERROR: %s' % ex)
        sys.exit(3)
