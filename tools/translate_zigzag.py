#!/usr/bin/env python3
"""Translator for the zig-zag traits `ToInt` / `ToNat` of src/codes/mod.rs
-> lean/Dsi/Gen/ZigZagBodies.lean.  The equality theorems (against `zzToInt` / `zzToNat` of
lean/Dsi/Glue/ZigZag.lean, the functions the C17 theorems are about) and the theorem on the lists
of implementing types are in lean/Dsi/Props/ZigZagGen.lean.

What is read:

  pub trait ToInt: UnsignedInt + .. { fn to_int(self) -> Self::SignedInt { BODY } }
  pub trait ToNat: SignedInt + ..   { fn to_nat(self) -> Self::UnsignedInt { BODY } }
        -> `to_int` / `to_nat`: width-generic definitions on `BitVec w` (both the signed and the
           unsigned value of a width are `BitVec w`, two's complement).  The supertrait
           (`UnsignedInt` / `SignedInt`) tells whether `Self` is signed.
  impl ToInt for T {}        -> `to_int_T : BitVec N -> BitVec N := to_int`   (N the width of T)
  impl ToInt for T { fn to_int(self) -> S { BODY } }
                             -> `to_int_T` is the translation of THAT body at width N
  the sorted list of (T, N)  -> `toIntImpls` / `toNatImpls`

Every integer value has a type (signed?, width) -- the width is the symbol `w` in the default
bodies and a number in an `impl` for a concrete type; `usize` / `isize` are 64 bits wide (the
target the whole project assumes).  Expressions, operator by operator:

  self                        self
  Self::ONE / Self::ZERO      1#w / 0#w           T::MAX / T::MIN   allOnes, intMax, intMin, 0
  Self::BITS                  w   (a `Nat`; `+ - *` between such values and literals are `Nat` operations)
  a >> n                      a >>> n           when a is unsigned  (logical shift)
                              a.sshiftRight n   when a is signed    (arithmetic shift)
  a << n                      a <<< n
       the amount n must be visibly smaller than the width: `Self::ONE`, a literal, `BITS - k`
       (k >= 1 a literal), because a Rust shift by >= BITS panics / masks the amount
  a & b, a | b, a ^ b         a &&& b, a ||| b, a ^^^ b    (same type on both sides)
  -a                          -a  (two's complement) on a signed value only
  !a                          ~~~a
  a.to_signed()               a   on an unsigned value: the same bits, now signed
  a.to_unsigned()             a   on a signed value: the same bits, now unsigned
  a as T                      a   at equal width; `setWidth` (truncation / zero extension) or
                              `signExtend` (signed source) between concrete widths
  a.wrapping_add(b) / wrapping_sub / wrapping_neg       a + b / a - b / -a
  a == b, a != b, a < b ..    a = b, a != b, `<` on unsigned / `slt` on signed values
  if c { .. } else { .. }     if c then .. else ..         let x = e;   let x := e

`+ - *` on the integers themselves (overflow-checked in Rust) are not translated.  Anything else:
TranslateError.  The translator also refuses (fails closed): an `impl` of the traits with generic
parameters or outside src/codes/mod.rs, for a type that is not a primitive integer of the right
signedness, with items other than the one method; any `macro_rules!` in src/ that mentions the
traits or their methods (macro-generated impls with per-type parameters).
"""
import os, re, sys
sys.path.insert(0, os.path.dirname(os.path.abspath(__file__)))
from rstok import tokenize, match_close
import rsx
from rsx import err, lean_id

REL = 'src/codes/mod.rs'
OUT = 'ZigZagBodies.lean'

UNSIGNED = {'u8': 8, 'u16': 16, 'u32': 32, 'u64': 64, 'usize': 64, 'u128': 128}
SIGNED = {'i8': 8, 'i16': 16, 'i32': 32, 'i64': 64, 'isize': 64, 'i128': 128}
TRAITS = {
    # trait: (method, supertrait that fixes the signedness of Self, Self signed?, associated return type)
    'ToInt': ('to_int', 'UnsignedInt', False, 'SignedInt'),
    'ToNat': ('to_nat', 'SignedInt', True, 'UnsignedInt'),
}

# precedences of the emitted Lean text
P_IF, P_CMP, P_OR, P_XOR, P_AND, P_ADD, P_MUL, P_SHIFT, P_NEG, P_APP, P_ATOM = 1, 50, 55, 58, 60, 65, 70, 75, 76, 1022, 1024


def par(t, need):
    return t[0] if t[1] >= need else '(%s)' % t[0]


def prim(ty):
    if ty in UNSIGNED:
        return ('bv', False, UNSIGNED[ty])
    if ty in SIGNED:
        return ('bv', True, SIGNED[ty])
    return None


class Body:
    """one method body -> Lean text.  self_ty = ('bv', signed, width) with width 'w' or a number"""

    def __init__(self, what, self_ty):
        self.what, self.self_ty = what, self_ty

    def fail(self, msg):
        err('%s: %s' % (self.what, msg))

    def wtxt(self, w):
        return str(w)

    def ty_of_text(self, txt):
        """a Rust type text -> type"""
        t = txt.replace(' ', '')
        p = prim(t)
        if p is not None:
            return p
        _, s, w = self.self_ty
        if t == 'Self':
            return self.self_ty
        if t == 'Self::SignedInt' and not s:
            return ('bv', True, w)
        if t == 'Self::UnsignedInt' and s:
            return ('bv', False, w)
        self.fail('type `%s`' % txt)

    def lit(self, v, ty):
        """the literal v at type ty"""
        if ty[0] == 'nat':
            if v < 0:
                self.fail('negative literal where a usize is expected')
            return (str(v), P_ATOM, ty)
        _, s, w = ty
        if v >= 0:
            return ('%d#%s' % (v, self.wtxt(w)), P_ATOM, ty)
        if not s:
            self.fail('negative literal of an unsigned type')
        return ('BitVec.ofInt %s (%d)' % (self.wtxt(w), v), P_APP, ty)

    def coerce(self, a, ty):
        if a[2][0] == 'lit':
            return self.lit(a[2][1], ty)
        return a

    def unify(self, a, b, op):
        """two operands of a binary operator that needs equal types"""
        if a[2][0] == 'lit' and b[2][0] == 'lit':
            return a, b, ('lit',)
        if a[2][0] == 'lit':
            a = self.coerce(a, b[2])
        if b[2][0] == 'lit':
            b = self.coerce(b, a[2])
        if a[2] != b[2]:
            self.fail('operands of `%s` have types %r and %r' % (op, a[2], b[2]))
        return a, b, a[2]

    def amount(self, e, env, width):
        """a shift amount as a Nat text, visibly smaller than the width"""
        e0 = e
        while e0[0] == 'paren':
            e0 = e0[1]
        bits_minus = None
        if e0[0] == 'bin' and e0[1] == '-':
            l, r = e0[2], e0[3]
            while l[0] == 'paren':
                l = l[1]
            while r[0] == 'paren':
                r = r[1]
            if l[0] == 'path' and l[1][-1] == 'BITS' and r[0] == 'num' and r[2] in (None, 'usize', 'u32'):
                lt = self.ex(l, env)
                if lt[2] == ('nat',) and lt[0] == self.wtxt(width) and r[1] >= 1 and (width == 'w' or r[1] <= width):
                    bits_minus = ('%s - %d' % (lt[0], r[1]), P_ADD)
        if bits_minus is not None:
            return bits_minus
        t = self.ex(e0, env)
        if t[2][0] == 'lit':
            v = t[2][1]
            if v < 0 or (width != 'w' and v >= width) or (width == 'w' and v >= 8):
                self.fail('shift by the literal %d, which is not visibly below the width' % v)
            return (str(v), P_ATOM)
        if t[2][0] == 'bv' and e0[0] == 'path' and e0[1][-1] in ('ONE', 'ZERO'):
            return ('(%s).toNat' % t[0], P_ATOM)
        self.fail('shift amount `%s` is not visibly below the width' % e0[0])

    def ex(self, e, env):
        k = e[0]
        if k == 'paren':
            return self.ex(e[1], env)
        if k == 'num':
            if e[2] is not None:
                p = prim(e[2])
                if p is None:
                    self.fail('literal suffix %s' % e[2])
                return self.lit(e[1], p)
            return (str(e[1]), P_ATOM, ('lit', e[1]))
        if k == 'bool':
            return ('True' if e[1] else 'False', P_ATOM, ('prop',))
        if k == 'var':
            if e[1] not in env:
                self.fail('unknown variable `%s`' % e[1])
            return (lean_id(e[1]), P_ATOM, env[e[1]])
        if k == 'path':
            segs = e[1]
            if e[2] is not None or len(segs) != 2:
                self.fail('path `%s`' % '::'.join(segs))
            ty = self.self_ty if segs[0] == 'Self' else prim(segs[0])
            if ty is None:
                self.fail('path `%s`' % '::'.join(segs))
            _, s, w = ty
            c = segs[1]
            if c == 'ONE' and segs[0] == 'Self':
                return self.lit(1, ty)
            if c == 'ZERO' and segs[0] == 'Self':
                return self.lit(0, ty)
            if c == 'BITS':
                return (self.wtxt(w), P_ATOM, ('nat',))
            if c == 'MAX':
                return (('BitVec.intMax %s' if s else 'BitVec.allOnes %s') % self.wtxt(w), P_APP, ty)
            if c == 'MIN':
                return (('BitVec.intMin %s' % self.wtxt(w), P_APP, ty) if s else self.lit(0, ty))
            self.fail('path `%s`' % '::'.join(segs))
        if k == 'un':
            op = e[1]
            if op == '-' and e[2][0] == 'num' and e[2][2] is None:
                return (str(-e[2][1]), P_ATOM, ('lit', -e[2][1]))
            a = self.ex(e[2], env)
            if op == '-':
                if a[2][0] != 'bv' or not a[2][1]:
                    self.fail('unary `-` on a value of type %r' % (a[2],))
                return ('-%s' % par(a, P_ATOM), P_CMP + 1, a[2])
            if op == '!':
                if a[2][0] == 'bv':
                    return ('~~~%s' % par(a, P_ATOM), P_CMP + 1, a[2])
                if a[2][0] == 'prop':
                    return ('¬%s' % par(a, P_ATOM), 40, ('prop',))
            self.fail('unary `%s` on a value of type %r' % (op, a[2]))
        if k == 'bin':
            op = e[1]
            if op in ('<<', '>>'):
                a = self.ex(e[2], env)
                if a[2][0] != 'bv':
                    self.fail('`%s` on a value of type %r' % (op, a[2]))
                n = self.amount(e[3], env, a[2][2])
                if op == '<<':
                    return ('%s <<< %s' % (par(a, P_SHIFT), par(n, P_SHIFT + 1)), P_SHIFT, a[2])
                if a[2][1]:
                    return ('%s.sshiftRight %s' % (par(a, P_ATOM), par(n, P_ATOM)), P_APP, a[2])
                return ('%s >>> %s' % (par(a, P_SHIFT), par(n, P_SHIFT + 1)), P_SHIFT, a[2])
            a, b = self.ex(e[2], env), self.ex(e[3], env)
            if op in ('&&', '||'):
                if a[2] != ('prop',) or b[2] != ('prop',):
                    self.fail('`%s` on non-boolean operands' % op)
                lo, p = ('∧', 35) if op == '&&' else ('∨', 30)
                return ('%s %s %s' % (par(a, p + 1), lo, par(b, p + 1)), p, ('prop',))
            a, b, ty = self.unify(a, b, op)
            if op in ('&', '|', '^'):
                if ty[0] != 'bv':
                    self.fail('`%s` on values of type %r' % (op, ty))
                lo, p = {'&': ('&&&', P_AND), '|': ('|||', P_OR), '^': ('^^^', P_XOR)}[op]
                # fully parenthesised operands: no reliance on the relative precedences
                return ('%s %s %s' % (par(a, P_APP), lo, par(b, P_APP)), P_CMP + 1, ty)
            if op in ('+', '-', '*'):
                if ty[0] == 'lit':
                    v = {'+': a[2][1] + b[2][1], '-': a[2][1] - b[2][1], '*': a[2][1] * b[2][1]}[op]
                    return (str(v), P_ATOM, ('lit', v))
                if ty[0] != 'nat':
                    self.fail('overflow-checked `%s` on integers of type %r is not translated' % (op, ty))
                p = P_ADD if op in ('+', '-') else P_MUL
                return ('%s %s %s' % (par(a, p), op, par(b, p + 1)), p, ty)
            if op in ('==', '!=', '<', '<=', '>', '>='):
                if ty[0] == 'lit':
                    ty = ('nat',)
                    a, b = self.coerce(a, ty), self.coerce(b, ty)
                if ty[0] == 'prop' and op not in ('==', '!='):
                    self.fail('`%s` on booleans' % op)
                if ty[0] == 'bv' and ty[1] and op not in ('==', '!='):
                    x, y = (a, b) if op in ('<', '<=') else (b, a)
                    f = 'slt' if op in ('<', '>') else 'sle'
                    return ('%s.%s %s = true' % (par(x, P_ATOM), f, par(y, P_ATOM)), P_CMP, ('prop',))
                lo = {'==': '=', '!=': '≠', '<': '<', '<=': '≤', '>': '>', '>=': '≥'}[op]
                return ('%s %s %s' % (par(a, P_CMP + 1), lo, par(b, P_CMP + 1)), P_CMP, ('prop',))
            self.fail('operator `%s`' % op)
        if k == 'cast':
            a = self.ex(e[1], env)
            to = self.ty_of_text(e[2])
            if a[2][0] == 'lit':
                return self.lit(a[2][1], to)
            if a[2][0] != 'bv':
                self.fail('cast of a value of type %r' % (a[2],))
            _, s1, w1 = a[2]
            _, s2, w2 = to
            if w1 == w2:
                return (a[0], a[1], to)
            if w1 == 'w' or w2 == 'w':
                self.fail('cast between the generic width and a fixed one')
            if w2 < w1 or not s1:
                return ('%s.setWidth %d' % (par(a, P_ATOM), w2), P_APP, to)
            return ('%s.signExtend %d' % (par(a, P_ATOM), w2), P_APP, to)
        if k == 'method':
            recv, name, gen, args = e[1], e[2], e[3], e[4]
            if gen:
                self.fail('method `.%s` with a turbofish' % name)
            a = self.ex(recv, env)
            if name in ('to_signed', 'to_unsigned') and not args:
                if a[2][0] != 'bv' or a[2][1] != (name == 'to_unsigned'):
                    self.fail('`.%s()` on a value of type %r' % (name, a[2]))
                return (a[0], a[1], ('bv', name == 'to_signed', a[2][2]))
            if name in ('wrapping_add', 'wrapping_sub') and len(args) == 1:
                b = self.ex(args[0], env)
                a, b, ty = self.unify(a, b, name)
                if ty[0] != 'bv':
                    self.fail('`.%s` on values of type %r' % (name, ty))
                op = '+' if name == 'wrapping_add' else '-'
                return ('%s %s %s' % (par(a, P_ADD), op, par(b, P_ADD + 1)), P_ADD, ty)
            if name in ('wrapping_shl', 'wrapping_shr') and len(args) == 1:
                # the shift amount (a u32) is reduced modulo the width of the receiver
                if a[2][0] != 'bv':
                    self.fail('`.%s` on a value of type %r' % (name, a[2]))
                n = self.ex(args[0], env)
                if n[2][0] == 'lit':
                    if n[2][1] < 0:
                        self.fail('`.%s` by a negative literal' % name)
                elif n[2] != ('nat',):
                    self.fail('`.%s` by a value of type %r' % (name, n[2]))
                amt = '(%s %% %s)' % (par((n[0], n[1]), P_MUL + 1), self.wtxt(a[2][2]))
                if name == 'wrapping_shl':
                    return ('%s <<< %s' % (par(a, P_SHIFT), amt), P_SHIFT, a[2])
                if a[2][1]:
                    return ('%s.sshiftRight %s' % (par(a, P_ATOM), amt), P_APP, a[2])
                return ('%s >>> %s' % (par(a, P_SHIFT), amt), P_SHIFT, a[2])
            if name == 'wrapping_neg' and not args:
                if a[2][0] != 'bv':
                    self.fail('`.wrapping_neg` on a value of type %r' % (a[2],))
                return ('-%s' % par(a, P_ATOM), P_CMP + 1, a[2])
            self.fail('method `.%s()`' % name)
        if k == 'if':
            c = self.ex(e[1], env)
            if c[2] != ('prop',):
                self.fail('condition of type %r' % (c[2],))
            if e[3] is None:
                self.fail('`if` without `else` as a value')
            t = self.block(e[2], env)
            f = self.block(e[3], env)
            t, f, ty = self.unify(t, f, 'if')
            return ('if %s then %s else %s' % (c[0], par(t, P_IF + 1), par(f, P_IF + 1)), P_IF, ty)
        if k == 'block':
            return self.block(e[1], env)
        self.fail('expression `%s` is not in the translated language' % k)

    def block(self, stmts, env):
        """`let` statements followed by the value -> one Lean term"""
        env = dict(env)
        lets = []
        if not stmts:
            self.fail('empty block')
        for st in stmts[:-1]:
            if st[0] == 'let' and st[1][0] == 'pbind' and not st[1][2] and st[3] is not None:
                t = self.ex(st[3], env)
                if st[2] is not None:
                    want = self.ty_of_text(st[2])
                    t = self.coerce(t, want)
                    if t[2] != want:
                        self.fail('`let %s: %s` bound to a value of type %r' % (st[1][1], st[2], t[2]))
                if t[2][0] == 'lit':
                    self.fail('`let %s` bound to an untyped literal' % st[1][1])
                env[st[1][1]] = t[2]
                lets.append('let %s := %s' % (lean_id(st[1][1]), t[0]))
                continue
            self.fail('statement `%s` is not in the translated language' % st[0])
        last = stmts[-1]
        if last[0] != 'expr' or last[2]:
            self.fail('the block does not end in a value')
        v = self.ex(last[1], env)
        if not lets:
            return v
        return ('; '.join(lets + [v[0]]), 0, v[2])


def trait_decl(toks, trait):
    """(supertrait texts, open, close) of the top-level `trait NAME`"""
    hits = []
    i = 0
    while i < len(toks):
        if toks[i][0] == 'p' and toks[i][1] == '{':
            i = match_close(toks, i) + 1
            continue
        if toks[i] == ('id', 'trait') and toks[i + 1] == ('id', trait):
            j = i + 2
            while toks[j] != ('p', '{'):
                if toks[j] == ('p', ';'):
                    err('trait %s has no body' % trait)
                j += 1
            hdr = toks[i + 2:j]
            if hdr and hdr[0] == ('p', '<'):
                err('trait %s has generic parameters' % trait)
            if any(t == ('id', 'where') for t in hdr):
                err('trait %s has a `where` clause' % trait)
            sup = []
            if hdr:
                if hdr[0] != ('p', ':'):
                    err('trait %s: unrecognised header' % trait)
                sup = [rsx.text_of(p).replace(' ', '') for p in _split(hdr[1:], '+')]
            hits.append((sup, j, match_close(toks, j)))
            i = hits[-1][2] + 1
            continue
        i += 1
    if len(hits) != 1:
        err('expected exactly one `trait %s`, found %d' % (trait, len(hits)))
    return hits[0]


def _split(toks, sep):
    out, cur, depth = [], [], 0
    for k, t in toks:
        if k == 'p' and t in ('(', '[', '{', '<'):
            depth += 1
        elif k == 'p' and t in (')', ']', '}', '>'):
            depth -= 1
        if k == 'p' and t == sep and depth == 0:
            out.append(cur)
            cur = []
        else:
            cur.append((k, t))
    if cur:
        out.append(cur)
    return out


def only_item(toks, o, c, method, what):
    """the tokens in (o, c) are exactly one `fn method` (with attributes): its index; None when empty"""
    i = o + 1
    if i == c:
        return None
    while toks[i] == ('p', '#'):
        if toks[i + 1] != ('p', '['):
            err('%s: inner attribute' % what)
        i = match_close(toks, i + 1) + 1
    if toks[i] != ('id', 'fn') or toks[i + 1] != ('id', method):
        err('%s: an item other than `fn %s` (near `%s`)' % (what, method, rsx.text_of(toks[i:i + 4])))
    j = i
    while toks[j] != ('p', '{'):
        if toks[j] == ('p', ';'):
            err('%s: `fn %s` has no body' % (what, method))
        j += 1
    if match_close(toks, j) != c - 1:
        err('%s: items after `fn %s`' % (what, method))
    return i


def method_def(toks, i, what, method, self_ty, ret_ok, lean_name):
    fn = rsx.parse_fn_at(toks, i, what)
    if fn['generics'] or fn['params'] or fn['recv'] != 'self':
        err('%s: unexpected signature' % what)
    B = Body(what, self_ty)
    if fn['ret'] is None:
        err('%s: no return type' % what)
    want = B.ty_of_text(fn['ret'])
    if want != ret_ok:
        err('%s: return type `%s`' % (what, fn['ret']))
    v = B.block(fn['body'], {'self': self_ty})
    v = B.coerce(v, want)
    if v[2] != want:
        err('%s: the body has type %r, the declared return type is %r' % (what, v[2], want))
    w = self_ty[2]
    if w == 'w':
        return ['/-- `%s` (%s) -/' % (what, REL),
                'def %s {w : Nat} (self : BitVec w) : BitVec w :=' % lean_name, '  ' + v[0], '']
    return ['/-- `%s` (%s): a body of its own -/' % (what, REL),
            'def %s (self : BitVec %d) : BitVec %d :=' % (lean_name, w, w), '  ' + v[0], '']


def repo_files():
    root = os.path.join(os.environ.get('DSI_REPO', '/repo'), 'src')
    for d, _, fs in sorted(os.walk(root)):
        for f in sorted(fs):
            if f.endswith('.rs'):
                p = os.path.join(d, f)
                yield os.path.relpath(p, os.path.dirname(root)), p


def guard_whole_crate():
    """impls of the traits outside REL, and macros that mention the traits: refuse"""
    names = set(TRAITS) | set(m for m, _, _, _ in TRAITS.values())
    for rel, p in repo_files():
        with open(p, encoding='utf-8') as f:
            toks = tokenize(f.read())
        for i, t in enumerate(toks):
            if t == ('id', 'macro_rules') and toks[i + 1] == ('p', '!'):
                j = i + 2
                while toks[j][1] not in ('{', '(', '['):
                    j += 1
                c = match_close(toks, j)
                if any(x[0] == 'id' and x[1] in names for x in toks[j:c]):
                    err('a `macro_rules!` in %s mentions %s: macro-generated implementations are not translated'
                        % (rel, '/'.join(sorted(names))))
            if t == ('id', 'impl') and rel != REL:
                j = i + 1
                while j < len(toks) and toks[j][1] not in ('{', ';'):
                    j += 1
                hdr = toks[i:j]
                for q in range(len(hdr) - 1):
                    if hdr[q][0] == 'id' and hdr[q][1] in TRAITS and hdr[q + 1] == ('id', 'for'):
                        err('an `impl %s for ..` in %s, outside %s' % (hdr[q][1], rel, REL))


def gen(src):
    rsx.Ctx.rel = REL
    guard_whole_crate()
    toks = tokenize(src(REL))
    rsx.check_no_alias(toks, REL)
    # item-position macro invocations that could expand to impls: `name!( .. )` / `name!{ .. }` at top level
    i = 0
    while i < len(toks):
        if toks[i][0] == 'p' and toks[i][1] == '{':
            i = match_close(toks, i) + 1
            continue
        if toks[i][0] == 'id' and toks[i + 1:i + 2] == [('p', '!')] and toks[i][1] != 'macro_rules':
            err('top-level macro invocation `%s!`: it could generate implementations' % toks[i][1])
        i += 1
    out = []
    lists = {}
    for trait, (method, sup_need, self_signed, assoc) in TRAITS.items():
        sup, o, c = trait_decl(toks, trait)
        if sup_need not in sup or ('SignedInt' if sup_need == 'UnsignedInt' else 'UnsignedInt') in sup:
            err('trait %s: the supertraits %r do not fix the signedness of Self' % (trait, sup))
        # the trait body: exactly the one provided method
        i = only_item(toks, o, c, method, 'trait %s' % trait)
        if i is None:
            err('trait %s: no provided method `%s`' % (trait, method))
        self_ty = ('bv', self_signed, 'w')
        out += method_def(toks, i, 'trait %s: fn %s' % (trait, method), method, self_ty, ('bv', not self_signed, 'w'), method)
        # the implementations
        impls = rsx.find_impls(toks, lambda hdr, trait=trait: re.search(r'\b%s\b' % trait, hdr) is not None)
        table = UNSIGNED if not self_signed else SIGNED
        seen = {}
        for hdr, io, ic in impls:
            m = re.fullmatch(r'impl %s for (\w+)' % trait, hdr.strip())
            if m is None:
                err('`%s`: not of the form `impl %s for <primitive integer>`' % (hdr, trait))
            T = m.group(1)
            if T not in table:
                err('`%s`: %s is not a primitive %s integer' % (hdr, T, 'signed' if self_signed else 'unsigned'))
            if T in seen:
                err('two `impl %s for %s`' % (trait, T))
            for atxt in rsx.attrs_before(toks, _impl_index(toks, io), 0):
                if atxt.startswith('cfg'):
                    err('`%s` is under #[%s]' % (hdr, atxt))
            N = table[T]
            seen[T] = N
            what = 'impl %s for %s' % (trait, T)
            j = only_item(toks, io, ic, method, what)
            lname = '%s_%s' % (method, T)
            if j is None:
                out += ['/-- `%s {}` (%s): the provided method -/' % (what, REL),
                        'def %s (self : BitVec %d) : BitVec %d :=' % (lname, N, N), '  %s self' % method, '']
            else:
                out += method_def(toks, j, '%s: fn %s' % (what, method), method, ('bv', self_signed, N),
                                  ('bv', not self_signed, N), lname)
        lists[trait] = sorted(seen.items(), key=lambda kv: (kv[1], kv[0]))
    for trait, (method, _, _, _) in TRAITS.items():
        out += ['/-- the types with an `impl %s` and their widths, sorted by width and name -/' % trait,
                'def %sImpls : List (String × Nat) :=' % (trait[0].lower() + trait[1:]),
                '  [%s]' % ', '.join('("%s", %d)' % kv for kv in lists[trait]), '']
    return out


def _impl_index(toks, brace):
    i = brace
    while toks[i] != ('id', 'impl'):
        i -= 1
    return i


def render(HEADER, body, failure=None):
    head = [HEADER.rstrip('\n'),
            '-- (tools/translate_zigzag.py: the provided methods of `ToInt` / `ToNat`, %s, operator by operator on' % REL,
            '-- `BitVec w`, one definition per implementing type, and the lists of implementing types.)',
            '', 'namespace Dsi.Gen.ZigZag', 'set_option linter.unusedVariables false', '']
    if failure is not None:
        return '\n'.join(head + ['-- TRANSLATION FAILED: %s' % failure.replace('\n', ' '), '', 'end Dsi.Gen.ZigZag', ''])
    return '\n'.join(head + body + ['end Dsi.Gen.ZigZag', ''])


def main(write_if_changed, HEADER, src, TranslateError):
    rsx.Ctx.TE = TranslateError
    try:
        body = gen(src)
    except TranslateError as ex:
        write_if_changed(OUT, render(HEADER, [], str(ex)))
        raise
    return ['ZigZagBodies'] if write_if_changed(OUT, render(HEADER, body)) else []


if __name__ == '__main__':
    import translate
    try:
        print(main(translate.write_if_changed, translate.HEADER, translate.src, translate.TranslateError))
    except translate.TranslateError as ex:
        print('translate: ERROR: %s' % ex)
        sys.exit(3)
