#!/usr/bin/env python3
"""Translator for the METHOD BODIES of the in-memory word streams
(src/impls/mem_word_reader.rs, src/impls/mem_word_writer.rs) -> lean/Dsi/Gen/MemWordBodies.lean.

Every run re-reads the Rust source and emits, statement by statement (same names, same order),

  namespace Dsi.Gen.MemR     (K in {inf, strict}: `MemWordReader<W, B, true>` / `<W, B, false>`)
    read_word_K    (s : MemR W)                         : Res (BitVec W × MemR W)
    word_pos_K     (s : MemR W)                         : Res (BitVec 64 × MemR W)
    set_word_pos_K (s : MemR W) (word_index : BitVec 64) : Res (MemR W)
  namespace Dsi.Gen.MemW     (K in {slice, vec}: `MemWordWriterSlice` / `MemWordWriterVec`)
    read_word_K, word_pos_K, set_word_pos_K as above over `MemW W`
    write_word_K   (s : MemW W) (word : BitVec W)       : Res (MemW W)
    len_K          (s : MemW W)                         : Nat

which lean/Dsi/Props/MemWordGen.lean proves EQUAL to the hand-written model
(lean/Dsi/Impl/MemWord.lean: `MemR.readWord`, `MemR.setWordPos`, `MemW.writeWord`, ...).

The engine is tools/rsbody.py, the parser tools/rsbodyx.py.  Specific to these files (slices and
vectors are `List (BitVec W)`; the prelude is lean/Dsi/Impl/GenSlices.lean):

  self.data.as_ref() / .as_mut()        -> s.data
  sl.len()                              -> sl.length
  sl.get(i) / sl.get_mut(i)             -> sl[i]?      (`get_mut`: the `Some(r)` arm of a `match` binds
                                           a reference; `*r = x` stores at the index the reference was
                                           taken at: `List.set`)
  opt.copied()                          -> opt
  opt.unwrap_or(z)                      -> opt.getD z
  opt.ok_or(E)?                         -> Dsi.optOkOr opt E   (an error outcome when `None`)
  v.resize(n, z);                       -> Dsi.vecResize
  v[i] = x;                             -> Dsi.idxSet  (panics out of bounds)
  *r                                    -> r
  a.min(b)                              -> if a ≤ b then a else b     (u64)
  usize::MAX                            -> 2^64 - 1                   (64-bit usize)
  Self::Word::ZERO, W::ZERO             -> 0
  std::io::Error::new(std::io::ErrorKind::K, <message>)  -> Err.eof (UnexpectedEof) / .other / ..
  match opt { Some(x) => .., None => .. }   as the last statement
  if c { Err(E) } else { ..; Ok(v) }        as the last statement
"""
import os, sys
sys.path.insert(0, os.path.dirname(os.path.abspath(__file__)))
from rstok import tokenize
import rsbody
from rsbody import err, find_fn, parse_sig, FnBase, lname, unparen
from rsbodyx import XParser

REL_R = 'src/impls/mem_word_reader.rs'
REL_W = 'src/impls/mem_word_writer.rs'
OUT = 'MemWordBodies.lean'
EXTRA_RESERVED = {'d', 'ov', 'data', 'pos', 'strict', 'growable'}
ERR_KINDS = {'UnexpectedEof': 'Err.eof', 'Other': 'Err.other', 'Interrupted': 'Err.interrupted',
             'WriteZero': 'Err.writeZero'}
EXTRA_TY = {'SLICE': 'List (BitVec W)', 'OPTW': 'Option (BitVec W)'}

_base_lean_ty = rsbody.lean_ty


def lean_ty(t):
    if t in EXTRA_TY:
        return EXTRA_TY[t]
    return _base_lean_ty(t)


def io_err_kind(e, what):
    """the model's error for `std::io::Error::new(std::io::ErrorKind::K, <message>)` or for a bare
    `std::io::ErrorKind::K` (which `?` converts into an `std::io::Error`)"""
    k = None
    if e[0] == 'call' and e[1] == ['std', 'io', 'Error', 'new'] and len(e[2]) == 2:
        k, msg = e[2]
        if not (msg[0] == 'str' or (msg[0] == 'mcall' and msg[1] == ('macro', 'format_args') and msg[2] == 'to_string'
                                    and not msg[3])):
            err('%s: unsupported error message expression' % what)
    elif e[0] == 'path':
        k = e
    if k is not None and k[0] == 'path' and k[1][:3] == ['std', 'io', 'ErrorKind'] and len(k[1]) == 4:
        if k[1][3] not in ERR_KINDS:
            err('%s: error kind %s is not modelled' % (what, k[1][3]))
        return ERR_KINDS[k[1][3]]
    err('%s: unsupported error expression' % what)


class StrParser(XParser):
    """string literals (the messages of the errors) are expressions too"""
    def primary(self):
        k, x = self.peek()
        if k == 'str':
            self.i += 1
            return ('str', x)
        return XParser.primary(self)


class Fn(FnBase):
    def __init__(self, what, selfname, params, state, ret):
        FnBase.__init__(self, what, None, selfname, params)
        self.STATE = state
        self.RET = ret
        self.refs = {}           # name of a `&mut` element reference -> Lean name of its index

    def field(self, name):
        if name == 'word_index':
            return 'pos', 'USZ'
        return None

    def path(self, segs):
        if segs in (['Self', 'Word', 'ZERO'], ['W', 'ZERO']):
            return '(0 : BitVec W)', 'W'
        if segs == ['usize', 'MAX']:
            return '(18446744073709551615 : Nat)', 'USZ'
        return None

    def is_data(self, e):
        """`self.data.as_ref()` / `self.data.as_mut()`"""
        return (e[0] == 'mcall' and e[1] == ('fld', ('var', self.selfname), 'data') and e[2] in ('as_ref', 'as_mut')
                and not e[3])

    def err_kind(self, e):
        return io_err_kind(e, self.what)

    def ex(self, e, env, want=None):
        if e[0] == 'deref':
            t, ty = self.ex(e[1], env, want)
            if ty != 'W':
                err('%s: `*` applied to a value of type %s' % (self.what, ty))
            return t, ty
        if e[0] == 'var' and e[1] in self.refs:
            err('%s: use of the reference `%s` other than `*%s = ..`' % (self.what, e[1], e[1]))
        if e[0] in ('index', 'slice', 'ref', 'closure', 'macro', 'str'):
            err('%s: unsupported expression (%s)' % (self.what, e[0]))
        return FnBase.ex(self, e, env, want)

    def method(self, recv, name, args, env, want):
        if self.is_data(('mcall', recv, name, args)):
            return 's.data', 'SLICE'
        if name == 'len' and not args:
            t, ty = self.ex(recv, env)
            if ty == 'SLICE':
                return '%s.length' % t, 'USZ'
            err('%s: .len() on a value of type %s' % (self.what, ty))
        if name in ('get', 'get_mut') and len(args) == 1:
            t, ty = self.ex(recv, env)
            if ty != 'SLICE':
                err('%s: .%s() on a value of type %s' % (self.what, name, ty))
            i = unparen(self.typed(args[0], env, 'USZ', 'the index'))
            return '%s[%s]?' % (t, i), 'OPTW'
        if name == 'copied' and not args:
            t, ty = self.ex(recv, env)
            if ty != 'OPTW':
                err('%s: .copied() on a value of type %s' % (self.what, ty))
            return t, ty
        if name == 'unwrap_or' and len(args) == 1:
            t, ty = self.ex(recv, env)
            if ty != 'OPTW':
                err('%s: .unwrap_or() on a value of type %s' % (self.what, ty))
            z = self.typed(args[0], env, 'W', 'the default value')
            return '(%s.getD %s)' % (t, z), 'W'
        if name == 'min' and len(args) == 1:
            a, ta = self.ex(recv, env)
            b, tb = self.ex(args[0], env)
            if self.unify(ta, tb, 'min') != 'U64':
                err('%s: .min() on %s' % (self.what, ta))
            return '(if %s ≤ %s then %s else %s)' % (a, b, a, b), 'U64'
        return None

    # ---- effects: `opt.ok_or(E)?`
    def is_ok_or(self, e):
        return e[0] == 'try' and e[1][0] == 'mcall' and e[1][2] == 'ok_or' and len(e[1][3]) == 1

    def effects(self, e, env, ind, discard=False):
        L = self.lines
        found = []

        def walk(x):
            if not isinstance(x, tuple) or x[0] in ('num', 'var', 'path', 'tmp', 'unit', 'str', 'macro'):
                return x
            if x[0] == 'try':
                if not self.is_ok_or(x):
                    err('%s: unsupported `?` expression' % self.what)
                found.append(1)
                if len(found) > 1:
                    err('%s: two `?` in one statement' % self.what)
                t, ty = self.ex(walk(x[1][1]), env)
                if ty != 'OPTW':
                    err('%s: .ok_or() on a value of type %s' % (self.what, ty))
                L.append('%sRes.bind (optOkOr %s %s) fun ov =>' % (ind, t if t.isidentifier() else '(%s)' % t,
                                                               self.err_kind(x[1][3][0])))
                return ('tmp', 'ov', 'W')
            out = [x[0]]
            for c in x[1:]:
                if isinstance(c, tuple):
                    out.append(walk(c))
                elif isinstance(c, list) and x[0] in ('mcall', 'call') and c is x[-1]:
                    out.append([walk(y) for y in c])
                else:
                    out.append(c)
            return tuple(out)
        return walk(e)

    def touches(self, e):
        if not isinstance(e, tuple):
            return False
        if e[0] == 'mcall' and e[2] == 'resize' and self.is_data(e[1]):
            return True
        for c in e[1:]:
            if isinstance(c, tuple) and self.touches(c):
                return True
            if isinstance(c, list) and any(self.touches(y) for y in c if isinstance(y, tuple)):
                return True
        return False

    def expr_stmt(self, st, env, ind):
        L = self.lines
        e = st[1]
        if e[0] == 'mcall' and e[2] == 'resize' and self.is_data(e[1]) and len(e[3]) == 2:
            L.append('%s-- %s' % (ind, st[2]))
            n = self.typed(e[3][0], env, 'USZ', 'the new length')
            z = self.typed(e[3][1], env, 'W', 'the fill value')
            L.append('%slet s : %s := { s with data := vecResize s.data %s %s }' % (ind, self.STATE, n, z))
            return True
        return False

    def ret_text(self, e, env, ind):
        if e[0] == 'call' and e[1] == ['Err'] and len(e[2]) == 1:
            return 'Res.err %s' % self.err_kind(e[2][0])
        return FnBase.ret_text(self, e, env, ind)

    def assigned(self, stmts, local=frozenset()):
        # an indexed store / a store through a reference changes `s`
        plain, selfmod = [], set()
        for st in stmts:
            if st[0] == 'assign' and st[1][0] in ('index', 'deref'):
                selfmod.add('s')
            else:
                plain.append(st)
        n2, s2 = FnBase.assigned(self, plain, local)
        return n2, s2 | selfmod

    @staticmethod
    def valued(block):
        """does the block end in a value (`Ok(..)` / `Err(..)` / a nested valued if or match)?"""
        if not block:
            return False
        st = block[-1]
        if st[0] in ('tail', 'return'):
            return True
        if st[0] == 'if' and st[3] is not None:
            return Fn.valued(st[2]) and Fn.valued(st[3])
        if st[0] == 'match':
            return all(Fn.valued(b) for _, b, _ in st[2])
        return False

    def emit(self, stmts, i, env, ind, fall, can_return):
        L = self.lines
        if i < len(stmts):
            st = stmts[i]
            k = st[0]
            last = i == len(stmts) - 1
            tail_pos = last and fall is None and can_return and not self.in_loop
            if k == 'assign' and st[1][0] == 'index':
                lhs, op, rhs = st[1], st[2], st[3]
                if op != '=' or not self.is_data(lhs[1]):
                    err('%s: unsupported indexed assignment `%s`' % (self.what, st[4]))
                L.append('%s-- %s' % (ind, st[4]))
                rhs = self.effects(rhs, env, ind)
                idx = self.typed(lhs[2], env, 'USZ', 'the index')
                val = self.typed(rhs, env, 'W', 'the stored value')
                L.append('%sRes.bind (idxSet s.data %s %s) fun d =>' % (ind, idx, val))
                L.append('%slet s : %s := { s with data := d }' % (ind, self.STATE))
                return self.emit(stmts, i + 1, env, ind, fall, can_return)
            if k == 'assign' and st[1][0] == 'deref':
                lhs, op, rhs = st[1], st[2], st[3]
                if op != '=' or lhs[1][0] != 'var' or lhs[1][1] not in self.refs:
                    err('%s: unsupported store through a reference `%s`' % (self.what, st[4]))
                L.append('%s-- %s' % (ind, st[4]))
                rhs = self.effects(rhs, env, ind)
                val = self.typed(rhs, env, 'W', 'the stored value')
                L.append('%slet s : %s := { s with data := s.data.set %s %s }' % (ind, self.STATE, self.refs[lhs[1][1]], val))
                return self.emit(stmts, i + 1, env, ind, fall, can_return)
            if k == 'if' and st[3] is not None and tail_pos and self.valued(st[2]) and self.valued(st[3]):
                cond, th, el, hdr = st[1], st[2], st[3], st[4]
                if self.touches(cond):
                    err('%s: effectful condition' % self.what)
                c = unparen(self.typed(cond, env, 'BOOL', 'the condition'))
                L.append('%s-- %s' % (ind, hdr))
                L.append('%sif %s then (' % (ind, c))
                self.emit(th, 0, env, ind + '  ', None, True)
                L[-1] += ')'
                L.append('%selse (' % ind)
                L.append('%s  -- } else {' % ind)
                self.emit(el, 0, env, ind + '  ', None, True)
                L[-1] += ')'
                L.append('%s-- }' % ind)
                return
            if k == 'match':
                scrut, arms, hdr = st[1], st[2], st[3]
                if not tail_pos or not self.valued([st]):
                    err('%s: a `match` must be the last statement and every arm must end in a value' % self.what)
                pats = sorted(p[0] for p, _, _ in arms)
                if pats != ['None', 'Some']:
                    err('%s: the arms of the `match` are not `Some(x)` and `None`' % self.what)
                by_ref = (scrut[0] == 'mcall' and scrut[2] == 'get_mut')
                t, ty = self.ex(scrut, env)
                if ty != 'OPTW' or self.touches(scrut):
                    err('%s: `match` on a value of type %s' % (self.what, ty))
                L.append('%s-- %s' % (ind, hdr))
                idxname = None
                if by_ref:
                    some = [p for p, _, _ in arms if p[0] == 'Some'][0][1]
                    idxname = lname(some) + '_idx'
                    L.append('%slet %s : Nat := %s' % (ind, idxname, unparen(self.typed(scrut[3][0], env, 'USZ', 'the index'))))
                L.append('%smatch %s with' % (ind, t))
                for (pk, pv), body, ahdr in arms:
                    L.append('%s-- %s' % (ind, ahdr))
                    env2 = dict(env)
                    if pk == 'Some':
                        if pv == self.selfname or pv in env:
                            err('%s: the pattern variable `%s` shadows' % (self.what, pv))
                        if by_ref:
                            L.append('%s| some _ => (' % ind)
                            self.refs[pv] = idxname
                        else:
                            L.append('%s| some %s => (' % (ind, lname(pv)))
                            env2[pv] = 'W'
                    else:
                        L.append('%s| none => (' % ind)
                    self.emit(body, 0, env2, ind + '    ', None, True)
                    L[-1] += ')'
                    if pk == 'Some' and by_ref:
                        del self.refs[pv]
                L.append('%s-- }' % ind)
                return
        return FnBase.emit(self, stmts, i, env, ind, fall, can_return)


def parse_ret(ret, what):
    if ret[:3] != ['->', 'Result', '<']:
        err('%s: return type is not a Result' % what)
    depth, j = 0, 3
    while j < len(ret):
        x = ret[j]
        if x in ('<', '('):
            depth += 1
        elif x in ('>', ')'):
            depth -= 1
        elif x == ',' and depth == 0:
            break
        j += 1
    t = ret[3:j]
    if t == ['u64']:
        return 'U64'
    if t == ['W']:
        return 'W'
    if t == ['(', ')']:
        return 'UNIT'
    err('%s: unsupported return type `%s`' % (what, ' '.join(t)))


def translate_fn(toks, sig, o, c, what, lean_name, state, expect_params, expect_ret):
    selfname, params, ret = parse_sig(sig, what, param_types={'u64': 'U64', 'W': 'W'})
    if selfname != 'self':
        err('%s: no `&mut self` receiver' % what)
    if [t for _, t in params] != expect_params:
        err('%s: parameters %r, expected types %r' % (what, params, expect_params))
    r = parse_ret(ret, what)
    if r != expect_ret:
        err('%s: returns %s, expected %s' % (what, r, expect_ret))
    body = StrParser(toks[o:c + 1], what).block()
    f = Fn.run(lambda: Fn(what, selfname, params, state, r), body, dict(params), None, True)
    ps = ''.join(' (%s : %s)' % (lname(n), lean_ty(t)) for n, t in params)
    rt = 'Res (%s)' % state if r == 'UNIT' else 'Res (%s × %s)' % (lean_ty(r), state)
    head = ['/-- `%s` -/' % what, 'def %s (s : %s)%s : %s :=' % (lean_name, state, ps, rt)]
    return '\n'.join(head + f.lines) + '\n'


def translate_len(toks, sig, o, c, what, lean_name, state):
    """`pub fn len(&self) -> usize { <expression> }`"""
    parts, ret = rsbody.split_params(sig, what)
    if parts != [['&', 'self']] or ret != ['->', 'usize']:
        err('%s: not `fn len(&self) -> usize`' % what)
    body = StrParser(toks[o:c + 1], what).block()
    if len(body) != 1 or body[0][0] != 'tail':
        err('%s: the body is not a single expression' % what)
    f = Fn(what, 'self', [], state, 'USZ')
    t = unparen(f.typed(body[0][1], {}, 'USZ', 'the length'))
    return '\n'.join(['/-- `%s` -/' % what, 'def %s (s : %s) : Nat :=' % (lean_name, state),
                      '  -- %s' % body[0][2], '  %s' % t]) + '\n'


def impl_of(toks, trait, struct, tail, descr):
    if trait is None:
        needle = lambda t: (' %s < W , B > {' % struct) in (t + ' {') and ' for ' not in t
    else:
        needle = '%s for %s < W , B%s >' % (trait, struct, tail)
    (o, c) = rsbody.find_impl(toks, needle, descr)
    return o, c


def generate(src):
    old_res, old_ty = rsbody.LEAN_RESERVED, rsbody.lean_ty
    rsbody.LEAN_RESERVED = old_res | EXTRA_RESERVED
    rsbody.lean_ty = lean_ty
    try:
        memr, memw = [], []
        rsbody.Ctx.rel = REL_R
        toks = tokenize(src(REL_R))
        for kind, flag in (('inf', 'true'), ('strict', 'false')):
            st = 'MemWordReader<W, B, %s>' % flag
            for trait, fns in (('WordRead', [('read_word', [], 'W')]),
                               ('WordSeek', [('word_pos', [], 'U64'), ('set_word_pos', ['U64'], 'UNIT')])):
                w = 'impl %s for %s' % (trait, st)
                o, c = impl_of(toks, trait, 'MemWordReader', ' , ' + flag, w)
                for name, ptypes, ret in fns:
                    sig, bo, bc = find_fn(toks, o + 1, c, name, w)
                    memr.append(translate_fn(toks, sig, bo, bc, '%s::%s' % (w, name), '%s_%s' % (name, kind), 'MemR W', ptypes, ret))
        rsbody.Ctx.rel = REL_W
        toks = tokenize(src(REL_W))
        for kind, struct in (('slice', 'MemWordWriterSlice'), ('vec', 'MemWordWriterVec')):
            for trait, fns in (('WordRead', [('read_word', [], 'W')]),
                               ('WordSeek', [('word_pos', [], 'U64'), ('set_word_pos', ['U64'], 'UNIT')]),
                               ('WordWrite', [('write_word', ['W'], 'UNIT')])):
                w = 'impl %s for %s' % (trait, struct)
                o, c = impl_of(toks, trait, struct, '', w)
                for name, ptypes, ret in fns:
                    sig, bo, bc = find_fn(toks, o + 1, c, name, w)
                    memw.append(translate_fn(toks, sig, bo, bc, '%s::%s' % (w, name), '%s_%s' % (name, kind), 'MemW W', ptypes, ret))
            w = 'impl %s' % struct
            o, c = impl_of(toks, None, struct, '', w)
            sig, bo, bc = find_fn(toks, o + 1, c, 'len', w)
            memw.append(translate_len(toks, sig, bo, bc, '%s::len' % w, 'len_%s' % kind, 'MemW W'))
        return memr, memw
    finally:
        rsbody.LEAN_RESERVED, rsbody.lean_ty = old_res, old_ty


def render(HEADER, memr, memw, failure=None):
    head = [HEADER.rstrip('\n'),
            '-- Source: %s, %s; method bodies translated statement by statement by tools/translate_mem.py.' % (REL_R, REL_W),
            'import Dsi.Impl.MemWord',
            'import Dsi.Impl.GenPrelude',
            'import Dsi.Impl.GenSlices',
            'set_option linter.unusedVariables false',
            '']
    if failure is not None:
        return '\n'.join(head + ['-- TRANSLATION FAILED: %s' % failure.replace('\n', ' '), ''])
    return '\n'.join(head + ['namespace Dsi.Gen.MemR', 'open Dsi', 'variable {W : Nat}', ''] + memr +
                     ['end Dsi.Gen.MemR', '', 'namespace Dsi.Gen.MemW', 'open Dsi', 'variable {W : Nat}', ''] + memw +
                     ['end Dsi.Gen.MemW\n'])


def main(write_if_changed, HEADER, src, TranslateError):
    rsbody.Ctx.TE = TranslateError
    try:
        memr, memw = generate(src)
    except TranslateError as ex:
        write_if_changed(OUT, render(HEADER, [], [], str(ex)))
        raise
    changed = write_if_changed(OUT, render(HEADER, memr, memw))
    return ['MemWordBodies'] if changed else []


if __name__ == '__main__':
    import translate
    rsbody.Ctx.TE = translate.TranslateError
    try:
        if '--print' in sys.argv:
            a, b = generate(translate.src)
            print('\n'.join(a + b))
        else:
            print(main(translate.write_if_changed, translate.HEADER, translate.src, translate.TranslateError))
    except translate.TranslateError as ex:
        print('translate: ERROR: %s' % ex)
        sys.exit(3)
