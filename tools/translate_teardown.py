#!/usr/bin/env python3
"""Translator for the TEARDOWN paths -> lean/Dsi/Gen/TeardownBodies.lean:

  BufBitWriter::into_inner, impl Drop for BufBitWriter: fn drop     src/impls/buf_bit_writer.rs
  BufBitReader::into_inner                                          src/impls/buf_bit_reader.rs
  CountBitWriter::into_inner, CountBitReader::into_inner            src/utils/count.rs
  MemWordWriterSlice::into_inner, MemWordWriterVec::into_inner      src/impls/mem_word_writer.rs
  MemWordReader::into_inner                                         src/impls/mem_word_reader.rs

on the states of the hand-written models (`BufW W`, `BufR W`, `CountW ω`, `CountR ρ`, `MemW W`,
`MemR W`).  lean/Dsi/Props/TeardownGen.lean proves each generated definition equal to the named hand
model of lean/Dsi/Impl/Teardown.lean (which the session interpreter uses for `wdrop` / `winto`).

Statement by statement (the parser is tools/rsx.py plus `unsafe { .. }` blocks):

  EFFECT  ::=  self.flush()                the `BitWrite<E>::flush` of the writer: `BufBitWriter.flush e s`,
                                           i.e. `flush_be(self)` / `flush_le(self)` (this translator checks,
                                           like translate_bufw.py, that the two `BitWrite` impls say so)
            |  flush_be(self) | flush_le(self)      Gen.BufW.flush_be s / Gen.BufW.flush_le s
  EFFECT?;                      Res.bind (EFFECT) fun p => let s := p.2; ..     — but in a function that OWNS
                                `self` (`self` / `mut self`) of a type with a `Drop` impl, before any
                                `mem::forget(self)`:  Res.tryDropping (EFFECT) (<the translated drop> s) fun p => ..
                                (on `Err` the writer is dropped before the error is returned)
  EFFECT.unwrap();              Res.bind (Res.unwrapR (EFFECT)) fun p => let s := p.2; ..
  let x = unsafe { ptr::read(&self.F) };   let x := s.F'     a bitwise copy of the field; `self` must then be
                                `mem::forget`-ed before the function ends (otherwise the field is dropped twice)
  let x = self.F;               let x := s.F'     (moving a field out: only for a type without `Drop`)
  mem::forget(self);            nothing: `self` is not dropped (and may not be used again)
  if COND { .. } [else { .. }]  Res.bind (if COND then .. else ..) fun s =>
      COND: TypeId::of::<E>() == TypeId::of::<LE>()  ->  e = Endian.le    (e: the endianness parameter)
            E::IS_LITTLE / E::IS_BIG  ->  e = Endian.le / e = Endian.be  (names and constants as src/traits/endianness.rs
            defines them: tools/translate_endian.py)
            integer comparisons over self.space_left_in_buffer (s.space) and WW::Word::BITS (W)
  tail:  Ok(V) -> .ok V      V -> V      V ::= x | self.F | unsafe { ptr::read(&self.F) }
         (a function without a return type ends in `.ok s`: the state it leaves behind)
  F is the field that holds the backend / the wrapped object (its type is a type parameter of the struct).

A function that owns a `self` with a `Drop` impl and reaches its end without `mem::forget(self)` would
run the destructor there: refused (not modelled).  Anything else is refused too; on error the output
is a stub.
"""
import os, re, sys
sys.path.insert(0, os.path.dirname(os.path.abspath(__file__)))
from rstok import tokenize, match_close, split_top
import rsx
from rsx import err, lean_id, par, Pure, P_ATOM, P_CMP

OUT = 'TeardownBodies.lean'
BW = 'src/impls/buf_bit_writer.rs'
BR = 'src/impls/buf_bit_reader.rs'
CNT = 'src/utils/count.rs'
MW = 'src/impls/mem_word_writer.rs'
MR = 'src/impls/mem_word_reader.rs'

# the selector types and their aliases, as src/traits/endianness.rs defines them (not assumed)
import translate_endian
from translate_endian import ENDIAN_NAMES

# struct -> file, state type, binders, Lean projection and type of the backend field, has a Drop impl
STRUCTS = {
    'BufBitWriter': dict(rel=BW, state='BufW W', binders='', proj='backend', ty='WBackend W', drop=True, endian=True),
    'BufBitReader': dict(rel=BR, state='BufR W', binders='', proj='back', ty='MemR W', drop=False),
    'CountBitWriter': dict(rel=CNT, state='CountW ω', binders='{ω : Type} ', proj='inner', ty='ω', drop=False),
    'CountBitReader': dict(rel=CNT, state='CountR ρ', binders='{ρ : Type} ', proj='inner', ty='ρ', drop=False),
    'MemWordWriterSlice': dict(rel=MW, state='MemW W', binders='', proj='data', ty='List (BitVec W)', drop=False),
    'MemWordWriterVec': dict(rel=MW, state='MemW W', binders='', proj='data', ty='List (BitVec W)', drop=False),
    'MemWordReader': dict(rel=MR, state='MemR W', binders='', proj='data', ty='List (BitVec W)', drop=False),
}
ORDER = ['BufBitWriter', 'BufBitReader', 'CountBitWriter', 'CountBitReader', 'MemWordWriterSlice', 'MemWordWriterVec',
         'MemWordReader']


_BaseParser = rsx.Parser


class UParser(_BaseParser):
    """rsx.Parser plus `unsafe { .. }` in expression position: ('unsafe', stmts)"""
    def primary(self, nostruct):
        if self.at('unsafe') and self.at('{', 1):
            self.i += 1
            return ('unsafe', self.block())
        return _BaseParser.primary(self, nostruct)


def parse_fn(toks, i, what):
    saved = rsx.Parser
    rsx.Parser = UParser
    try:
        return rsx.parse_fn_at(toks, i, what)
    finally:
        rsx.Parser = saved


def struct_fields(toks, name):
    """({field: type text}, [type parameters]) of `struct name<..> { .. }`"""
    for i in range(len(toks) - 1):
        if toks[i] == ('id', 'struct') and toks[i + 1] == ('id', name):
            j = i + 2
            generics = []
            if toks[j] == ('p', '<'):
                p = rsx.Parser(toks, 'struct %s' % name)
                p.i = j
                p._angles()
                inner = toks[j + 1:p.i - 1]
                depth, prev = 0, ('p', ',')
                for k, x in inner:
                    if k == 'p' and x in ('<', '(', '['):
                        depth += 1
                    elif k == 'p' and x in ('>', ')', ']'):
                        depth -= 1
                    elif k == 'p' and x == '>>':
                        depth -= 2
                    if depth == 0 and k == 'id' and prev == ('p', ',') and x != 'const':
                        generics.append(x)
                    if depth <= 0:
                        prev = (k, x)
                        depth = 0
                j = p.i
            while toks[j] != ('p', '{'):
                if toks[j] == ('p', ';'):
                    err('struct %s has no named fields' % name)
                j += 1
            c = match_close(toks, j)
            fields = {}
            for part in split_top(toks[j + 1:c]):
                part = list(part)
                while part and part[0] == ('p', '#'):
                    part = part[match_close(part, 1) + 1:]
                if part and part[0] == ('id', 'pub'):
                    part = part[1:]
                    if part and part[0] == ('p', '('):
                        part = part[match_close(part, 0) + 1:]
                if len(part) >= 3 and part[0][0] == 'id' and part[1] == ('p', ':'):
                    fields[part[0][1]] = rsx.text_of(part[2:])
                elif part:
                    err('struct %s: cannot read the field `%s`' % (name, rsx.text_of(part)))
            return fields, generics
    err('struct %s not found' % name)


def inherent_impls(toks, name):
    return rsx.find_impls(toks, lambda h: re.match(r'^impl (< .* >+ )?%s( <|$)' % name, h) is not None
                          and ' for ' not in (h.split(' where ')[0] + ' '))


def trait_impls(toks, trait_re, name):
    return rsx.find_impls(toks, lambda h: re.search(r'(^| |:: )%s for %s( <|$| )' % (trait_re, name), h.split(' where ')[0] + ' ')
                          is not None)


class Fn:
    def __init__(self, fn, sname, S, backend_f, what, space_f=None):
        self.fn, self.sname, self.S, self.backend_f, self.what = fn, sname, S, backend_f, what
        self.space_f = space_f
        self.pure = Pure(what, hook=self.hook)
        self.owned = fn['recv'] == 'self'
        self.forgotten = False
        self.ptr_read = False
        self.uses_e = False
        self.uses_drop = False
        self.objs = {}            # locals holding the backend: name -> Lean text

    def fail(self, msg):
        err('%s: %s' % (self.what, msg))

    # ---- pure conditions ----
    def type_id(self, e):
        if e[0] == 'call' and e[1][0] == 'path' and e[1][1][-2:] == ['TypeId', 'of'] and not e[2]:
            if e[1][1] not in (['core', 'any', 'TypeId', 'of'], ['std', 'any', 'TypeId', 'of'], ['TypeId', 'of']):
                self.fail('path `%s`' % '::'.join(e[1][1]))
            g = e[1][2]
            if not g or len(g) != 1:
                self.fail('TypeId::of without one type argument')
            if g[0] in ENDIAN_NAMES:
                return ENDIAN_NAMES[g[0]]
            if g[0] == 'E' and self.S.get('endian'):
                self.uses_e = True
                return 'e'
            self.fail('TypeId::of::<%s>' % g[0])
        return None

    def hook(self, e, env):
        k = e[0]
        if k == 'path' and len(e[1]) == 2 and e[2] is None and e[1][1] in translate_endian.CONST_TESTS:
            # `E::IS_LITTLE` / `E::IS_BIG`: decided with the constants src/traits/endianness.rs defines
            T = e[1][0]
            if T in ENDIAN_NAMES:
                term = ENDIAN_NAMES[T]
            elif T == 'E' and self.S.get('endian'):
                self.uses_e = True
                term = 'e'
            else:
                self.fail('`%s::%s`: %s is not an endianness' % (T, e[1][1], T))
            return (translate_endian.endian_test(e[1][1], term), P_CMP, 'prop')
        if k == 'bin' and e[1] in ('==', '!='):
            a, b = self.type_id(e[2]), self.type_id(e[3])
            if a is not None and b is not None:
                return ('%s %s %s' % (a, '=' if e[1] == '==' else '≠', b), P_CMP, 'prop')
            if a is not None or b is not None:
                self.fail('TypeId compared with something else')
        if k == 'field' and e[1] == ('var', 'self'):
            if self.space_f is not None and e[2] == self.space_f:
                return ('s.space', P_ATOM, 'usize')
            self.fail('use of `self.%s` in a condition' % e[2])
        if k == 'path' and e[1] == ['WW', 'Word', 'BITS'] and self.sname == 'BufBitWriter':
            return ('W', P_ATOM, 'usize')
        if k == 'var' and e[1] == 'self':
            self.fail('`self` as a value')
        return None

    # ---- effects ----
    def effect(self, e):
        """Lean text of a flush call, or None"""
        if self.sname != 'BufBitWriter':
            return None
        if e == ('method', ('var', 'self'), 'flush', [], []):
            self.uses_e = True
            return 'BufBitWriter.flush e s'
        if e[0] == 'call' and e[1] in (('var', 'flush_be'), ('var', 'flush_le')) and e[2] == [('var', 'self')]:
            return 'Gen.BufW.%s s' % e[1][1]
        return None

    def check_alive(self, node):
        if self.forgotten and rsx.mentions(node, 'self'):
            self.fail('`self` is used after `mem::forget(self)`')

    def obj(self, e, env):
        """a value that is the backend field: Lean text, or None"""
        while e[0] == 'paren':
            e = e[1]
        proj = 's.%s' % self.S['proj']
        if e[0] == 'var' and e[1] in self.objs:
            return self.objs[e[1]]
        if e == ('field', ('var', 'self'), self.backend_f):
            if self.S['drop']:
                self.fail('`self.%s` is moved out of a value with a `Drop` impl' % self.backend_f)
            if not self.owned:
                self.fail('`self.%s` is moved out of a borrowed `self`' % self.backend_f)
            return proj
        if e[0] == 'unsafe':
            b = e[1]
            if (len(b) == 1 and b[0][0] == 'expr' and not b[0][2] and b[0][1][0] == 'call' and b[0][1][1][0] == 'path'
                    and b[0][1][1][1] in (['ptr', 'read'], ['core', 'ptr', 'read'], ['std', 'ptr', 'read'])
                    and b[0][1][1][2] is None
                    and b[0][1][2] == [('un', '&', ('field', ('var', 'self'), self.backend_f))]):
                if not self.owned:
                    self.fail('`ptr::read` of a field of a borrowed `self`')
                self.ptr_read = True
                return proj
            self.fail('an `unsafe` block that is not `ptr::read(&self.%s)`' % self.backend_f)
        return None

    def bind_effect(self, eff_text, mode, var, pad, L):
        if mode == 'try':
            if not (self.fn['ret'] or '').startswith('Result <'):
                self.fail('`?` in a function that returns no `Result`')
            if self.owned and self.S['drop'] and not self.forgotten:
                self.uses_drop = True
                self.uses_e = True
                L.append('%s-- (`self` is owned and has a `Drop` impl: on `Err` it is dropped before the error is returned)' % pad)
                L.append('%sRes.tryDropping (%s) (BufBitWriter.drop e s) fun p =>' % (pad, eff_text))
            else:
                L.append('%sRes.bind (%s) fun p =>' % (pad, eff_text))
        else:
            L.append('%sRes.bind (Res.unwrapR (%s)) fun p =>' % (pad, eff_text))
        if var is not None:
            L.append('%slet %s := p.1' % (pad, lean_id(var)))
        L.append('%slet s := p.2' % pad)

    def effect_form(self, e):
        """(effect text, 'try' | 'unwrap') for `EFFECT?` / `EFFECT.unwrap()`, else None"""
        if e[0] == 'try':
            t = self.effect(e[1])
            if t is not None:
                return t, 'try'
        if e[0] == 'method' and e[2] == 'unwrap' and not e[3] and not e[4]:
            t = self.effect(e[1])
            if t is not None:
                return t, 'unwrap'
        return None

    def stmts(self, ss, env, pad, L, top):
        for st in ss:
            self.check_alive(st)
            k = st[0]
            if k == 'expr' and st[1] == ('tuple', []):
                continue
            if k == 'expr':
                e = st[1]
                ef = self.effect_form(e)
                if ef is not None:
                    if not st[2] and ef[1] == 'try':
                        self.fail('a flush result as the value of a block')
                    L.append('%s-- %s' % (pad, 'EFFECT?;' if ef[1] == 'try' else 'EFFECT.unwrap();'))
                    self.bind_effect(ef[0], ef[1], None, pad, L)
                    continue
                if (e[0] == 'call' and e[1][0] == 'path' and e[1][2] is None and
                        e[1][1] in (['mem', 'forget'], ['core', 'mem', 'forget'], ['std', 'mem', 'forget'])
                        and e[2] == [('var', 'self')]):
                    if not self.owned or not top:
                        self.fail('`mem::forget(self)` where `self` is not owned (or inside a branch)')
                    self.forgotten = True
                    L.append('%s-- mem::forget(self);   (`self` is not dropped)' % pad)
                    continue
                if e[0] == 'if':
                    c = self.pure.cond(e[1], env)
                    L.append('%s-- if COND {' % pad)
                    L.append('%sRes.bind (if %s then (' % (pad, c[0]))
                    self.stmts(e[2], dict(env), pad + '    ', L, False)
                    L.append('%s    .ok s)' % pad)
                    L.append('%s  else (' % pad)
                    if e[3] is not None:
                        self.stmts(e[3], dict(env), pad + '    ', L, False)
                    L.append('%s    .ok s)) fun s =>' % pad)
                    continue
                self.fail('statement `%s` is not in the translated language' % e[0])
            if k == 'let':
                pat, ty, init = st[1], st[2], st[3]
                if init is None or pat[0] != 'pbind' or pat[2]:
                    self.fail('`let` form')
                name = pat[1]
                ef = self.effect_form(init)
                if ef is not None:
                    self.bind_effect(ef[0], ef[1], name, pad, L)
                    env[name] = 'usize'
                    continue
                v = self.obj(init, env)
                if v is not None:
                    if not top:
                        self.fail('the backend is taken inside a branch')
                    L.append('%slet %s := %s' % (pad, lean_id(name), v))
                    self.objs[name] = lean_id(name)
                    continue
                self.fail('`let %s = ..`: the value is not in the translated language' % name)
            self.fail('statement `%s` is not in the translated language' % k)

    def emit(self):
        fn, S = self.fn, self.S
        if fn['generics'] or fn['params']:
            self.fail('parameters')
        if fn['recv'] not in ('self', '&mut self'):
            self.fail('receiver `%s`' % fn['recv'])
        ret = fn['ret']
        L = []
        env = {}
        body = list(fn['body'])
        last = None
        if body and body[-1][0] == 'expr' and not body[-1][2] and self.effect_form(body[-1][1]) is None \
                and body[-1][1][0] != 'if':
            last = body.pop()[1]
        self.stmts(body, env, '  ', L, True)
        if last is not None:
            self.check_alive(last) if last[0] != 'var' else None
        if ret is None:
            if last is not None:
                self.fail('a value at the end of a function without a return type')
            if self.owned:
                self.fail('a function that consumes `self` and returns nothing')
            L.append('  .ok s')
            lean_ret = 'Res (%s)' % S['state']
        else:
            if last is None:
                self.fail('the function ends without a value')
            r = ret.replace(' ', '')
            if r.startswith('Result<'):
                if not (last[0] == 'call' and last[1] == ('var', 'Ok') and len(last[2]) == 1):
                    self.fail('the final expression is not `Ok(..)`')
                v = self.obj(last[2][0], env)
                if v is None:
                    self.fail('the returned value is not the backend')
                L.append('  .ok %s' % v)
                lean_ret = 'Res (%s)' % S['ty']
            else:
                v = self.obj(last, env)
                if v is None:
                    self.fail('the returned value is not the backend')
                L.append('  %s' % v)
                lean_ret = S['ty']
        if self.ptr_read and not self.forgotten:
            self.fail('`ptr::read(&self.%s)` without `mem::forget(self)`: the field would be dropped twice' % self.backend_f)
        if self.owned and S['drop'] and not self.forgotten:
            self.fail('`self` (a value with a `Drop` impl) reaches the end of the function: the destructor would run there (not modelled)')
        binders = S['binders']
        if self.uses_e or S.get('endian'):
            binders += '(e : Endian) '       # every function of an endianness-generic struct takes it, used or not
        return binders + '(s : %s)' % S['state'], lean_ret, L


def check_flush_dispatch(toks):
    """`impl BitWrite<BE> for BufBitWriter: fn flush` is `flush_be(self)`, and LE likewise"""
    for E, helper in (('BE', 'flush_be'), ('LE', 'flush_le')):
        found = rsx.find_impls(toks, lambda h: re.search(r'BitWrite < %s > for BufBitWriter <' % E, h) is not None)
        if len(found) != 1:
            err('expected exactly one `impl BitWrite<%s> for BufBitWriter`, found %d' % (E, len(found)))
        _, o, c = found[0]
        hits = rsx.find_fns(toks, o + 1, c, 'flush')
        if len(hits) != 1:
            err('impl BitWrite<%s> for BufBitWriter: expected exactly one fn flush' % E)
        fn = rsx.parse_fn_at(toks, hits[0], 'impl BitWrite<%s> for BufBitWriter: fn flush' % E)
        if fn['recv'] != '&mut self' or fn['params'] or fn['body'] != [('expr', ('call', ('var', helper), [('var', 'self')]), False)]:
            err('impl BitWrite<%s> for BufBitWriter: fn flush is not `%s(self)`' % (E, helper))


def gen(src):
    out = []
    cache = {}

    def toks_of(rel):
        if rel not in cache:
            rsx.Ctx.rel = rel
            cache[rel] = tokenize(src(rel))
            rsx.check_no_alias(cache[rel], rel)
        rsx.Ctx.rel = rel
        return cache[rel]

    for sname in ORDER:
        S = STRUCTS[sname]
        toks = toks_of(S['rel'])
        fields, generics = struct_fields(toks, sname)
        cand = [f for f, t in fields.items() if t in generics]
        if len(cand) != 1:
            err('struct %s: cannot tell the backend field (candidates %r)' % (sname, cand))
        backend_f = cand[0]
        drops = trait_impls(toks, r'Drop', sname)
        if bool(drops) != S['drop']:
            err('struct %s: %s' % (sname, 'a `Drop` impl appeared' if drops else 'the `Drop` impl is gone'))
        space_f = None
        if sname == 'BufBitWriter':
            check_flush_dispatch(toks)
            if fields.get('space_left_in_buffer') != 'usize':
                err('struct BufBitWriter: no `space_left_in_buffer: usize`')
            space_f = 'space_left_in_buffer'
            out.append('/-- `<BufBitWriter<E, ..> as BitWrite<E>>::flush`: `impl BitWrite<BE> for BufBitWriter: fn flush` is')
            out.append('    `flush_be(self)`, `impl BitWrite<LE> ..` is `flush_le(self)` (checked by the translator) -/')
            out.append('def BufBitWriter.flush (e : Endian) (s : BufW W) : Res (Nat × BufW W) :=')
            out.append('  match e with')
            out.append('  | .be => Gen.BufW.flush_be s')
            out.append('  | .le => Gen.BufW.flush_le s')
            out.append('')
            if len(drops) != 1:
                err('expected exactly one `impl Drop for BufBitWriter`')
            _, o, c = drops[0]
            hits = rsx.find_fns(toks, o + 1, c, 'drop')
            if len(hits) != 1:
                err('impl Drop for BufBitWriter: expected exactly one fn drop')
            what = 'impl Drop for BufBitWriter: fn drop'
            fn = parse_fn(toks, hits[0], what)
            if fn['recv'] != '&mut self' or fn['ret'] is not None:
                err('%s: signature' % what)
            hdr, ret, lines = Fn(fn, sname, S, backend_f, what, space_f).emit()
            out.append('/-- `%s` (%s): the state the writer leaves behind -/' % (what, S['rel']))
            out.append('def BufBitWriter.drop %s : %s :=' % (hdr, ret))
            out += lines
            out.append('')
        hits = []
        for _, o, c in inherent_impls(toks, sname):
            hits += rsx.find_fns(toks, o + 1, c, 'into_inner')
        if len(hits) != 1:
            err('%s: expected exactly one inherent `fn into_inner`, found %d' % (sname, len(hits)))
        what = '%s::into_inner' % sname
        fn = parse_fn(toks, hits[0], what)
        if fn['recv'] != 'self':
            err('%s: does not consume `self`' % what)
        f = Fn(fn, sname, S, backend_f, what, space_f)
        hdr, ret, lines = f.emit()
        out.append('/-- `%s` (%s) -/' % (what, S['rel']))
        out.append('def %s.into_inner %s : %s :=' % (sname, hdr, ret))
        out += lines
        out.append('')
    return out


def main(write_if_changed, HEADER, src, TranslateError):
    rsx.Ctx.TE = TranslateError
    head = [HEADER.rstrip('\n'),
            '-- (tools/translate_teardown.py: `into_inner` of the bit writers / readers, the counting wrappers and the',
            '-- memory word streams, and `Drop for BufBitWriter`, statement by statement, on the states of the hand models.)',
            'import Dsi.Impl.Teardown', 'import Dsi.Gen.BufWriterBodies', '', 'namespace Dsi.Gen.Teardown', 'open Dsi',
            'variable {W : Nat}', 'set_option linter.unusedVariables false', '']
    try:
        body = gen(src)
    except TranslateError as ex:
        write_if_changed(OUT, '\n'.join(head + ['-- TRANSLATION FAILED: %s' % str(ex).replace('\n', ' '), '',
                                                'end Dsi.Gen.Teardown', '']))
        raise
    return ['TeardownBodies'] if write_if_changed(OUT, '\n'.join(head + body + ['end Dsi.Gen.Teardown', ''])) else []


if __name__ == '__main__':
    import translate
    try:
        print(main(translate.write_if_changed, translate.HEADER, translate.src, translate.TranslateError))
    except translate.TranslateError as ex:
        print('translate: ERROR: %s' % ex)
        sys.exit(3)
