"""Scenario generators (one PRNG state per run: VERIF_SEED). Structure-aware and mostly valid;
small state spaces are enumerated. Every generator returns request lines of the line protocol."""
import random
from pycodes import codeword, bits_to_bytes, hexs, field, unary

WW = [8, 16, 32, 64, 128]
RW = [8, 16, 32, 64]
ES = ['be', 'le']
U64 = (1 << 64) - 1


def value_grid(rng, quick=True, maxv=U64 - 1):
    vals = set(range(0, 40 if quick else 300))
    for i in range(65):
        for d in (-1, 0, 1):
            v = (1 << i) + d
            if 0 <= v <= maxv:
                vals.add(v)
    vals.add(maxv)
    vals.add(max(0, maxv - 1))
    for _ in range(20 if quick else 100):
        vals.add(rng.randrange(0, maxv + 1))
        vals.add(rng.randrange(0, min(maxv + 1, 1 << rng.randrange(1, 65))))
    return sorted(v for v in vals if v <= maxv)


def rand_value(rng, maxv=U64 - 1):
    k = rng.random()
    if k < 0.3:
        return rng.randrange(0, min(300, maxv + 1))
    if k < 0.6:
        i = rng.randrange(0, 65)
        return max(0, min(maxv, (1 << i) + rng.choice((-1, 0, 1))))
    if k < 0.65:
        return maxv
    return rng.randrange(0, min(maxv + 1, 1 << rng.randrange(1, 65)))


# code descriptors: name -> (param chooser, value bound given param, flag options)
def code_params(rng, code, quick=True):
    if code == 'zeta':
        ks = list(range(1, 64)) if not quick else [1, 2, 3, 4, 5, 7, 8, 13, 16, 21, 31, 32, 33, 62, 63]
        return ks
    if code in ('pi', 'rice', 'expg'):
        return list(range(0, 64)) if not quick else [0, 1, 2, 3, 5, 8, 13, 31, 32, 62, 63]
    if code == 'golomb':
        bs = list(range(1, 71)) if not quick else [1, 2, 3, 4, 5, 6, 7, 8, 9, 15, 16, 17, 64, 70]
        bs += [1 << 32, (1 << 32) + 1, (1 << 63) - 1, 1 << 63, (1 << 63) + 1, U64 - 1, U64, rng.randrange(1, 1 << 64)]
        return bs
    if code == 'minbin':
        us = list(range(1, 40)) + [1 << 32, (1 << 63) - 1, 1 << 63, (1 << 63) + 1, U64, rng.randrange(1, 1 << 64),
                                   rng.randrange(1, 1 << 20)]
        return us
    return [0]


def max_value(code, p):
    """largest value of the domain, keeping unary parts short enough to run"""
    if code == 'unary':
        return 3000
    if code in ('gamma', 'delta', 'omega', 'zeta', 'zeta3', 'pi'):
        return U64 - 1
    if code == 'rice':
        return min(U64, (2000 << p) - 1)
    if code == 'golomb':
        return min(U64, 2000 * p - 1)
    if code == 'expg':
        return U64 - 1 if p == 0 else U64
    if code == 'minbin':
        return p - 1
    return U64


FLAGS = {'gamma': ['0', '1', 'd'], 'delta': ['00', '01', '10', '11', 'd'], 'zeta3': ['0', '1', 'd'],
         'zeta': ['d', '0', '1']}
ALL_CODES = ['unary', 'gamma', 'delta', 'omega', 'zeta', 'zeta3', 'pi', 'rice', 'golomb', 'expg', 'minbin', 'vbbe', 'vble']


def flags_for(code):
    return FLAGS.get(code, ['-'])


def uses_table_read(code, flags):
    """does reading this code with these flags look ahead through a table (needs peek capacity)?"""
    if code == 'gamma':
        return flags == '1'
    if code == 'delta':
        return flags in ('01', '10', '11', 'd')
    if code == 'zeta3':
        return flags in ('1', 'd')
    return False


def reader_cfgs(quick=True):
    out = []
    for e in ES:
        for strict in (0, 1):
            for rw in RW:
                out.append('e=%s rw=%d rk=buf strict=%d' % (e, rw, strict))
            out.append('e=%s rw=64 rk=bit strict=%d' % (e, strict))
        # the same readers over a byte stream (WordAdapter over a Cursor): always strict
        for rw in RW:
            out.append('e=%s rw=%d rk=buf strict=1 rb=adapter' % (e, rw))
        out.append('e=%s rw=64 rk=bit strict=1 rb=adapter' % e)
    return out


def rw_of(cfg):
    for t in cfg.split():
        if t.startswith('rw='):
            return int(t[3:])
    return 32


def is_bit(cfg):
    return 'rk=bit' in cfg


def peek_cap(cfg):
    return 32 if is_bit(cfg) else rw_of(cfg)


def rand_bytes(rng, n, pattern=None):
    pattern = pattern or rng.choice(['rand', 'rand', 'rand', 'ones', 'zeros', 'sparse', 'runs'])
    if pattern == 'rand':
        return bytes(rng.randrange(256) for _ in range(n))
    if pattern == 'ones':
        return bytes([255] * n)
    if pattern == 'zeros':
        return bytes([0] * n)
    if pattern == 'sparse':
        return bytes((1 << rng.randrange(8)) if rng.random() < 0.15 else 0 for _ in range(n))
    # long zero runs with occasional dense bytes
    out = bytearray()
    while len(out) < n:
        out += bytes([0] * rng.randrange(1, 20))
        out.append(rng.randrange(256))
    return bytes(out[:n])


def dirty(rng, v, n):
    """add garbage above bit n (the library must ignore it)"""
    if n >= 64:
        return v & U64
    return ((rng.getrandbits(64) << n) | (v & ((1 << n) - 1))) & U64


# ---------------------------------------------------------------------------------------------
# C01 writer
# ---------------------------------------------------------------------------------------------

def fill_to(rng, W, used):
    """ops that leave exactly `used` bits in the buffer of an empty writer"""
    ops = []
    while used > 0:
        k = min(used, 64)
        ops.append('wb x%x %d' % (rng.getrandbits(k) if k else 0, k))
        used -= k
    return ops


def gen_C01(rng, tier):
    quick = tier == 'quick'
    lines = []
    for e in ES:
        for W in WW:
            spaces = range(1, W + 1)
            if quick and W >= 64:
                spaces = sorted(set([1, 2, 3, W // 2 - 1, W // 2, W // 2 + 1, W - 2, W - 1, W] + rng.sample(range(1, W + 1), 6)))
            for space in spaces:
                pre = fill_to(rng, W, W - space)
                nexts = []
                ns = range(0, 65)
                if quick and W >= 32:
                    ns = sorted(set([0, 1, 2, 7, 8, 9, 31, 32, 33, 63, 64, space - 1, space, space + 1] + rng.sample(range(0, 65), 5)))
                for n in ns:
                    if 0 <= n <= 64:
                        nexts.append('wb x%x %d' % (dirty(rng, rng.getrandbits(64), n), n))
                xs = range(0, 3 * W + 2)
                if quick and W >= 32:
                    xs = sorted(set([0, 1, space - 2, space - 1, space, space + 1, W - 1, W, W + 1, space + W - 2, space + W - 1, space + W,
                                     space + 2 * W - 1, space + 2 * W, 3 * W + 1] + rng.sample(range(0, 3 * W + 2), 4)))
                for x in xs:
                    if x >= 0:
                        nexts.append('wu %d' % x)
                nexts.append('wf')
                for nx in nexts:
                    ops = pre + [nx, 'wd', 'wb x%x %d' % (rng.getrandbits(64), rng.randrange(0, 65)), rng.choice(['wf', 'wf', 'wdrop', 'winto']), 'wd', 'wf', 'wd']
                    lines.append('S e=%s ww=%d%s :: %s' % (e, W, rng.choice(['', '', ' wb=adapter', ' wb=rec']), ' ; '.join(ops)))
    # random histories
    nh = 1500 if quick else 40000
    for _ in range(nh):
        e = rng.choice(ES)
        W = rng.choice(WW)
        cap = ''
        k = rng.random()
        if k < 0.2:
            cap = ' cap=%d' % rng.randrange(0, 6)
        elif k < 0.35:
            cap = ' wb=adapter'      # BufBitWriter over WordAdapter over a byte Cursor
        elif k < 0.5:
            cap = ' wb=rec'          # a word sink that only records
        ops = []
        for _ in range(rng.randrange(1, 60)):
            k = rng.random()
            if k < 0.5:
                n = rng.choice([rng.randrange(0, 65), rng.randrange(0, 65), 64, 0, 1, W % 65, (W - 1) % 65])
                ops.append('wb x%x %d' % (dirty(rng, rng.getrandbits(64), n), n))
            elif k < 0.8:
                x = rng.choice([rng.randrange(0, 10), rng.randrange(0, 3 * W + 2), W - 1, W, 2 * W - 1])
                ops.append('wu %d' % x)
            elif k < 0.9:
                ops.append('wf')
            else:
                ops.append('wd')
        ops += ['wd', 'wf', 'wd', 'wf']
        if rng.random() < 0.3:
            ops += [rng.choice(['wdrop', 'winto']), 'wb x5 3', 'wd', rng.choice(['wdrop', 'winto'])]
        lines.append('S e=%s ww=%d%s :: %s' % (e, W, cap, ' ; '.join(ops)))
    return lines


# ---------------------------------------------------------------------------------------------
# C02 reader
# ---------------------------------------------------------------------------------------------

def reader_ops_alphabet(rng, cfg, quick):
    W = rw_of(cfg)
    cap = peek_cap(cfg)
    ns = sorted(set([0, 1, 2, 7, 8, 9, W - 1, W, W + 1, 2 * W - 1, 2 * W, 2 * W + 1, 63, 64] + [rng.randrange(0, 65) for _ in range(3)]))
    ns = [n for n in ns if 0 <= n <= 64]
    if not quick and W <= 16:
        ns = list(range(0, 65))
    ops = ['rb %d' % n for n in ns]
    ops += ['rs %d' % n for n in ns + [100, 3 * W + 5]]
    ps = sorted(set([1, 2, cap // 2, cap - 1, cap] + [rng.randrange(1, cap + 1) for _ in range(2)]))
    if not quick and W <= 16:
        ps = list(range(1, cap + 1))
    ops += ['rp %d' % p for p in ps if 1 <= p <= cap]
    ops += ['ru', 'clone ; swap', 'pos']
    return ops


def gen_C02(rng, tier):
    quick = tier == 'quick'
    lines = []
    for cfg in reader_cfgs(quick):
        W = rw_of(cfg)
        alpha = reader_ops_alphabet(rng, cfg, quick)
        depth2 = (W <= 16) or not quick
        for a in alpha:
            seconds = alpha if depth2 else rng.sample(alpha, min(len(alpha), 12))
            for b in seconds:
                data = rand_bytes(rng, rng.choice([8, 16, 24, 40]))
                tail = ['rb 13', 'pos', 'rp %d' % min(7, peek_cap(cfg)), 'rb 64', 'pos']
                lines.append('S %s data=%s :: %s' % (cfg, hexs(data), ' ; '.join([a, 'pos', b, 'pos'] + tail)))
    nh = 2500 if quick else 60000
    cfgs = reader_cfgs(quick)
    for _ in range(nh):
        cfg = rng.choice(cfgs)
        cap = peek_cap(cfg)
        W = rw_of(cfg)
        data = rand_bytes(rng, rng.choice([0, 1, 8, 16, 33, 64, 120]))
        ops = []
        for _ in range(rng.randrange(1, 40)):
            k = rng.random()
            if k < 0.35:
                ops.append('rb %d' % rng.choice([rng.randrange(0, 65), 64, W % 65, 1]))
            elif k < 0.5:
                ops.append('rs %d' % rng.choice([rng.randrange(0, 65), rng.randrange(0, 200)]))
            elif k < 0.7:
                p = rng.randrange(1, cap + 1)
                ops.append('rp %d' % p)
                if rng.random() < 0.5:
                    ops.append('rsp %d' % rng.randrange(0, p + 1))
            elif k < 0.85:
                ops.append('ru')
            elif k < 0.9:
                ops.append('clone')
            elif k < 0.95:
                ops.append('swap')
            else:
                ops.append('pos')
        ops.append('pos')
        lines.append('S %s data=%s :: %s' % (cfg, hexs(data), ' ; '.join(ops)))
    return lines


# ---------------------------------------------------------------------------------------------
# codes: C03 / C04 / C06
# ---------------------------------------------------------------------------------------------

def code_cases(rng, quick, codes=ALL_CODES):
    """(code, flags, param, value)"""
    out = []
    for code in codes:
        for p in code_params(rng, code, quick):
            mv = max_value(code, p)
            if mv < 0:
                continue
            grid = value_grid(rng, quick, mv)
            if quick and len(grid) > 60:
                keep = set(grid[:25]) | set(grid[-4:]) | set(rng.sample(grid, 30))
                grid = sorted(keep)
            for v in grid:
                for fl in flags_for(code):
                    out.append((code, fl, p, v))
    return out


def gen_C03(rng, tier):
    """write at an offset, read back on every reader kind; concatenations decode unambiguously"""
    quick = tier == 'quick'
    lines = []
    cases = code_cases(rng, quick)
    rcfgs = reader_cfgs(quick)
    if quick:
        cases = rng.sample(cases, min(len(cases), 6000))
    for (code, fl, p, v) in cases:
        for _ in range(1 if quick else 3):
            cfg = rng.choice(rcfgs)
            ww = rng.choice(WW)
            W = rw_of(cfg)
            off = rng.randrange(0, 2 * W + 2)
            rfl = fl
            if uses_table_read(code, fl) and peek_cap(cfg) < 16:
                rfl = {'gamma': '0', 'delta': '00', 'zeta3': '0'}[code]
            sent = rng.getrandbits(17)
            pre = fill_to(rng, 1 << 30, off)
            ops = pre + ['wc %s %s %d %d' % (code, fl, p, v), 'wb x%x 17' % sent, 'wf', 'reopen', 'rs %d' % off,
                         'rc %s %s %d' % (code, rfl, p), 'pos', 'rb 17', 'pos']
            lines.append('S %s ww=%d :: %s' % (cfg, ww, ' ; '.join(ops)))
    # mixed concatenations
    nm = 800 if quick else 20000
    for _ in range(nm):
        cfg = rng.choice(rcfgs)
        ww = rng.choice(WW)
        items = []
        for _ in range(rng.randrange(2, 14)):
            if rng.random() < 0.2:
                n = rng.randrange(0, 65)
                items.append(('raw', n, rng.getrandbits(n) if n else 0))
            else:
                code = rng.choice(ALL_CODES)
                p = rng.choice(code_params(rng, code, True))
                mv = max_value(code, p)
                v = rand_value(rng, mv)
                fl = rng.choice(flags_for(code))
                items.append((code, fl, p, v))
        w, r = [], []
        for it in items:
            if it[0] == 'raw':
                w.append('wb x%x %d' % (it[2], it[1]))
                r.append('rb %d' % it[1])
            else:
                code, fl, p, v = it
                rfl = fl
                if uses_table_read(code, fl) and peek_cap(cfg) < 16:
                    rfl = {'gamma': '0', 'delta': '00', 'zeta3': '0'}[code]
                w.append('wc %s %s %d %d' % (code, fl, p, v))
                r.append('rc %s %s %d' % (code, rfl, p))
        lines.append('S %s ww=%d :: %s' % (cfg, ww, ' ; '.join(w + ['wf', 'reopen'] + r + ['pos'])))
    # the codeword is the last thing in a stream that ends (strict backends): a look-ahead that runs
    # into the end must leave the reader where the bit-by-bit decoder leaves it
    strict = [c for c in rcfgs if 'strict=1' in c]
    tails = [c for c in cases if c[0] in ('gamma', 'delta', 'zeta3', 'omega', 'unary')]
    tails = rng.sample(tails, min(len(tails), 1500 if quick else 12000))
    for (code, fl, p, v) in tails:
        cfg = rng.choice(strict)
        W = rw_of(cfg)
        rfl = fl
        if uses_table_read(code, fl) and peek_cap(cfg) < 16:
            continue
        off = rng.randrange(0, 2 * W + 2)
        pre = fill_to(rng, 1 << 30, off)
        ops = pre + ['wc %s %s %d %d' % (code, fl, p, v), 'wf', 'reopen', 'rs %d' % off,
                     'rc %s %s %d' % (code, rfl, p), 'pos', 'rb 1', 'pos']
        lines.append('S %s ww=8 :: %s' % (cfg, ' ; '.join(ops)))
    return lines


def gen_C04(rng, tier):
    """bytes of [sentinel, codeword, sentinel] against the published definition (the reference
    writes Dsi.Spec codewords)"""
    quick = tier == 'quick'
    lines = []
    cases = code_cases(rng, quick)
    if quick:
        cases = rng.sample(cases, min(len(cases), 8000))
    for (code, fl, p, v) in cases:
        e = rng.choice(ES)
        ww = rng.choice(WW)
        off = rng.randrange(0, 20)
        ops = ['wb x%x %d' % (rng.getrandbits(off) if off else 0, off), 'wc %s %s %d %d' % (code, fl, p, v),
               'wb x%x 9' % rng.getrandbits(9), 'wf', 'wd']
        lines.append('S e=%s ww=%d :: %s' % (e, ww, ' ; '.join(ops)))
    # every value below 2^16 (2^12 in quick) for the parameterless codes and small parameters, packed many per line
    top = 1 << 12 if quick else 1 << 16
    packs = [('gamma', '0', 0), ('gamma', '1', 0), ('delta', '00', 0), ('delta', '11', 0), ('zeta3', '0', 0), ('zeta3', '1', 0),
             ('omega', '-', 0), ('zeta', 'd', 2), ('zeta', 'd', 5), ('pi', '-', 0), ('pi', '-', 2), ('pi', '-', 3), ('rice', '-', 4),
             ('golomb', '-', 5), ('golomb', '-', 12), ('expg', '-', 0), ('expg', '-', 3), ('minbin', '-', top), ('minbin', '-', top - 1 if top > 1 else 1),
             ('vbbe', '-', 0), ('vble', '-', 0)]
    for (code, fl, p) in packs:
        for e in ES:
            ww = rng.choice(WW)
            hi = top if code != 'minbin' else p
            hi = min(hi, 1 << 10) if code in ('rice', 'golomb') else hi
            for start in range(0, hi, 64):
                ops = ['wc %s %s %d %d' % (code, fl, p, v) for v in range(start, min(start + 64, hi))]
                lines.append('S e=%s ww=%d :: %s' % (e, ww, ' ; '.join(ops + ['wf', 'wd'])))
    return lines


# ---------------------------------------------------------------------------------------------
# C05 tables
# ---------------------------------------------------------------------------------------------

TABLE_BITS = {'gamma': 9, 'delta': 11, 'zeta3': 12}


def gen_C05(rng, tier, diag=None):
    """every index of every decoding table at every alignment, table vs non-table on clones;
    values around the encoding-table boundary. `diag[cfgkey]` = set of table names for which the
    reader's construction printed the diagnostic (those tables are excluded for that reader)."""
    quick = tier == 'quick'
    lines = []
    diag = diag or {}
    rcfgs = reader_cfgs(quick)
    for cfg in rcfgs:
        W = rw_of(cfg)
        e = 'le' if 'e=le' in cfg else 'be'
        le = e == 'le'
        key = ('bit' if is_bit(cfg) else 'buf%d' % W)
        flagged = diag.get(key, set())
        for code, rb in TABLE_BITS.items():
            if code in flagged:
                continue
            if code == 'delta' and 'gamma' in flagged:
                flagsets = [('10', '00')]
            elif code == 'delta':
                flagsets = [('10', '00'), ('11', '00'), ('01', '00'), ('d', '00')]
            else:
                flagsets = [('1', '0'), ('d', '0')]
            # every index of the table is exercised in both tiers (a single stale entry must not
            # slip through); the quick tier uses one random alignment per index, thorough all of them
            idxs = range(1 << rb)
            aligns = list(range(W))
            for idx in idxs:
                if quick:
                    als = [rng.choice(aligns)]
                elif W <= 16:
                    als = aligns                      # thorough: every alignment on the small words
                else:
                    als = sorted(set([0, W - 1] + rng.sample(aligns, 6)))
                if quick and idx < 32:
                    als = sorted(set(als + [0, W - 1]))
                for al in als:
                    pre = [rng.getrandbits(1) for _ in range(al)]
                    body = field(le, idx, rb)
                    tail = [rng.getrandbits(1) for _ in range(rng.randrange(0, 80))] + [1]
                    bits = pre + body + tail
                    data = bits_to_bytes(le, bits)
                    tf, nf = rng.choice(flagsets)
                    ops = ['rs %d' % al, 'clone', 'rc %s %s 0' % (code, tf), 'pos', 'swap', 'rc %s %s 0' % (code, nf), 'pos']
                    lines.append('S %s data=%s :: %s' % (cfg, hexs(data), ' ; '.join(ops)))
    # strict streams whose last code ends in the last word (fewer than READ_BITS bits remain)
    for cfg in rcfgs:
        if 'strict=1' not in cfg:
            continue
        W = rw_of(cfg)
        le = 'e=le' in cfg
        key = ('bit' if is_bit(cfg) else 'buf%d' % W)
        flagged = diag.get(key, set())
        for code in TABLE_BITS:
            if code in flagged or (code == 'delta' and 'gamma' in flagged):
                continue
            for _ in range(40 if quick else 600):
                vals = [rng.choice([0, 1, 2, 3, 5, 10, 30, 100, 1000]) for _ in range(rng.randrange(1, 12))]
                bits = []
                for v in vals:
                    bits += codeword(le, code, 0, v)
                wordbits = 64 if is_bit(cfg) else W
                padn = (-len(bits)) % wordbits
                # leading padding so that the last codeword ends exactly at the end of the last word
                bits = [0] * padn + bits
                data = bits_to_bytes(le, bits)
                tf = {'gamma': '1', 'delta': rng.choice(['11', '10', 'd']), 'zeta3': rng.choice(['1', 'd'])}[code]
                ops = ['rs %d' % padn] + ['rc %s %s 0' % (code, tf) for _ in vals] + ['pos']
                lines.append('S %s data=%s :: %s' % (cfg, hexs(data), ' ; '.join(ops)))
    # a table look-ahead right after a seek (word-aligned and not, forwards and backwards) while the
    # bit buffer still holds unread bits of the previous position
    for cfg in rcfgs:
        W = rw_of(cfg)
        le = 'e=le' in cfg
        key = ('bit' if is_bit(cfg) else 'buf%d' % W)
        flagged = diag.get(key, set())
        wordbits = 64 if is_bit(cfg) else W
        for code in TABLE_BITS:
            if code in flagged or (code == 'delta' and 'gamma' in flagged):
                continue
            for _ in range(12 if quick else 200):
                head = [1 if rng.random() < 0.8 else 0 for _ in range(wordbits * rng.randrange(1, 4))]
                if rng.random() < 0.3:
                    head += [rng.getrandbits(1) for _ in range(rng.randrange(1, wordbits))]
                P = len(head)
                vals = [rng.choice([0, 1, 2, 3, 5, 10, 30, 100, 1000]) for _ in range(rng.randrange(1, 8))]
                bits = list(head)
                starts = []
                for v in vals:
                    starts.append(len(bits))
                    bits += codeword(le, code, 0, v)
                bits += [rng.getrandbits(1) for _ in range(2 * wordbits + 16)] + [1]
                data = bits_to_bytes(le, bits)
                tf = {'gamma': '1', 'delta': rng.choice(['11', '10', 'd']), 'zeta3': rng.choice(['1', 'd'])}[code]
                ops = ['rb %d' % rng.randrange(1, min(P, 64) + 1), 'seek %d' % P]
                ops += ['rc %s %s 0' % (code, tf) for _ in vals] + ['pos']
                j = rng.randrange(len(vals))
                ops += ['seek %d' % starts[j], 'rc %s %s 0' % (code, tf), 'pos', 'seek 0', 'rb 1', 'seek %d' % P,
                        'rc %s %s 0' % (code, tf), 'pos']
                lines.append('S %s data=%s :: %s' % (cfg, hexs(data), ' ; '.join(ops)))
    # encoding tables and length tables around the boundary: bits with tables on == off
    for code, wmax in (('gamma', 63), ('delta', 1023), ('zeta3', 1023)):
        vs = list(range(0, 12)) + list(range(wmax - 3, wmax + 4))
        if not quick:
            vs = list(range(0, wmax + 5))
        for e in ES:
            for v in vs:
                fls = flags_for(code)
                ops = []
                for fl in fls:
                    ops.append('wc %s %s 0 %d' % (code, fl, v))
                lines.append('S e=%s ww=%d :: %s' % (e, rng.choice(WW), ' ; '.join(ops + ['wf', 'wd'])))
    return lines


# ---------------------------------------------------------------------------------------------
# C07 positions / seeks
# ---------------------------------------------------------------------------------------------

def gen_C07(rng, tier):
    quick = tier == 'quick'
    lines = []
    for cfg in reader_cfgs(quick):
        W = rw_of(cfg)
        wordbits = 64 if is_bit(cfg) else W
        le = 'e=le' in cfg
        nwords = rng.choice([2, 3, 4])
        nbytes = nwords * wordbits // 8
        total = nbytes * 8
        alpha = ['rb 0', 'rb 1', 'rb %d' % min(64, W - 1), 'rb %d' % min(64, W), 'rb %d' % min(64, W + 1), 'rb 64', 'rs 3', 'rs %d' % (W + 3),
                 'rp %d' % min(5, peek_cap(cfg)), 'rp %d' % peek_cap(cfg), 'ru', 'rio 3', 'rio 9', 'rc gamma 0 0', 'rc delta 00 0',
                 'rc zeta3 0 0', 'rc omega - 0', 'rc vbbe - 0', 'rc minbin - 11']
        if peek_cap(cfg) >= 16:
            alpha += ['rc gamma 1 0', 'rc delta 11 0', 'rc zeta3 1 0', 'rc gamma d 0', 'rc delta d 0', 'rc zeta3 d 0']
        if 'strict=0' in cfg:
            # on arbitrary data a code read may ask for an astronomically long field; a strict backend
            # ends that at once with an error, a zero-extended one would spin for hours
            # (omega included: on arbitrary bits its block length can grow to 2^64)
            alpha = [a for a in alpha if not a.startswith('rc ') or a.startswith('rc vbbe') or a.startswith('rc minbin')]
        ps = range(0, total + 1)
        if quick and total > 64:
            ps = sorted(set(list(range(0, 20)) + [W - 1, W, W + 1, 2 * W - 1, 2 * W, total - 1, total] + rng.sample(range(0, total + 1), 10)))
        for p in ps:
            for op in (alpha if not quick else rng.sample(alpha, 6)):
                data = rand_bytes(rng, nbytes, rng.choice(['rand', 'rand', 'sparse']))
                pre = rng.choice(['', 'rb 5 ; ', 'rp %d ; ' % min(3, peek_cap(cfg)), 'ru ; ', 'rs 70 ; '])
                ops = pre + 'seek %d ; pos ; %s ; pos ; rb 7 ; pos' % (p, op)
                lines.append('S %s data=%s :: %s' % (cfg, hexs(data), ops))
    # random histories with seeks
    nh = 1500 if quick else 40000
    cfgs = reader_cfgs(quick)
    for _ in range(nh):
        cfg = rng.choice(cfgs)
        W = rw_of(cfg)
        wordbits = 64 if is_bit(cfg) else W
        nbytes = rng.choice([1, 2, 3, 5]) * wordbits // 8
        total = nbytes * 8
        data = rand_bytes(rng, nbytes)
        ops = []
        for _ in range(rng.randrange(2, 30)):
            k = rng.random()
            if k < 0.25:
                ops.append('seek %d' % rng.randrange(0, total + 1))
            elif k < 0.5:
                ops.append('rb %d' % rng.randrange(0, 65))
            elif k < 0.6:
                ops.append('rp %d' % rng.randrange(1, peek_cap(cfg) + 1))
            elif k < 0.7:
                ops.append('rs %d' % rng.randrange(0, 80))
            elif k < 0.8:
                ops.append('ru')
            elif k < 0.85:
                ops.append('rio %d' % rng.randrange(0, 12))
            elif k < 0.9 and 'strict=1' in cfg:
                ops.append(rng.choice(['rc gamma 0 0', 'rc delta 00 0', 'rc omega - 0', 'rc zeta3 0 0']))
            ops.append('pos')
        lines.append('S %s data=%s :: %s' % (cfg, hexs(data), ' ; '.join(ops)))
    return lines


# ---------------------------------------------------------------------------------------------
# C08 copy
# ---------------------------------------------------------------------------------------------

def gen_C08(rng, tier, copy_flag=1):
    quick = tier == 'quick'
    lines = []
    cfgs = reader_cfgs(quick)
    conts = ['rb 11 ; pos', 'rp 5 ; rb 3', 'ru', 'rc gamma 0 0', 'ct 7 ; rb 9', 'cf 70 ; rb 5', 'rb 64 ; rb 64', 'rs 9 ; rb 20']
    for cfg in cfgs:
        W = rw_of(cfg)
        cap = peek_cap(cfg)
        tconts = list(conts)
        if cap >= 16:
            tconts += ['rc gamma 1 0 ; rc gamma 1 0 ; rc gamma 1 0 ; rc gamma 1 0', 'rc delta 11 0 ; rc delta 11 0', 'rc zeta3 1 0 ; rc zeta3 1 0']
        ns = range(0, 3 * W + 71)
        if quick:
            ns = sorted(set([0, 1, 2, W - 1, W, W + 1, 2 * W - 1, 2 * W, 2 * W + 1, 63, 64, 65, 100, 128, 129, 3 * W + 70] + rng.sample(range(0, 3 * W + 71), 12)))
        for n in ns:
            for _ in range(2 if quick else 3):
                ww = rng.choice(WW)
                pre_r = rng.choice(['', 'rb %d' % rng.randrange(0, 65), 'rp %d' % rng.randrange(1, cap + 1),
                                    'rb %d ; rp %d' % (rng.randrange(0, 65), rng.randrange(1, cap + 1)),
                                    'rb %d ; rp %d' % (min(64, max(0, W - 4)), min(cap, 12)), 'rs %d ; rp %d' % (rng.randrange(0, W + 1), cap)])
                fill = rng.randrange(0, ww)
                pre_w = ' ; '.join(fill_to(rng, ww, fill))
                kind = rng.choice(['ct', 'cf', 'gc'])
                cont = rng.choice(tconts)
                nbytes = ((n + 300) // 8 + 16)
                pat = rng.choice(['rand', 'rand', 'ones', 'runs'])
                if 'rc ' in cont and 'strict=0' in cfg:
                    pat = 'ones'     # code reads on arbitrary zero-extended data may not return
                data = rand_bytes(rng, nbytes, pat)
                ops = [x for x in [pre_r, pre_w, '%s %d' % (kind, n), 'pos', cont, 'pos', 'wb x5 3', 'wf', 'wd'] if x]
                lines.append('S %s ww=%d copy=%d data=%s :: %s' % (cfg, ww, copy_flag, hexs(data), ' ; '.join(ops)))
    # directed: (a) the copy ends exactly on a word boundary of the source, then look-aheads that
    # refill twice; (b) the destination sits exactly on a word boundary with a stale buffer (after a
    # unary code or an odd field that filled the word) and the first copied bit is 0
    for cfg in cfgs:
        W = rw_of(cfg)
        cap = peek_cap(cfg)
        wordbits = 64 if is_bit(cfg) else W
        la = ['rp %d ; rb 1 ; rp %d ; rb %d ; rp %d ; rb 7 ; pos' % (cap, cap, wordbits - 1, cap)]
        if cap >= 16:
            la += ['rc gamma 1 0 ; rc gamma 1 0 ; rc gamma 1 0 ; rc gamma 1 0 ; rc gamma 1 0 ; rc gamma 1 0 ; pos',
                   'rc zeta3 1 0 ; rc zeta3 1 0 ; rc zeta3 1 0 ; rc delta 11 0 ; rc delta 11 0 ; pos']
        for k in ([0, 1, wordbits // 2, wordbits - 1] if quick else range(0, wordbits)):
            for j in (1, 2, 3):
                n = (wordbits - k) % wordbits + j * wordbits if k else j * wordbits
                for cont in la:
                    for kind in ('ct', 'gc'):
                        ww = rng.choice(WW)
                        data = rand_bytes(rng, (k + n) // 8 + 64, 'ones' if 'rc ' in cont else 'rand')
                        ops = [x for x in ['rb %d' % k if k else '', '%s %d' % (kind, n), 'pos', cont, 'wf', 'wd'] if x]
                        lines.append('S %s ww=%d copy=%d data=%s :: %s' % (cfg, ww, copy_flag, hexs(data), ' ; '.join(ops)))
                        if cont is la[0] and (k + n) % 8 == 0:
                            # the copy ends exactly at the end of the data: wholly inside it, so it succeeds
                            # on a strict backend as well (no word beyond the last one may be fetched)
                            exact = rand_bytes(rng, (k + n) // 8, 'rand')
                            ops = [x for x in ['rb %d' % k if k else '', '%s %d' % (kind, n), 'pos', 'wf', 'wd'] if x]
                            lines.append('S %s ww=%d copy=%d data=%s :: %s' % (cfg, ww, copy_flag, hexs(exact), ' ; '.join(ops)))
        for ww in WW:
            pres = ['wu %d' % (ww - 1), 'wb x1 1 ; wu %d' % (ww - 2), 'wu %d' % (2 * ww - 1)]
            if ww <= 64:
                pres += ['wb x%x %d' % (rng.getrandbits(ww) | 1, ww), 'wb x3 2 ; wb x%x %d' % (rng.getrandbits(ww - 2) | 1, ww - 2)]
            for pre in pres:
                for n in (1, ww, ww + 1, 2 * ww, 2 * ww + 3):
                    for kind in ('cf', 'gc'):
                        data = bytes([0] * 4) + rand_bytes(rng, n // 8 + 24, 'rand')
                        ops = [pre, '%s %d' % (kind, n), 'pos', 'wb x5 3', 'wf', 'wd']
                        lines.append('S %s ww=%d copy=%d data=%s :: %s' % (cfg, ww, copy_flag, hexs(data), ' ; '.join(ops)))
    return lines


# ---------------------------------------------------------------------------------------------
# C09 end of stream
# ---------------------------------------------------------------------------------------------

def gen_C09(rng, tier):
    quick = tier == 'quick'
    lines = []
    for cfg in reader_cfgs(quick):
        W = rw_of(cfg)
        wordbits = 64 if is_bit(cfg) else W
        le = 'e=le' in cfg
        cap = peek_cap(cfg)
        codes = ['gamma', 'delta', 'zeta3', 'omega', 'zeta', 'pi', 'rice', 'golomb', 'expg', 'minbin', 'vbbe', 'vble', 'unary']
        for _ in range(250 if quick else 6000):
            items = []
            bits = []
            for _ in range(rng.randrange(1, 10)):
                if rng.random() < 0.25:
                    n = rng.randrange(0, 65)
                    v = rng.getrandbits(n) if n else 0
                    items.append(('rb %d' % n, len(bits), n))
                    bits += field(le, v, n)
                else:
                    code = rng.choice(codes)
                    p = rng.choice(code_params(rng, code, True))
                    v = rand_value(rng, min(max_value(code, p), 1 << 40))
                    fl = rng.choice(flags_for(code))
                    if uses_table_read(code, fl) and cap < 16:
                        fl = {'gamma': '0', 'delta': '00', 'zeta3': '0'}[code]
                    cw = codeword(le, code, p, v)
                    items.append(('rc %s %s %d' % (code, fl, p), len(bits), len(cw)))
                    bits += cw
            # cut after every backend word
            total_words = (len(bits) + wordbits - 1) // wordbits
            cuts = range(0, total_words + 1)
            if quick:
                cuts = sorted(set([0, total_words, max(0, total_words - 1)] + [rng.randrange(0, total_words + 1)]))
            for cw_ in cuts:
                data = bits_to_bytes(le, (bits + [0] * (total_words * wordbits - len(bits)))[:cw_ * wordbits])
                ops = [it[0] for it in items] + ['pos']
                lines.append('S %s data=%s :: %s' % (cfg, hexs(data), ' ; '.join(ops)))
    # skips (and reads) that land exactly on the end of the data, from every distance: wholly inside
    # the data, so they succeed on a strict backend; one bit more must fail there
    for cfg in reader_cfgs(quick):
        W = rw_of(cfg)
        wordbits = 64 if is_bit(cfg) else W
        cap = peek_cap(cfg)
        for nwords in (1, 2, 3, 5):
            total = nwords * wordbits
            starts = sorted(set([0, 1, wordbits - 1, wordbits, wordbits + 1, total - wordbits, total - 1, total] +
                                [rng.randrange(0, total + 1) for _ in range(2 if quick else 12)]))
            for p in starts:
                if p < 0 or p > total:
                    continue
                data = rand_bytes(rng, total // 8, 'rand')
                pre = rng.choice(['rs %d' % p, 'rs %d ; rp %d' % (p, min(cap, max(1, min(total - p, cap)))) if p < total else 'rs %d' % p,
                                  'seek %d' % p])
                lines.append('S %s data=%s :: %s ; pos ; rs %d ; pos ; rs 0 ; pos ; rb 1 ; pos' % (cfg, hexs(data), pre, total - p))
                lines.append('S %s data=%s :: %s ; pos ; rs %d ; pos' % (cfg, hexs(data), pre, total - p + 1))
                if total - p <= 64:
                    lines.append('S %s data=%s :: %s ; rb %d ; pos ; rb 0 ; rs 0 ; pos' % (cfg, hexs(data), pre, total - p))
    return lines


# ---------------------------------------------------------------------------------------------
# C12 io views
# ---------------------------------------------------------------------------------------------

def gen_C12(rng, tier):
    quick = tier == 'quick'
    lines = []
    lens = list(range(0, 41))
    if quick:
        lens = sorted(set(list(range(0, 20)) + [23, 24, 25, 31, 32, 33, 40]))
    for e in ES:
        for ww in WW:
            offs = range(0, 2 * ww + 1)
            if quick:
                offs = sorted(set([0, 1, 7, 8, 9, ww - 1, ww, ww + 1, 2 * ww] + rng.sample(range(0, 2 * ww + 1), 3)))
            for off in offs:
                for ln in (lens if not quick else rng.sample(lens, 8)):
                    b = rand_bytes(rng, ln, 'rand')
                    pre = fill_to(rng, 1 << 30, off)
                    rcfg = rng.choice(reader_cfgs(True))
                    rcfg = ' '.join(t for t in rcfg.split() if not t.startswith('e='))
                    ops = pre + ['wio %s' % hexs(b), 'wb x1 1', 'wio %s' % hexs(rand_bytes(rng, rng.randrange(0, 12), 'rand')), 'wf', 'wd',
                                 'reopen', 'rs %d' % off, 'rio %d' % ln, 'pos', 'rb 1', 'rio %d' % rng.randrange(0, 12), 'pos']
                    lines.append('S e=%s %s ww=%d :: %s' % (e, rcfg, ww, ' ; '.join(ops)))
    # reader side on arbitrary data / offsets
    for cfg in reader_cfgs(quick):
        W = rw_of(cfg)
        offs = range(0, 2 * W + 1)
        if quick:
            offs = sorted(set([0, 1, 7, 8, 9, W, 2 * W] + rng.sample(range(0, 2 * W + 1), 3)))
        for off in offs:
            for ln in (lens if not quick else rng.sample(lens, 6)):
                data = rand_bytes(rng, (off + 8 * ln) // 8 + rng.choice([0, 1, 9, 17]))
                lines.append('S %s data=%s :: rs %d ; rio %d ; pos ; rb 5 ; rio 3 ; pos' % (cfg, hexs(data), off, ln))
                # the same after a look-ahead (the bit buffer then holds more than one word)
                k = rng.randrange(1, peek_cap(cfg) + 1)
                lines.append('S %s data=%s :: rs %d ; rp %d ; rio %d ; pos ; rp %d ; rio 9 ; pos'
                             % (cfg, hexs(data + rand_bytes(rng, 24, 'ones')), off, k, ln, rng.randrange(1, peek_cap(cfg) + 1)))
    return lines


# ---------------------------------------------------------------------------------------------
# C11 adapter under I/O faults
# ---------------------------------------------------------------------------------------------

def gen_C11(rng, tier):
    quick = tier == 'quick'
    lines = []
    for W in WW:
        B = W // 8
        # every per-call byte limit, Interrupted / hard error / Ok(0) at each call index up to 3 words
        limits = list(range(1, B + 1)) if (not quick or B <= 4) else sorted(set([1, 2, B // 2, B - 1, B]))
        for lim in limits:
            for nwords in (1, 2, 3):
                words = [rand_bytes(rng, B, 'rand') for _ in range(nwords)]
                ncalls = nwords * ((B + lim - 1) // lim) + 2
                base = ['a%d' % lim] * ncalls
                lines.append('AD write w=%d sched=%s :: %s' % (W, ','.join(base), ';'.join(hexs(w) for w in words)))
                data = b''.join(words)
                lines.append('AD read w=%d sched=%s data=%s :: %d' % (W, ','.join(base), hexs(data), nwords + 1))
                idxs = range(ncalls) if (not quick or ncalls <= 8) else sorted(set([0, 1, ncalls // 2, ncalls - 1]))
                for i in idxs:
                    for fault in ('i', 'f', 'z'):
                        sch = list(base)
                        sch.insert(i, fault)
                        lines.append('AD write w=%d sched=%s :: %s' % (W, ','.join(sch), ';'.join(hexs(w) for w in words)))
                        lines.append('AD read w=%d sched=%s data=%s :: %d' % (W, ','.join(sch), hexs(data), nwords + 1))
        # partial trailing word on read
        for extra in range(0, B):
            data = rand_bytes(rng, 2 * B + extra, 'rand')
            lines.append('AD read w=%d sched=- data=%s :: 4' % (W, hexs(data)))
            lines.append('AD read w=%d sched=a1,a1,a1 data=%s :: 4' % (W, hexs(data)))
        # word positions and seeks over a Cursor
        for _ in range(20 if quick else 300):
            n = rng.randrange(0, 6)
            data = rand_bytes(rng, n * B + rng.choice([0, 0, 1, B - 1]) % max(B, 1), 'rand')
            ops = []
            for _ in range(rng.randrange(1, 12)):
                ops.append(rng.choice(['rw', 'wp', 'sp %d' % rng.randrange(0, n + 2)]))
            ops.append('wp')
            lines.append('AD seek w=%d data=%s :: %s' % (W, hexs(data), ' ; '.join(ops)))
        # a read that fails inside a partial trailing word leaves the byte position unaligned;
        # seeking afterwards must still address whole words
        for n in range(0, 4):
            for extra in sorted(set([1, B // 2, B - 1]) - set([0])) if B > 1 else []:
                data = rand_bytes(rng, n * B + extra, 'rand')
                for k in range(0, n + 2):
                    ops = ['rw'] * (n + 1) + ['wp', 'sp %d' % k, 'wp', 'rw', 'wp', 'sp 0', 'rw', 'wp']
                    lines.append('AD seek w=%d data=%s :: %s' % (W, hexs(data), ' ; '.join(ops)))
        # word positions beyond 2^32 bytes / 2^32 words, up to the end of the u64 byte range
        # (storage-less source of the harness: byte i is a fixed function of i)
        top = (1 << 64) // B
        ks = [(1 << 31) // B, (1 << 32) // B - 1, (1 << 32) // B, (1 << 32) // B + 1, (1 << 32) - 1, 1 << 32, (1 << 32) + 1,
              1 << 40, (1 << 61) // B, (1 << 61) // B + 1, (1 << 63) // B, top // 2 + 5, top - 3, top - 2]
        ks += [rng.randrange(0, top - 2) for _ in range(4 if quick else 60)]
        for k in ks:
            if (k + 2) * B >= 1 << 64:
                continue
            ops = ['sp %d' % k, 'wp', 'rw', 'wp', 'rw', 'wp', 'sp %d' % (k // 2), 'wp', 'rw', 'wp', 'sp 0', 'wp', 'rw', 'wp']
            lines.append('AD vseek w=%d :: %s' % (W, ' ; '.join(ops)))
        # random schedules
        for _ in range(40 if quick else 1500):
            nwords = rng.randrange(1, 5)
            words = [rand_bytes(rng, B, 'rand') for _ in range(nwords)]
            sch = []
            for _ in range(rng.randrange(0, 4 * nwords + 3)):
                k = rng.random()
                sch.append('a%d' % rng.randrange(1, B + 2) if k < 0.75 else 'i' if k < 0.9 else 'f' if k < 0.95 else 'z')
            s = ','.join(sch) if sch else '-'
            lines.append('AD write w=%d sched=%s :: %s' % (W, s, ';'.join(hexs(w) for w in words)))
            lines.append('AD read w=%d sched=%s data=%s :: %d' % (W, s, hexs(b''.join(words)), nwords + 1))
    return lines


# ---------------------------------------------------------------------------------------------
# C13 in-memory word streams
# ---------------------------------------------------------------------------------------------

def gen_C13(rng, tier):
    quick = tier == 'quick'
    lines = []
    import itertools
    kinds = ['rz', 'rs', 'rzb', 'rsb', 'ws', 'wv']
    maxlen = 4 if quick else 5
    for kind in kinds:
        writer = kind in ('ws', 'wv')
        alpha = ['r', 'pos', 'seek 0', 'seek 1', 'seek 2', 'seek 3', 'seek 4', 'seek 7']
        if writer:
            alpha += ['w 7', 'w x%x' % rng.getrandbits(8), 'len']
        for size in range(0, 4):
            for L in range(1, maxlen + 1):
                seqs = itertools.product(alpha, repeat=L)
                if len(alpha) ** L > (3000 if quick else 200000):
                    seqs = [tuple(rng.choice(alpha) for _ in range(L)) for _ in range(3000 if quick else 60000)]
                for seq in seqs:
                    W = rng.choice(WW)
                    init = ','.join(str(rng.getrandbits(W) if rng.random() < 0.7 else 0) for _ in range(size)) or '-'
                    lines.append('MW kind=%s w=%d init=%s :: %s ; pos ; dump' % (kind, W, init, ' ; '.join(seq)))
    # long random sequences
    for _ in range(300 if quick else 8000):
        kind = rng.choice(kinds)
        writer = kind in ('ws', 'wv')
        W = rng.choice(WW)
        size = rng.randrange(0, 12)
        init = ','.join(str(rng.getrandbits(W)) for _ in range(size)) or '-'
        ops = []
        for _ in range(rng.randrange(5, 60)):
            k = rng.random()
            if k < 0.4:
                ops.append('r')
            elif k < 0.6 and writer:
                ops.append('w x%x' % rng.getrandbits(W))
            elif k < 0.8:
                ops.append('seek %d' % rng.randrange(0, size + 6))
            elif k < 0.9:
                ops.append('pos')
            elif writer:
                ops.append('len')
        ops += ['pos', 'dump']
        lines.append('MW kind=%s w=%d init=%s :: %s' % (kind, W, init, ' ; '.join(ops)))
    # positions far beyond the data (32-bit boundaries, 2^63): clamps / truncations in the seek arithmetic
    bigs = [(1 << 31) - 1, 1 << 31, (1 << 32) - 1, 1 << 32, (1 << 32) + 1, 1 << 40, (1 << 63) - 1, 1 << 63]
    for kind in kinds:
        for W in WW:
            for size in (0, 1, 3):
                init = ','.join(str(rng.getrandbits(W)) for _ in range(size)) or '-'
                for b in bigs:
                    ops = ['seek %d' % b, 'pos', 'r', 'pos', 'seek %d' % min(size, 1), 'pos', 'r', 'pos', 'seek 0', 'pos', 'dump']
                    lines.append('MW kind=%s w=%d init=%s :: %s' % (kind, W, init, ' ; '.join(ops)))
    return lines


# ---------------------------------------------------------------------------------------------
# C14 counting / tracing wrappers
# ---------------------------------------------------------------------------------------------

def gen_C14(rng, tier):
    quick = tier == 'quick'
    lines = []
    n = 1500 if quick else 40000
    rcfgs = [c for c in reader_cfgs(quick) if 'rb=adapter' not in c]      # wrappers are exercised over memory backends
    for i in range(n):
        cfg = rng.choice(rcfgs)
        wrap = 'count' if rng.random() < 0.8 else 'dbg'
        if wrap == 'dbg':
            cfg = cfg.replace('strict=0', 'strict=1')
        ww = rng.choice(WW)
        cap = peek_cap(cfg)
        items = []
        for _ in range(rng.randrange(1, 12)):
            k = rng.random()
            if k < 0.2:
                nb = rng.randrange(0, 65)
                items.append(('raw', nb, rng.getrandbits(nb) if nb else 0))
            elif k < 0.3:
                items.append(('un', rng.randrange(0, 40)))
            else:
                code = rng.choice(ALL_CODES)
                p = rng.choice(code_params(rng, code, True))
                v = rand_value(rng, min(max_value(code, p), 1 << 40))
                items.append((code, rng.choice(flags_for(code)), p, v))
        w, r = [], []
        for it in items:
            if it[0] == 'raw':
                w.append('wb x%x %d' % (it[2], it[1]))
                r.append(rng.choice(['rb %d' % it[1], 'rs %d' % it[1]]))
            elif it[0] == 'un':
                w.append('wu %d' % it[1])
                r.append('ru')
            else:
                code, fl, p, v = it
                rfl = rng.choice(flags_for(code))
                if uses_table_read(code, rfl) and cap < 16:
                    rfl = {'gamma': '0', 'delta': '00', 'zeta3': '0'}[code]
                w.append('wc %s %s %d %d' % (code, fl, p, v))
                r.append('rc %s %s %d' % (code, rfl, p))
            if rng.random() < 0.3:
                w.append('stat')
            if rng.random() < 0.3:
                r.append('stat')
        tail = []
        if wrap == 'count' and rng.random() < 0.5:
            tail = ['reopen', rng.choice(['ct', 'cf', 'gc']) + ' %d' % rng.randrange(0, 100), 'stat', 'rp %d' % rng.randrange(1, cap + 1), 'rsp 1', 'stat']
        again = []
        if wrap == 'count' and rng.random() < 0.4:
            # a seek consumes nothing: rewind and read the same items again
            k = rng.randrange(0, len(r) + 1)
            again = ['seek 0', 'stat'] + r[:k] + ['stat', 'pos']
        ops = w + ['stat', 'wf', 'stat', 'wd', 'reopen'] + r + ['stat'] + (['pos'] if wrap == 'count' else []) + again + tail
        lines.append('S %s ww=%d wrap=%s :: %s' % (cfg, ww, wrap, ' ; '.join(ops)))
    return lines


# ---------------------------------------------------------------------------------------------
# C17 zig-zag
# ---------------------------------------------------------------------------------------------

def gen_C17(rng, tier):
    quick = tier == 'quick'
    lines = []
    for u in range(256):
        lines.append('Z 8 toint %d' % u)
        lines.append('Z 8 tonat %d' % (u - 128))
    step16 = 1 if not quick else 7
    for u in range(0, 65536, step16):
        lines.append('Z 16 toint %d' % u)
        lines.append('Z 16 tonat %d' % (u - 32768))
    for bits in (32, 64, 128):
        lo, hi = -(1 << (bits - 1)), (1 << (bits - 1)) - 1
        pts = set()
        near = 64 if quick else 1 << 12
        for d in range(near):
            for b in (0, lo, hi):
                for sgn in (1, -1):
                    x = b + sgn * d
                    if lo <= x <= hi:
                        pts.add(x)
        for i in range(bits):
            for d in (-2, -1, 0, 1, 2):
                for sgn in (1, -1):
                    x = sgn * (1 << i) + d
                    if lo <= x <= hi:
                        pts.add(x)
        for _ in range(200 if quick else 20000):
            pts.add(rng.randrange(lo, hi + 1))
        for x in sorted(pts):
            lines.append('Z %d tonat %d' % (bits, x))
            lines.append('Z %d toint %d' % (bits, x - lo))
            if bits == 64:
                lines.append('Z size tonat %d' % x)
                lines.append('Z size toint %d' % (x - lo))
    # 32-bit: exhaustive in-process sweep in the thorough tier, sampled blocks in quick
    if quick:
        for _ in range(16):
            lines.append('Z sweep32 %d %d' % (rng.randrange(0, (1 << 32) - (1 << 20)), 1 << 20))
        lines.append('Z sweep32 0 1048576')
        lines.append('Z sweep32 %d 1048576' % ((1 << 32) - (1 << 20)))
    else:
        for s in range(0, 1 << 32, 1 << 26):
            lines.append('Z sweep32 %d %d' % (s, 1 << 26))
    return lines


# ---------------------------------------------------------------------------------------------
# C18 byte-level VByte
# ---------------------------------------------------------------------------------------------

def gen_C18(rng, tier):
    quick = tier == 'quick'
    lines = []
    vals = set(range(0, 1 << 21, 1 if not quick else 257))
    off = 0
    for k in range(1, 11):
        off += 1 << (7 * k)
        for d in (-2, -1, 0, 1, 2):
            if 0 <= off + d <= U64:
                vals.add(off + d)
    vals |= {U64, U64 - 1, 0, 127, 128}
    # values whose partially encoded remainder has 32 or more trailing zero bits (a continuation
    # test on a narrowed remainder stops early exactly there), every power of two and neighbours
    for i in range(0, 64):
        vals |= {1 << i, (1 << i) - 1, (1 << i) + 1, (1 << i) + 127, (1 << i) + 128}
    for _ in range(40 if quick else 2000):
        k = rng.randrange(1, 5)
        hi = rng.randrange(1, 1 << rng.randrange(1, 64 - 32 - 7 * k + 1)) << 32
        vals.add(min(U64, (hi << (7 * k)) + rng.randrange(0, 1 << (7 * k))))
    for _ in range(300 if quick else 20000):
        vals.add(rng.randrange(0, 1 << rng.randrange(1, 65)))
    from pycodes import vbyte_bytes
    for v in sorted(vals):
        lines.append('VB wbe %d' % v)
        lines.append('VB wle %d' % v)
        lines.append('VB len %d' % v)
        if rng.random() < (0.2 if quick else 1.0):
            lines.append('VB wgen be %d' % v)
            lines.append('VB wgen le %d' % v)
            for big, e in ((True, 'be'), (False, 'le')):
                b = bytes(vbyte_bytes(big, v))
                tail = rand_bytes(rng, rng.randrange(0, 3), 'rand')
                lines.append('VB r%s %s' % (e, hexs(b + tail)))
                lines.append('VB rgen %s %s' % (e, hexs(b)))
                if len(b) > 1:
                    lines.append('VB r%s %s' % (e, hexs(b[:-1])))        # truncated inside the codeword
            # the bit-stream traits write the same bytes at aligned positions
            E = rng.choice(ES)
            lines.append('S e=%s ww=%d :: wc vbbe - 0 %d ; wc vble - 0 %d ; wf ; wd' % (E, rng.choice(WW), v, v))
            # ... and the bit-stream readers decode them (both variants, any reader)
            rc = rng.choice(reader_cfgs(True))
            off = rng.choice([0, 0, 8, 3])
            lines.append('S %s ww=%d :: wb x0 %d ; wc vbbe - 0 %d ; wc vble - 0 %d ; wc vbbe - 0 %d ; wf ; reopen ; rs %d ; rc vbbe - 0 ; rc vble - 0 ; rc vbbe - 0 ; pos'
                         % (rc, rng.choice(WW), off, v, v, v // 3, off))
    # completeness: every terminated string of length <= 3 (thorough; sampled in quick)
    def strings(L):
        import itertools
        for body in itertools.product(range(128, 256), repeat=L - 1):
            for last in range(128):
                yield bytes(body) + bytes([last])
    for L in (1, 2, 3):
        allS = strings(L)
        if L == 3 or (quick and L == 2):
            cnt = 2000 if quick else 2 ** 21
            if not quick:
                for s in allS:
                    lines.append('VB rt %s %s' % (rng.choice(['be', 'le']), hexs(s)))
            else:
                for _ in range(cnt):
                    s = bytes([rng.randrange(128, 256) for _ in range(L - 1)] + [rng.randrange(128)])
                    lines.append('VB rt %s %s' % (rng.choice(['be', 'le']), hexs(s)))
        else:
            for s in allS:
                lines.append('VB rt be %s' % hexs(s))
                lines.append('VB rt le %s' % hexs(s))
    for _ in range(300 if quick else 20000):
        L = rng.randrange(4, 10)
        s = bytes([rng.randrange(128, 256) for _ in range(L - 1)] + [rng.randrange(128)])
        lines.append('VB rt %s %s' % (rng.choice(['be', 'le']), hexs(s)))
    return lines
