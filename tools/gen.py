"""Scenario generators (one PRNG state per run: VERIF_SEED). Structure-aware and mostly valid;
small state spaces are enumerated. Every generator returns request lines of the line protocol."""
import random
from pycodes import codeword, bits_to_bytes, hexs, field, unary

WW = [8, 16, 32, 64, 128]
RW = [8, 16, 32, 64]
ES = ['be', 'le']
U64 = (1 << 64) - 1


def value_grid(rng, quick=True, maxv=U64 - 1):
    vals = set(range(0, 40 if quick else 300))
    for i in range(65):
        for d in (-1, 0, 1):
            v = (1 << i) + d
            if 0 <= v <= maxv:
                vals.add(v)
    vals.add(maxv)
    vals.add(max(0, maxv - 1))
    for _ in range(20 if quick else 100):
        vals.add(rng.randrange(0, maxv + 1))
        vals.add(rng.randrange(0, min(maxv + 1, 1 << rng.randrange(1, 65))))
    return sorted(v for v in vals if v <= maxv)


def rand_value(rng, maxv=U64 - 1):
    k = rng.random()
    if k < 0.3:
        return rng.randrange(0, min(300, maxv + 1))
    if k < 0.6:
        i = rng.randrange(0, 65)
        return max(0, min(maxv, (1 << i) + rng.choice((-1, 0, 1))))
    if k < 0.65:
        return maxv
    return rng.randrange(0, min(maxv + 1, 1 << rng.randrange(1, 65)))


# code descriptors: name -> (param chooser, value bound given param, flag options)
def code_params(rng, code, quick=True):
    if code == 'zeta':
        ks = list(range(1, 64)) if not quick else [1, 2, 3, 4, 5, 7, 8, 13, 16, 21, 31, 32, 33, 62, 63]
        return ks
    if code in ('pi', 'rice', 'expg'):
        return list(range(0, 64)) if not quick else [0, 1, 2, 3, 5, 8, 13, 31, 32, 62, 63]
    if code == 'golomb':
        bs = list(range(1, 71)) if not quick else [1, 2, 3, 4, 5, 6, 7, 8, 9, 15, 16, 17, 64, 70]
        bs += [1 << 32, (1 << 32) + 1, (1 << 63) - 1, 1 << 63, (1 << 63) + 1, U64 - 1, U64, rng.randrange(1, 1 << 64)]
        return bs
    if code == 'minbin':
        us = list(range(1, 40)) + [1 << 32, (1 << 63) - 1, 1 << 63, (1 << 63) + 1, U64, rng.randrange(1, 1 << 64),
                                   rng.randrange(1, 1 << 20)]
        return us
    return [0]


def max_value(code, p):
    """largest value of the domain, keeping unary parts short enough to run"""
    if code == 'unary':
        return 3000
    if code in ('gamma', 'delta', 'omega', 'zeta', 'zeta3', 'pi'):
        return U64 - 1
    if code == 'rice':
        return min(U64, (2000 << p) - 1)
    if code == 'golomb':
        return min(U64, 2000 * p - 1)
    if code == 'expg':
        return U64 - 1 if p == 0 else U64
    if code == 'minbin':
        return p - 1
    return U64


FLAGS = {'gamma': ['0', '1', 'd'], 'delta': ['00', '01', '10', '11', 'd'], 'zeta3': ['0', '1', 'd'],
         'zeta': ['d', '0', '1']}
ALL_CODES = ['unary', 'gamma', 'delta', 'omega', 'zeta', 'zeta3', 'pi', 'rice', 'golomb', 'expg', 'minbin', 'vbbe', 'vble']


def flags_for(code):
    return FLAGS.get(code, ['-'])


def uses_table_read(code, flags):
    """does reading this code with these flags look ahead through a table (needs peek capacity)?"""
    if code == 'gamma':
        return flags == '1'
    if code == 'delta':
        return flags in ('01', '10', '11', 'd')
    if code == 'zeta3':
        return flags in ('1', 'd')
    return False


def reader_cfgs(quick=True):
    out = []
    for e in ES:
        for strict in (0, 1):
            for rw in RW:
                out.append('e=%s rw=%d rk=buf strict=%d' % (e, rw, strict))
            out.append('e=%s rw=64 rk=bit strict=%d' % (e, strict))
    return out


def rw_of(cfg):
    for t in cfg.split():
        if t.startswith('rw='):
            return int(t[3:])
    return 32


def is_bit(cfg):
    return 'rk=bit' in cfg


def peek_cap(cfg):
    return 32 if is_bit(cfg) else rw_of(cfg)


def rand_bytes(rng, n, pattern=None):
    pattern = pattern or rng.choice(['rand', 'rand', 'rand', 'ones', 'zeros', 'sparse', 'runs'])
    if pattern == 'rand':
        return bytes(rng.randrange(256) for _ in range(n))
    if pattern == 'ones':
        return bytes([255] * n)
    if pattern == 'zeros':
        return bytes([0] * n)
    if pattern == 'sparse':
        return bytes((1 << rng.randrange(8)) if rng.random() < 0.15 else 0 for _ in range(n))
    # long zero runs with occasional dense bytes
    out = bytearray()
    while len(out) < n:
        out += bytes([0] * rng.randrange(1, 20))
        out.append(rng.randrange(256))
    return bytes(out[:n])


def dirty(rng, v, n):
    """add garbage above bit n (the library must ignore it)"""
    if n >= 64:
        return v & U64
    return ((rng.getrandbits(64) << n) | (v & ((1 << n) - 1))) & U64


# ---------------------------------------------------------------------------------------------
# C01 writer
# ---------------------------------------------------------------------------------------------

def fill_to(rng, W, used):
    """ops that leave exactly `used` bits in the buffer of an empty writer"""
    ops = []
    while used > 0:
        k = min(used, 64)
        ops.append('wb x%x %d' % (rng.getrandbits(k) if k else 0, k))
        used -= k
    return ops


def gen_C01(rng, tier):
    quick = tier == 'quick'
    lines = []
    for e in ES:
        for W in WW:
            spaces = range(1, W + 1)
            if quick and W >= 64:
                spaces = sorted(set([1, 2, 3, W // 2 - 1, W // 2, W // 2 + 1, W - 2, W - 1, W] + rng.sample(range(1, W + 1), 6)))
            for space in spaces:
                pre = fill_to(rng, W, W - space)
                nexts = []
                ns = range(0, 65)
                if quick and W >= 32:
                    ns = sorted(set([0, 1, 2, 7, 8, 9, 31, 32, 33, 63, 64, space - 1, space, space + 1] + rng.sample(range(0, 65), 5)))
                for n in ns:
                    if 0 <= n <= 64:
                        nexts.append('wb x%x %d' % (dirty(rng, rng.getrandbits(64), n), n))
                xs = range(0, 3 * W + 2)
                if quick and W >= 32:
                    xs = sorted(set([0, 1, space - 2, space - 1, space, space + 1, W - 1, W, W + 1, space + W - 2, space + W - 1, space + W,
                                     space + 2 * W - 1, space + 2 * W, 3 * W + 1] + rng.sample(range(0, 3 * W + 2), 4)))
                for x in xs:
                    if x >= 0:
                        nexts.append('wu %d' % x)
                nexts.append('wf')
                for nx in nexts:
                    ops = pre + [nx, 'wd', 'wb x%x %d' % (rng.getrandbits(64), rng.randrange(0, 65)), 'wf', 'wd', 'wf', 'wd']
                    lines.append('S e=%s ww=%d :: %s' % (e, W, ' ; '.join(ops)))
    # random histories
    nh = 1500 if quick else 40000
    for _ in range(nh):
        e = rng.choice(ES)
        W = rng.choice(WW)
        cap = ''
        if rng.random() < 0.2:
            cap = ' cap=%d' % rng.randrange(0, 6)
        ops = []
        for _ in range(rng.randrange(1, 60)):
            k = rng.random()
            if k < 0.5:
                n = rng.choice([rng.randrange(0, 65), rng.randrange(0, 65), 64, 0, 1, W % 65, (W - 1) % 65])
                ops.append('wb x%x %d' % (dirty(rng, rng.getrandbits(64), n), n))
            elif k < 0.8:
                x = rng.choice([rng.randrange(0, 10), rng.randrange(0, 3 * W + 2), W - 1, W, 2 * W - 1])
                ops.append('wu %d' % x)
            elif k < 0.9:
                ops.append('wf')
            else:
                ops.append('wd')
        ops += ['wd', 'wf', 'wd', 'wf']
        lines.append('S e=%s ww=%d%s :: %s' % (e, W, cap, ' ; '.join(ops)))
    return lines


# ---------------------------------------------------------------------------------------------
# C02 reader
# ---------------------------------------------------------------------------------------------

def reader_ops_alphabet(rng, cfg, quick):
    W = rw_of(cfg)
    cap = peek_cap(cfg)
    ns = sorted(set([0, 1, 2, 7, 8, 9, W - 1, W, W + 1, 2 * W - 1, 2 * W, 2 * W + 1, 63, 64] + [rng.randrange(0, 65) for _ in range(3)]))
    ns = [n for n in ns if 0 <= n <= 64]
    if not quick and W <= 16:
        ns = list(range(0, 65))
    ops = ['rb %d' % n for n in ns]
    ops += ['rs %d' % n for n in ns + [100, 3 * W + 5]]
    ps = sorted(set([1, 2, cap // 2, cap - 1, cap] + [rng.randrange(1, cap + 1) for _ in range(2)]))
    if not quick and W <= 16:
        ps = list(range(1, cap + 1))
    ops += ['rp %d' % p for p in ps if 1 <= p <= cap]
    ops += ['ru', 'clone ; swap', 'pos']
    return ops


def gen_C02(rng, tier):
    quick = tier == 'quick'
    lines = []
    for cfg in reader_cfgs(quick):
        W = rw_of(cfg)
        alpha = reader_ops_alphabet(rng, cfg, quick)
        depth2 = (W <= 16) or not quick
        for a in alpha:
            seconds = alpha if depth2 else rng.sample(alpha, min(len(alpha), 12))
            for b in seconds:
                data = rand_bytes(rng, rng.choice([8, 16, 24, 40]))
                tail = ['rb 13', 'pos', 'rp %d' % min(7, peek_cap(cfg)), 'rb 64', 'pos']
                lines.append('S %s data=%s :: %s' % (cfg, hexs(data), ' ; '.join([a, 'pos', b, 'pos'] + tail)))
    nh = 2500 if quick else 60000
    cfgs = reader_cfgs(quick)
    for _ in range(nh):
        cfg = rng.choice(cfgs)
        cap = peek_cap(cfg)
        W = rw_of(cfg)
        data = rand_bytes(rng, rng.choice([0, 1, 8, 16, 33, 64, 120]))
        ops = []
        for _ in range(rng.randrange(1, 40)):
            k = rng.random()
            if k < 0.35:
                ops.append('rb %d' % rng.choice([rng.randrange(0, 65), 64, W % 65, 1]))
            elif k < 0.5:
                ops.append('rs %d' % rng.choice([rng.randrange(0, 65), rng.randrange(0, 200)]))
            elif k < 0.7:
                p = rng.randrange(1, cap + 1)
                ops.append('rp %d' % p)
                if rng.random() < 0.5:
                    ops.append('rsp %d' % rng.randrange(0, p + 1))
            elif k < 0.85:
                ops.append('ru')
            elif k < 0.9:
                ops.append('clone')
            elif k < 0.95:
                ops.append('swap')
            else:
                ops.append('pos')
        ops.append('pos')
        lines.append('S %s data=%s :: %s' % (cfg, hexs(data), ' ; '.join(ops)))
    return lines


# ---------------------------------------------------------------------------------------------
# codes: C03 / C04 / C06
# ---------------------------------------------------------------------------------------------

def code_cases(rng, quick, codes=ALL_CODES):
    """(code, flags, param, value)"""
    out = []
    for code in codes:
        for p in code_params(rng, code, quick):
            mv = max_value(code, p)
            if mv < 0:
                continue
            grid = value_grid(rng, quick, mv)
            if quick and len(grid) > 60:
                keep = set(grid[:25]) | set(grid[-4:]) | set(rng.sample(grid, 30))
                grid = sorted(keep)
            for v in grid:
                for fl in flags_for(code):
                    out.append((code, fl, p, v))
    return out


def gen_C03(rng, tier):
    """write at an offset, read back on every reader kind; concatenations decode unambiguously"""
    quick = tier == 'quick'
    lines = []
    cases = code_cases(rng, quick)
    rcfgs = reader_cfgs(quick)
    if quick:
        cases = rng.sample(cases, min(len(cases), 6000))
    for (code, fl, p, v) in cases:
        for _ in range(1 if quick else 3):
            cfg = rng.choice(rcfgs)
            ww = rng.choice(WW)
            W = rw_of(cfg)
            off = rng.randrange(0, 2 * W + 2)
            rfl = fl
            if uses_table_read(code, fl) and peek_cap(cfg) < 16:
                rfl = {'gamma': '0', 'delta': '00', 'zeta3': '0'}[code]
            sent = rng.getrandbits(17)
            pre = fill_to(rng, 1 << 30, off)
            ops = pre + ['wc %s %s %d %d' % (code, fl, p, v), 'wb x%x 17' % sent, 'wf', 'reopen', 'rs %d' % off,
                         'rc %s %s %d' % (code, rfl, p), 'pos', 'rb 17', 'pos']
            lines.append('S %s ww=%d :: %s' % (cfg, ww, ' ; '.join(ops)))
    # mixed concatenations
    nm = 800 if quick else 20000
    for _ in range(nm):
        cfg = rng.choice(rcfgs)
        ww = rng.choice(WW)
        items = []
        for _ in range(rng.randrange(2, 14)):
            if rng.random() < 0.2:
                n = rng.randrange(0, 65)
                items.append(('raw', n, rng.getrandbits(n) if n else 0))
            else:
                code = rng.choice(ALL_CODES)
                p = rng.choice(code_params(rng, code, True))
                mv = max_value(code, p)
                v = rand_value(rng, mv)
                fl = rng.choice(flags_for(code))
                items.append((code, fl, p, v))
        w, r = [], []
        for it in items:
            if it[0] == 'raw':
                w.append('wb x%x %d' % (it[2], it[1]))
                r.append('rb %d' % it[1])
            else:
                code, fl, p, v = it
                rfl = fl
                if uses_table_read(code, fl) and peek_cap(cfg) < 16:
                    rfl = {'gamma': '0', 'delta': '00', 'zeta3': '0'}[code]
                w.append('wc %s %s %d %d' % (code, fl, p, v))
                r.append('rc %s %s %d' % (code, rfl, p))
        lines.append('S %s ww=%d :: %s' % (cfg, ww, ' ; '.join(w + ['wf', 'reopen'] + r + ['pos'])))
    return lines


def gen_C04(rng, tier):
    """bytes of [sentinel, codeword, sentinel] against the published definition (the reference
    writes Dsi.Spec codewords)"""
    quick = tier == 'quick'
    lines = []
    cases = code_cases(rng, quick)
    if quick:
        cases = rng.sample(cases, min(len(cases), 8000))
    for (code, fl, p, v) in cases:
        e = rng.choice(ES)
        ww = rng.choice(WW)
        off = rng.randrange(0, 20)
        ops = ['wb x%x %d' % (rng.getrandbits(off) if off else 0, off), 'wc %s %s %d %d' % (code, fl, p, v),
               'wb x%x 9' % rng.getrandbits(9), 'wf', 'wd']
        lines.append('S e=%s ww=%d :: %s' % (e, ww, ' ; '.join(ops)))
    # every value below 2^16 (2^12 in quick) for the parameterless codes and small parameters, packed many per line
    top = 1 << 12 if quick else 1 << 16
    packs = [('gamma', '0', 0), ('gamma', '1', 0), ('delta', '00', 0), ('delta', '11', 0), ('zeta3', '0', 0), ('zeta3', '1', 0),
             ('omega', '-', 0), ('zeta', 'd', 2), ('zeta', 'd', 5), ('pi', '-', 0), ('pi', '-', 2), ('pi', '-', 3), ('rice', '-', 4),
             ('golomb', '-', 5), ('golomb', '-', 12), ('expg', '-', 0), ('expg', '-', 3), ('minbin', '-', top), ('minbin', '-', top - 1 if top > 1 else 1),
             ('vbbe', '-', 0), ('vble', '-', 0)]
    for (code, fl, p) in packs:
        for e in ES:
            ww = rng.choice(WW)
            hi = top if code != 'minbin' else p
            hi = min(hi, 1 << 10) if code in ('rice', 'golomb') else hi
            for start in range(0, hi, 64):
                ops = ['wc %s %s %d %d' % (code, fl, p, v) for v in range(start, min(start + 64, hi))]
                lines.append('S e=%s ww=%d :: %s' % (e, ww, ' ; '.join(ops + ['wf', 'wd'])))
    return lines


# ---------------------------------------------------------------------------------------------
# C05 tables
# ---------------------------------------------------------------------------------------------

TABLE_BITS = {'gamma': 9, 'delta': 11, 'zeta3': 12}


def gen_C05(rng, tier, diag=None):
    """every index of every decoding table at every alignment, table vs non-table on clones;
    values around the encoding-table boundary. `diag[cfgkey]` = set of table names for which the
    reader's construction printed the diagnostic (those tables are excluded for that reader)."""
    quick = tier == 'quick'
    lines = []
    diag = diag or {}
    rcfgs = reader_cfgs(quick)
    for cfg in rcfgs:
        W = rw_of(cfg)
        e = 'le' if 'e=le' in cfg else 'be'
        le = e == 'le'
        key = ('bit' if is_bit(cfg) else 'buf%d' % W)
        flagged = diag.get(key, set())
        for code, rb in TABLE_BITS.items():
            if code in flagged:
                continue
            if code == 'delta' and 'gamma' in flagged:
                flagsets = [('10', '00')]
            elif code == 'delta':
                flagsets = [('10', '00'), ('11', '00'), ('01', '00'), ('d', '00')]
            else:
                flagsets = [('1', '0'), ('d', '0')]
            idxs = range(1 << rb)
            aligns = range(W) if (not quick or W <= 8) else sorted(set([0, 1, W // 2, W - 1] + [rng.randrange(W) for _ in range(2)]))
            if quick:
                idxs = sorted(set(rng.sample(range(1 << rb), 96)) | set(range(0, 16)) | set((1 << i) for i in range(rb)) | {(1 << rb) - 1})
            for idx in idxs:
                for al in (aligns if not quick else rng.sample(list(aligns), min(2, len(list(aligns))))):
                    pre = [rng.getrandbits(1) for _ in range(al)]
                    body = field(le, idx, rb)
                    tail = [rng.getrandbits(1) for _ in range(rng.randrange(0, 80))] + [1]
                    strict = 'strict=1' in cfg
                    bits = pre + body + tail
                    data = bits_to_bytes(le, bits)
                    tf, nf = rng.choice(flagsets)
                    ops = ['rs %d' % al, 'clone', 'rc %s %s 0' % (code, tf), 'pos', 'swap', 'rc %s %s 0' % (code, nf), 'pos']
                    lines.append('S %s data=%s :: %s' % (cfg, hexs(data), ' ; '.join(ops)))
    # strict streams whose last code ends in the last word (fewer than READ_BITS bits remain)
    for cfg in rcfgs:
        if 'strict=1' not in cfg:
            continue
        W = rw_of(cfg)
        le = 'e=le' in cfg
        key = ('bit' if is_bit(cfg) else 'buf%d' % W)
        flagged = diag.get(key, set())
        for code in TABLE_BITS:
            if code in flagged or (code == 'delta' and 'gamma' in flagged):
                continue
            for _ in range(40 if quick else 600):
                vals = [rng.choice([0, 1, 2, 3, 5, 10, 30, 100, 1000]) for _ in range(rng.randrange(1, 12))]
                bits = []
                for v in vals:
                    bits += codeword(le, code, 0, v)
                wordbits = 64 if is_bit(cfg) else W
                padn = (-len(bits)) % wordbits
                # leading padding so that the last codeword ends exactly at the end of the last word
                bits = [0] * padn + bits
                data = bits_to_bytes(le, bits)
                tf = {'gamma': '1', 'delta': rng.choice(['11', '10', 'd']), 'zeta3': rng.choice(['1', 'd'])}[code]
                ops = ['rs %d' % padn] + ['rc %s %s 0' % (code, tf) for _ in vals] + ['pos']
                lines.append('S %s data=%s :: %s' % (cfg, hexs(data), ' ; '.join(ops)))
    # encoding tables and length tables around the boundary: bits with tables on == off
    for code, wmax in (('gamma', 63), ('delta', 1023), ('zeta3', 1023)):
        vs = list(range(0, 12)) + list(range(wmax - 3, wmax + 4))
        if not quick:
            vs = list(range(0, wmax + 5))
        for e in ES:
            for v in vs:
                fls = flags_for(code)
                ops = []
                for fl in fls:
                    ops.append('wc %s %s 0 %d' % (code, fl, v))
                lines.append('S e=%s ww=%d :: %s' % (e, rng.choice(WW), ' ; '.join(ops + ['wf', 'wd'])))
    return lines


# ---------------------------------------------------------------------------------------------
# C07 positions / seeks
# ---------------------------------------------------------------------------------------------

def gen_C07(rng, tier):
    quick = tier == 'quick'
    lines = []
    for cfg in reader_cfgs(quick):
        W = rw_of(cfg)
        wordbits = 64 if is_bit(cfg) else W
        le = 'e=le' in cfg
        nwords = rng.choice([2, 3, 4])
        nbytes = nwords * wordbits // 8
        total = nbytes * 8
        alpha = ['rb 0', 'rb 1', 'rb %d' % min(64, W - 1), 'rb %d' % min(64, W), 'rb %d' % min(64, W + 1), 'rb 64', 'rs 3', 'rs %d' % (W + 3),
                 'rp %d' % min(5, peek_cap(cfg)), 'rp %d' % peek_cap(cfg), 'ru', 'rio 3', 'rio 9', 'rc gamma 0 0', 'rc delta 00 0',
                 'rc zeta3 0 0', 'rc omega - 0', 'rc vbbe - 0', 'rc minbin - 11']
        if peek_cap(cfg) >= 16:
            alpha += ['rc gamma 1 0', 'rc delta 11 0', 'rc zeta3 1 0', 'rc gamma d 0', 'rc delta d 0', 'rc zeta3 d 0']
        if 'strict=0' in cfg:
            # on arbitrary data a code read may ask for an astronomically long field; a strict backend
            # ends that at once with an error, a zero-extended one would spin for hours
            alpha = [a for a in alpha if not a.startswith('rc ') or a.startswith('rc vbbe') or a.startswith('rc minbin') or a.startswith('rc omega')]
        ps = range(0, total + 1)
        if quick and total > 64:
            ps = sorted(set(list(range(0, 20)) + [W - 1, W, W + 1, 2 * W - 1, 2 * W, total - 1, total] + rng.sample(range(0, total + 1), 10)))
        for p in ps:
            for op in (alpha if not quick else rng.sample(alpha, 6)):
                data = rand_bytes(rng, nbytes, rng.choice(['rand', 'rand', 'sparse']))
                pre = rng.choice(['', 'rb 5 ; ', 'rp %d ; ' % min(3, peek_cap(cfg)), 'ru ; ', 'rs 70 ; '])
                ops = pre + 'seek %d ; pos ; %s ; pos ; rb 7 ; pos' % (p, op)
                lines.append('S %s data=%s :: %s' % (cfg, hexs(data), ops))
    # random histories with seeks
    nh = 1500 if quick else 40000
    cfgs = reader_cfgs(quick)
    for _ in range(nh):
        cfg = rng.choice(cfgs)
        W = rw_of(cfg)
        wordbits = 64 if is_bit(cfg) else W
        nbytes = rng.choice([1, 2, 3, 5]) * wordbits // 8
        total = nbytes * 8
        data = rand_bytes(rng, nbytes)
        ops = []
        for _ in range(rng.randrange(2, 30)):
            k = rng.random()
            if k < 0.25:
                ops.append('seek %d' % rng.randrange(0, total + 1))
            elif k < 0.5:
                ops.append('rb %d' % rng.randrange(0, 65))
            elif k < 0.6:
                ops.append('rp %d' % rng.randrange(1, peek_cap(cfg) + 1))
            elif k < 0.7:
                ops.append('rs %d' % rng.randrange(0, 80))
            elif k < 0.8:
                ops.append('ru')
            elif k < 0.85:
                ops.append('rio %d' % rng.randrange(0, 12))
            elif k < 0.9 and 'strict=1' in cfg:
                ops.append(rng.choice(['rc gamma 0 0', 'rc delta 00 0', 'rc omega - 0', 'rc zeta3 0 0']))
            ops.append('pos')
        lines.append('S %s data=%s :: %s' % (cfg, hexs(data), ' ; '.join(ops)))
    return lines


# ---------------------------------------------------------------------------------------------
# C08 copy
# ---------------------------------------------------------------------------------------------

def gen_C08(rng, tier, copy_flag=1):
    quick = tier == 'quick'
    lines = []
    cfgs = reader_cfgs(quick)
    conts = ['rb 11 ; pos', 'rp 5 ; rb 3', 'ru', 'rc gamma 0 0', 'ct 7 ; rb 9', 'cf 70 ; rb 5', 'rb 64 ; rb 64', 'rs 9 ; rb 20']
    for cfg in cfgs:
        W = rw_of(cfg)
        cap = peek_cap(cfg)
        tconts = list(conts)
        if cap >= 16:
            tconts += ['rc gamma 1 0 ; rc gamma 1 0 ; rc gamma 1 0 ; rc gamma 1 0', 'rc delta 11 0 ; rc delta 11 0', 'rc zeta3 1 0 ; rc zeta3 1 0']
        ns = range(0, 3 * W + 71)
        if quick:
            ns = sorted(set([0, 1, 2, W - 1, W, W + 1, 2 * W - 1, 2 * W, 2 * W + 1, 63, 64, 65, 100, 128, 129, 3 * W + 70] + rng.sample(range(0, 3 * W + 71), 12)))
        for n in ns:
            for _ in range(2 if quick else 3):
                ww = rng.choice(WW)
                pre_r = rng.choice(['', 'rb %d' % rng.randrange(0, 65), 'rp %d' % rng.randrange(1, cap + 1),
                                    'rb %d ; rp %d' % (rng.randrange(0, 65), rng.randrange(1, cap + 1)),
                                    'rb %d ; rp %d' % (min(64, max(0, W - 4)), min(cap, 12)), 'rs %d ; rp %d' % (rng.randrange(0, W + 1), cap)])
                fill = rng.randrange(0, ww)
                pre_w = ' ; '.join(fill_to(rng, ww, fill))
                kind = rng.choice(['ct', 'cf', 'gc'])
                cont = rng.choice(tconts)
                nbytes = ((n + 300) // 8 + 16)
                pat = rng.choice(['rand', 'rand', 'ones', 'runs'])
                if 'rc ' in cont and 'strict=0' in cfg:
                    pat = 'ones'     # code reads on arbitrary zero-extended data may not return
                data = rand_bytes(rng, nbytes, pat)
                ops = [x for x in [pre_r, pre_w, '%s %d' % (kind, n), 'pos', cont, 'pos', 'wb x5 3', 'wf', 'wd'] if x]
                lines.append('S %s ww=%d copy=%d data=%s :: %s' % (cfg, ww, copy_flag, hexs(data), ' ; '.join(ops)))
    return lines


# ---------------------------------------------------------------------------------------------
# C09 end of stream
# ---------------------------------------------------------------------------------------------

def gen_C09(rng, tier):
    quick = tier == 'quick'
    lines = []
    for cfg in reader_cfgs(quick):
        W = rw_of(cfg)
        wordbits = 64 if is_bit(cfg) else W
        le = 'e=le' in cfg
        cap = peek_cap(cfg)
        codes = ['gamma', 'delta', 'zeta3', 'omega', 'zeta', 'pi', 'rice', 'golomb', 'expg', 'minbin', 'vbbe', 'vble', 'unary']
        for _ in range(250 if quick else 6000):
            items = []
            bits = []
            for _ in range(rng.randrange(1, 10)):
                if rng.random() < 0.25:
                    n = rng.randrange(0, 65)
                    v = rng.getrandbits(n) if n else 0
                    items.append(('rb %d' % n, len(bits), n))
                    bits += field(le, v, n)
                else:
                    code = rng.choice(codes)
                    p = rng.choice(code_params(rng, code, True))
                    v = rand_value(rng, min(max_value(code, p), 1 << 40))
                    fl = rng.choice(flags_for(code))
                    if uses_table_read(code, fl) and cap < 16:
                        fl = {'gamma': '0', 'delta': '00', 'zeta3': '0'}[code]
                    cw = codeword(le, code, p, v)
                    items.append(('rc %s %s %d' % (code, fl, p), len(bits), len(cw)))
                    bits += cw
            # cut after every backend word
            total_words = (len(bits) + wordbits - 1) // wordbits
            cuts = range(0, total_words + 1)
            if quick:
                cuts = sorted(set([0, total_words, max(0, total_words - 1)] + [rng.randrange(0, total_words + 1)]))
            for cw_ in cuts:
                data = bits_to_bytes(le, (bits + [0] * (total_words * wordbits - len(bits)))[:cw_ * wordbits])
                ops = [it[0] for it in items] + ['pos']
                lines.append('S %s data=%s :: %s' % (cfg, hexs(data), ' ; '.join(ops)))
    return lines


# ---------------------------------------------------------------------------------------------
# C12 io views
# ---------------------------------------------------------------------------------------------

def gen_C12(rng, tier):
    quick = tier == 'quick'
    lines = []
    lens = list(range(0, 41))
    if quick:
        lens = sorted(set(list(range(0, 20)) + [23, 24, 25, 31, 32, 33, 40]))
    for e in ES:
        for ww in WW:
            offs = range(0, 2 * ww + 1)
            if quick:
                offs = sorted(set([0, 1, 7, 8, 9, ww - 1, ww, ww + 1, 2 * ww] + rng.sample(range(0, 2 * ww + 1), 3)))
            for off in offs:
                for ln in (lens if not quick else rng.sample(lens, 8)):
                    b = rand_bytes(rng, ln, 'rand')
                    pre = fill_to(rng, 1 << 30, off)
                    rcfg = rng.choice(reader_cfgs(True))
                    rcfg = ' '.join(t for t in rcfg.split() if not t.startswith('e='))
                    ops = pre + ['wio %s' % hexs(b), 'wb x1 1', 'wio %s' % hexs(rand_bytes(rng, rng.randrange(0, 12), 'rand')), 'wf', 'wd',
                                 'reopen', 'rs %d' % off, 'rio %d' % ln, 'pos', 'rb 1', 'rio %d' % rng.randrange(0, 12), 'pos']
                    lines.append('S e=%s %s ww=%d :: %s' % (e, rcfg, ww, ' ; '.join(ops)))
    # reader side on arbitrary data / offsets
    for cfg in reader_cfgs(quick):
        W = rw_of(cfg)
        offs = range(0, 2 * W + 1)
        if quick:
            offs = sorted(set([0, 1, 7, 8, 9, W, 2 * W] + rng.sample(range(0, 2 * W + 1), 3)))
        for off in offs:
            for ln in (lens if not quick else rng.sample(lens, 6)):
                data = rand_bytes(rng, (off + 8 * ln) // 8 + rng.choice([0, 1, 9, 17]))
                lines.append('S %s data=%s :: rs %d ; rio %d ; pos ; rb 5 ; rio 3 ; pos' % (cfg, hexs(data), off, ln))
    return lines
