#!/usr/bin/env python3
"""Translator for the dispatch layer: every hand-maintained list of src/dispatch/*.rs (and the
forwarding bodies of CodesStatsWrapper in src/utils/stats.rs) -> lean/Dsi/Gen/Dispatch.lean and
lean/Dsi/Gen/CodesText.lean.

Only data is emitted (lists of constants, patterns, calls, format strings, token lists of the
forwarding bodies); their meaning is defined by hand in lean/Dsi/Glue/Dispatch.lean and
lean/Dsi/Glue/CodesText.lean.  Everything is extracted from the token stream with brace matching
(tools/rstok.py); a construct that is not recognised raises TranslateError (fail closed).

Called from translate.py:  translate_dispatch.main(write_if_changed, HEADER, src, TranslateError)
"""
import os, sys
sys.path.insert(0, os.path.dirname(os.path.abspath(__file__)))
from rstok import tokenize, match_close, num_value, split_top

TE = Exception      # replaced by translate.TranslateError in main()


def err(msg):
    raise TE('dispatch: ' + msg)


def txt(toks):
    return ' '.join(t for _, t in toks)


def texts(toks):
    return [t for _, t in toks]


# ------------------------------------------------------------------------------------------
# structure: impls, fns, consts, matches
# ------------------------------------------------------------------------------------------

def angle_close(toks, i):
    """toks[i] is `<`; index of the token that closes it (`>` or the relevant half of `>>`)."""
    depth = 0
    for j in range(i, len(toks)):
        k, t = toks[j]
        if k != 'p':
            continue
        if t == '<':
            depth += 1
        elif t == '>':
            depth -= 1
        elif t == '>>':
            depth -= 2
        elif t == '<<':
            depth += 2
        if depth <= 0:
            return j
    err('unbalanced angle brackets')


def find_impls(toks, rel):
    """[(trait or None, self type, body_open, body_close)] for every top-level `impl`."""
    out = []
    i = 0
    while i < len(toks):
        if toks[i] == ('id', 'impl'):
            j = i + 1
            while j < len(toks) and toks[j] != ('p', '{'):
                if toks[j] == ('p', ';'):
                    err('%s: impl header without a body' % rel)
                j += 1
            if j >= len(toks):
                err('%s: impl header without a body' % rel)
            e = match_close(toks, j)
            h = toks[i + 1:j]
            k = 0
            if h and h[0] == ('p', '<'):
                k = angle_close(h, 0) + 1
            rest = h[k:]
            depth = 0
            fpos = None
            wpos = len(rest)
            ids0 = []            # (index, identifier) at angle depth 0
            for n, (kd, t) in enumerate(rest):
                if kd == 'p':
                    if t == '<': depth += 1
                    elif t == '>': depth -= 1
                    elif t == '>>': depth -= 2
                if depth == 0 and kd == 'id':
                    if t == 'where':
                        wpos = n
                        break
                    if t == 'for' and not (n + 1 < len(rest) and rest[n + 1] == ('p', '<')):
                        if fpos is None:
                            fpos = n
                        continue
                    ids0.append((n, t))
            if fpos is None:
                trait = None
                selfty = ids0[0][1] if ids0 else None
            else:
                before = [t for n, t in ids0 if n < fpos]
                after = [t for n, t in ids0 if n > fpos and n < wpos]
                if not before or not after:
                    err('%s: unrecognised impl header: %s' % (rel, txt(h)))
                trait = before[-1]
                selfty = after[0]
            out.append((trait, selfty, j, e))
            i = e + 1
            continue
        i += 1
    return out


def impl_of(toks, impls, trait, selfty, rel, nth=0, count=None):
    c = [(a, b) for (t, s, a, b) in impls if t == trait and s == selfty]
    if count is not None and len(c) != count:
        err('%s: expected %d `impl %s for %s`, found %d' % (rel, count, trait, selfty, len(c)))
    if len(c) <= nth:
        err('%s: `impl %s for %s` not found' % (rel, trait or '(inherent)', selfty))
    return c[nth]


def items_of(toks, a, b):
    """fns and consts directly inside the braces toks[a]..toks[b].
    fns: name -> (sig tokens, body_open, body_close); consts: [(name, expr tokens)] in order."""
    fns, consts = {}, []
    i = a + 1
    while i < b:
        k, t = toks[i]
        if (k, t) == ('p', '{'):
            i = match_close(toks, i) + 1
            continue
        if (k, t) == ('p', '#') and toks[i + 1] == ('p', '['):
            i = match_close(toks, i + 1) + 1
            continue
        if (k, t) == ('id', 'fn'):
            name = toks[i + 1][1]
            j = i + 2
            while toks[j] != ('p', '{'):
                if toks[j] == ('p', ';'):
                    err('fn %s without a body' % name)
                j += 1
            e = match_close(toks, j)
            if name in fns:
                err('fn %s defined twice in one impl' % name)
            fns[name] = (toks[i + 2:j], j, e)
            i = e + 1
            continue
        if (k, t) == ('id', 'const') and toks[i + 1][0] == 'id' and toks[i + 2] == ('p', ':'):
            name = toks[i + 1][1]
            j = i + 3
            depth = 0
            while True:
                kk, tt = toks[j]
                if kk == 'p':
                    if tt in ('<', '(', '['): depth += 1
                    elif tt in ('>', ')', ']'): depth -= 1
                    elif tt == '>>': depth -= 2
                    elif tt == '=' and depth == 0:
                        break
                    elif tt == ';':
                        err('const %s without an initialiser' % name)
                j += 1
            s = j + 1
            depth = 0
            j = s
            while True:
                kk, tt = toks[j]
                if kk == 'p':
                    if tt in ('(', '[', '{'): depth += 1
                    elif tt in (')', ']', '}'): depth -= 1
                    elif tt == ';' and depth == 0:
                        break
                j += 1
            consts.append((name, toks[s:j]))
            i = j + 1
            continue
        i += 1
    return fns, consts


def params_of(sig):
    """parameter names of a fn signature (tokens between `fn name` and the body)."""
    i = 0
    if sig and sig[0] == ('p', '<'):
        i = angle_close(sig, 0) + 1
    if i >= len(sig) or sig[i] != ('p', '('):
        err('unrecognised fn signature: %s' % txt(sig))
    e = match_close(sig, i)
    names = []
    for part in split_top_angle(sig[i + 1:e]):
        p = [x for x in part if x not in (('p', '&'), ('id', 'mut'))]
        if not p:
            continue
        if p[0][0] == 'life':
            p = p[1:]
        if p[0][0] != 'id':
            err('unrecognised parameter: %s' % txt(part))
        names.append(p[0][1])
    return names


def split_top_angle(toks, sep=','):
    """split at top-level separators, also respecting `<...>` (types)."""
    out, cur, depth = [], [], 0
    for k, t in toks:
        if k == 'p':
            if t in ('(', '[', '{', '<'): depth += 1
            elif t in (')', ']', '}', '>'): depth -= 1
            elif t == '>>': depth -= 2
        if k == 'p' and t == sep and depth == 0:
            out.append(cur); cur = []
        else:
            cur.append((k, t))
    if cur:
        out.append(cur)
    return out


def find_match(toks, a, b, scrut, what):
    """the unique `match <scrut> {` directly in the body toks[a]..toks[b] -> (match_index, open, close)"""
    found = []
    i = a + 1
    while i < b:
        if toks[i] == ('id', 'match'):
            j = i + 1
            depth = 0
            while not (toks[j] == ('p', '{') and depth == 0):
                if toks[j][0] == 'p' and toks[j][1] in ('(', '['): depth += 1
                if toks[j][0] == 'p' and toks[j][1] in (')', ']'): depth -= 1
                j += 1
            e = match_close(toks, j)
            if texts(toks[i + 1:j]) == scrut:
                found.append((i, j, e))
            i = e + 1
            continue
        i += 1
    if len(found) != 1:
        err('%s: expected exactly one `match %s`, found %d' % (what, ' '.join(scrut), len(found)))
    return found[0]


def arms_of(toks, o, c, what):
    """[(pattern tokens, body tokens, body_is_block)] of the match whose braces are toks[o]..toks[c]"""
    arms = []
    i = o + 1
    while i < c:
        depth = 0
        j = i
        while True:
            if j >= c:
                err('%s: arm without `=>`' % what)
            k, t = toks[j]
            if k == 'p':
                if t in ('(', '[', '{'): depth += 1
                elif t in (')', ']', '}'): depth -= 1
                elif t == '=>' and depth == 0:
                    break
            j += 1
        pat = toks[i:j]
        if any(x == ('id', 'if') for x in pat):
            err('%s: match guard not supported: %s' % (what, txt(pat)))
        s = j + 1
        if toks[s] == ('p', '{'):
            e = match_close(toks, s)
            body = toks[s + 1:e]
            block = True
            i = e + 1
            if i < c and toks[i] == ('p', ','):
                i += 1
        else:
            depth = 0
            e = s
            while e < c:
                k, t = toks[e]
                if k == 'p':
                    if t in ('(', '[', '{'): depth += 1
                    elif t in (')', ']', '}'): depth -= 1
                    elif t == ',' and depth == 0:
                        break
                e += 1
            body = toks[s:e]
            block = False
            i = e + 1
        if not pat or not body:
            err('%s: empty arm' % what)
        arms.append((pat, body, block))
    if not arms:
        err('%s: match without arms' % what)
    return arms


def wrapper_of(toks, a, b, m, e):
    """token texts of the fn body with the match replaced by <MATCH>"""
    return texts(toks[a + 1:m]) + ['<MATCH>'] + texts(toks[e + 1:b])


# ------------------------------------------------------------------------------------------
# patterns, constructed values, calls
# ------------------------------------------------------------------------------------------

ENUM_PREFIX = ('Codes', 'Self')


def parse_code_pat(p, variants, what):
    """one alternative over `Codes` -> ('wild',) | ('var', Variant, None | int | ('bind', name))"""
    t = texts(p)
    if t == ['_']:
        return ('wild',)
    if len(p) >= 3 and p[0][0] == 'id' and p[0][1] in ENUM_PREFIX and p[1] == ('p', '::') and p[2][0] == 'id':
        v = p[2][1]
        if v not in variants:
            err('%s: unknown variant %s' % (what, v))
        field = variants[v]
        rest = p[3:]
        if not rest:
            if field is not None:
                err('%s: variant %s used without its field' % (what, v))
            return ('var', v, None)
        if field is None:
            err('%s: variant %s has no field: %s' % (what, v, txt(p)))
        if rest[0] == ('p', '{') and rest[-1] == ('p', '}'):
            inner = rest[1:-1]
            if inner and inner[-1] == ('p', ','):
                inner = inner[:-1]
            if len(inner) == 1 and inner[0] == ('id', field):
                return ('var', v, ('bind', field))
            if len(inner) == 3 and inner[0] == ('id', field) and inner[1] == ('p', ':'):
                if inner[2][0] == 'num':
                    return ('var', v, num_value(inner[2][1]))
                if inner[2][0] == 'id' and inner[2][1] != '_':
                    return ('var', v, ('bind', inner[2][1]))
    err('%s: unrecognised pattern `%s`' % (what, txt(p)))


def parse_code_pats(pat, variants, what):
    alts = [parse_code_pat(a, variants, what) for a in split_top(pat, '|')]
    binds = set(a[2][1] for a in alts if a[0] == 'var' and isinstance(a[2], tuple))
    if len(binds) > 1 or (binds and len(alts) > 1):
        err('%s: bindings in an or-pattern are not supported: %s' % (what, txt(pat)))
    return alts, (next(iter(binds)) if binds else None)


def parse_const_pats(pat, consts, what):
    alts = []
    for a in split_top(pat, '|'):
        t = texts(a)
        if t == ['_']:
            alts.append(('wild',))
        elif len(a) == 3 and a[0] == ('id', 'code_consts') and a[1] == ('p', '::') and a[2][0] == 'id':
            if a[2][1] not in consts:
                err('%s: unknown constant %s' % (what, a[2][1]))
            alts.append(('name', a[2][1]))
        elif len(a) == 1 and a[0][0] == 'num':
            alts.append(('lit', num_value(a[0][1])))
        else:
            err('%s: unrecognised identifier pattern `%s`' % (what, txt(a)))
    return alts


def parse_arg(a, bound, what):
    """argument after `value` -> ('lit', n) | ('param',)"""
    a = list(a)
    if len(a) >= 2 and a[-2] == ('id', 'as') and a[-1][0] == 'id' and a[-1][1] in ('u64', 'usize'):
        a = a[:-2]
    if a and a[0] == ('p', '*'):
        a = a[1:]
        if not (len(a) == 1 and a[0][0] == 'id'):
            err('%s: unrecognised argument' % what)
    if len(a) == 1 and a[0][0] == 'num':
        return ('lit', num_value(a[0][1]))
    if len(a) == 1 and a[0][0] == 'id' and bound is not None and a[0][1] == bound:
        return ('param',)
    err('%s: unrecognised argument `%s`' % (what, txt(a)))


def is_refusal(b):
    """panic!/bail!/return Err/Err: the dispatcher refuses"""
    t = texts(b)
    if t and t[-1] == ';':
        t = t[:-1]
    if len(t) >= 4 and t[0] == 'panic' and t[1] == '!' and t[2] == '(' and t[-1] == ')':
        return True
    if len(t) >= 4 and t[:2] == ['bail', '!'] and t[2] == '(' and t[-1] == ')':
        return True
    if len(t) >= 6 and t[:4] == ['anyhow', '::', 'bail', '!'] and t[4] == '(' and t[-1] == ')':
        return True
    if len(t) >= 4 and t[:3] == ['return', 'Err', '('] and t[-1] == ')':
        return True
    if len(t) >= 3 and t[:2] == ['Err', '('] and t[-1] == ')':
        return True
    return False


def parse_call(b, kind, recv, value, bound, what):
    """arm / closure body -> (call, has_question_mark)
    call = ('read', m, args) | ('write', m, args) | ('len', f, args) | ('unaryLen',) | ('unsupported',)"""
    if is_refusal(b):
        return ('unsupported',), None
    b = list(b)
    q = False
    if b and b[-1] == ('p', '?'):
        q = True
        b = b[:-1]
    if kind in ('read', 'write'):
        if not (len(b) >= 5 and b[0] == ('id', recv) and b[1] == ('p', '.') and b[2][0] == 'id' and b[3] == ('p', '(')
                and match_close(b, 3) == len(b) - 1):
            err('%s: unrecognised %s call `%s`' % (what, kind, txt(b)))
        m = b[2][1]
        args = split_top(b[4:-1])
        if kind == 'read':
            if not m.startswith('read_'):
                err('%s: `%s` is not a read method' % (what, m))
            return ('read', m, [parse_arg(a, bound, what) for a in args]), q
        if not m.startswith('write_'):
            err('%s: `%s` is not a write method' % (what, m))
        if not args or texts(args[0]) != [value]:
            err('%s: first argument of `%s` is not `%s`' % (what, m, value))
        return ('write', m, [parse_arg(a, bound, what) for a in args[1:]]), q
    if kind == 'len':
        if texts(b) == [value, 'as', 'usize', '+', '1']:
            return ('unaryLen',), q
        if not (len(b) >= 3 and b[0][0] == 'id' and b[1] == ('p', '(') and match_close(b, 1) == len(b) - 1):
            err('%s: unrecognised length expression `%s`' % (what, txt(b)))
        f = b[0][1]
        if not (f.startswith('len_') or f.startswith('bit_len_')):
            err('%s: `%s` is not a length function' % (what, f))
        args = split_top(b[2:-1])
        if not args or texts(args[0]) != [value]:
            err('%s: first argument of `%s` is not `%s`' % (what, f, value))
        return ('len', f, [parse_arg(a, bound, what) for a in args[1:]]), q
    err('bad kind')


def parse_mk(b, variants, pvar, what):
    """constructed `Codes` value -> (Variant, None | ('lit', n) | ('param',)); pvar = name of the
    string variable whose `.parse()?` is the parameter (FromStr) or None"""
    if not (len(b) >= 3 and b[0][0] == 'id' and b[0][1] in ENUM_PREFIX and b[1] == ('p', '::') and b[2][0] == 'id'):
        err('%s: unrecognised value `%s`' % (what, txt(b)))
    v = b[2][1]
    if v not in variants:
        err('%s: unknown variant %s' % (what, v))
    field = variants[v]
    rest = b[3:]
    if not rest:
        if field is not None:
            err('%s: variant %s built without its field' % (what, v))
        return (v, None)
    if field is None or rest[0] != ('p', '{') or rest[-1] != ('p', '}'):
        err('%s: unrecognised value `%s`' % (what, txt(b)))
    inner = rest[1:-1]
    if inner and inner[-1] == ('p', ','):
        inner = inner[:-1]
    if len(inner) >= 3 and inner[0] == ('id', field) and inner[1] == ('p', ':'):
        val = inner[2:]
        if len(val) == 1 and val[0][0] == 'num':
            return (v, ('lit', num_value(val[0][1])))
        if pvar is not None and texts(val) == [pvar, '.', 'parse', '(', ')', '?']:
            return (v, ('param',))
    err('%s: unrecognised value `%s`' % (what, txt(b)))


# ------------------------------------------------------------------------------------------
# Lean printing
# ------------------------------------------------------------------------------------------

def lstr(s):
    out = []
    for ch in s:
        if ch == '\\': out.append('\\\\')
        elif ch == '"': out.append('\\"')
        elif ch == '\n': out.append('\\n')
        elif ch == '\t': out.append('\\t')
        elif ord(ch) < 32 or ord(ch) == 127:
            err('control character in a string literal')
        else: out.append(ch)
    return '"' + ''.join(out) + '"'


def larg(a):
    return '.lit %d' % a[1] if a[0] == 'lit' else '.param'


def largs(args):
    return '[' + ', '.join(larg(a) for a in args) + ']'


def lcall(c):
    if c[0] == 'read': return '.read %s %s' % (lstr(c[1]), largs(c[2]))
    if c[0] == 'write': return '.write %s %s' % (lstr(c[1]), largs(c[2]))
    if c[0] == 'len': return '.len %s %s' % (lstr(c[1]), largs(c[2]))
    if c[0] == 'unaryLen': return '.unaryLen'
    return '.unsupported'


def lpat(p):
    if p[0] == 'wild': return '.wild'
    if p[2] is None or isinstance(p[2], tuple): return '.var %s none' % lstr(p[1])
    return '.var %s (some %d)' % (lstr(p[1]), p[2])


def lpats(ps):
    return '[' + ', '.join(lpat(p) for p in ps) + ']'


def lcpat(p):
    if p[0] == 'wild': return '.wild'
    if p[0] == 'name': return '.name %s' % lstr(p[1])
    return '.lit %d' % p[1]


def lcpats(ps):
    return '[' + ', '.join(lcpat(p) for p in ps) + ']'


def lopt_str(s):
    return 'none' if s is None else '(some %s)' % lstr(s)


def lmk(m):
    if m is None: return 'none'
    v, a = m
    return '(some ⟨%s, %s⟩)' % (lstr(v), 'none' if a is None else '(some (%s))' % larg(a))


def ldef(name, ty, rows):
    if not rows:
        return 'def %s : %s := []' % (name, ty)
    return 'def %s : %s := [\n  %s]' % (name, ty, ',\n  '.join(rows))


# ------------------------------------------------------------------------------------------
# extraction
# ------------------------------------------------------------------------------------------

def enum_variants(toks, rel):
    """`pub enum Codes { ... }` -> [(Variant, field name or None)] in order"""
    for i in range(len(toks) - 2):
        if toks[i] == ('id', 'enum') and toks[i + 1] == ('id', 'Codes') and toks[i + 2] == ('p', '{'):
            e = match_close(toks, i + 2)
            out = []
            for part in split_top(toks[i + 3:e]):
                while part and part[0] == ('p', '#'):
                    part = part[match_close(part, 1) + 1:]
                if not part:
                    continue
                if len(part) == 1 and part[0][0] == 'id':
                    out.append((part[0][1], None))
                elif (len(part) == 6 and part[0][0] == 'id' and part[1] == ('p', '{') and part[2][0] == 'id'
                      and part[3] == ('p', ':') and part[4] == ('id', 'usize') and part[5] == ('p', '}')):
                    out.append((part[0][1], part[2][1]))
                else:
                    err('%s: unrecognised variant of Codes: %s' % (rel, txt(part)))
            return out
    err('%s: enum Codes not found' % rel)


def code_consts(toks, rel):
    """`pub mod code_consts { pub const NAME: usize = <int | NAME>; ... }` with aliases resolved"""
    for i in range(len(toks) - 2):
        if toks[i] == ('id', 'mod') and toks[i + 1] == ('id', 'code_consts') and toks[i + 2] == ('p', '{'):
            e = match_close(toks, i + 2)
            body = toks[i + 3:e]
            out, vals = [], {}
            j = 0
            while j < len(body):
                if body[j] == ('id', 'pub'):
                    j += 1
                    continue
                if not (body[j] == ('id', 'const') and body[j + 1][0] == 'id' and body[j + 2] == ('p', ':')
                        and body[j + 3] == ('id', 'usize') and body[j + 4] == ('p', '=') and body[j + 6] == ('p', ';')):
                    err('%s: unrecognised item in code_consts near `%s`' % (rel, txt(body[j:j + 8])))
                name, v = body[j + 1][1], body[j + 5]
                if name in vals:
                    err('%s: constant %s defined twice' % (rel, name))
                if v[0] == 'num':
                    vals[name] = num_value(v[1])
                elif v[0] == 'id' and v[1] in vals:
                    vals[name] = vals[v[1]]
                else:
                    err('%s: constant %s: unrecognised value `%s`' % (rel, name, v[1]))
                out.append((name, vals[name]))
                j += 7
            if not out:
                err('%s: code_consts is empty' % rel)
            return out
    err('%s: mod code_consts not found' % rel)


KIND_RECV = {'read': 1, 'write': 1}


def dispatch_arms(toks, impls, trait, selfty, fn, kind, scrut, patf, rel):
    """arms of `match <scrut>` in `impl <trait> for <selfty> { fn <fn> }` -> [(pats, call)]"""
    what = '%s: <%s as %s>::%s' % (rel, selfty, trait, fn)
    a, b = impl_of(toks, impls, trait, selfty, rel, count=1)
    fns, _ = items_of(toks, a, b)
    if fn not in fns:
        err('%s not found' % what)
    sig, o, c = fns[fn]
    ps = params_of(sig)
    if kind == 'read':
        if len(ps) != 2 or ps[0] != 'self': err('%s: unexpected parameters %r' % (what, ps))
        recv, value = ps[1], None
    elif kind == 'write':
        if len(ps) != 3 or ps[0] != 'self': err('%s: unexpected parameters %r' % (what, ps))
        recv, value = ps[1], ps[2]
    else:
        if len(ps) != 2 or ps[0] != 'self': err('%s: unexpected parameters %r' % (what, ps))
        recv, value = None, ps[1]
    m, mo, mc = find_match(toks, o, c, scrut, what)
    wrap = wrapper_of(toks, o, c, m, mc)
    if wrap == ['<MATCH>']:
        want_q = False
    elif wrap == ['Ok', '(', '<MATCH>', ')'] and kind != 'len':
        want_q = True
    else:
        err('%s: unrecognised code around the match: %s' % (what, ' '.join(wrap)))
    rows = []
    for pat, body, block in arms_of(toks, mo, mc, what):
        pats, bound = patf(pat, what)
        call, q = parse_call(body, kind, recv, value, bound, what)
        if q is not None and q != want_q:
            err('%s: arm `%s`: `?` does not agree with the enclosing expression' % (what, txt(pat)))
        rows.append((pats, call))
    return rows


def func_tables(toks, impls, selfty, kind, variants, rel):
    """closure constants and `new` arms of FuncCodeReader/Writer/Len, FactoryFuncCodeReader"""
    what = '%s: %s' % (rel, selfty)
    cands = [(a, b) for (t, s, a, b) in impls if t is None and s == selfty]
    sel = None
    for a, b in cands:
        fns, consts = items_of(toks, a, b)
        if 'new' in fns:
            if sel is not None:
                err('%s: two inherent impls define `new`' % what)
            sel = (fns, consts)
    if sel is None:
        err('%s: inherent impl with `new` not found' % what)
    fns, consts = sel
    table = []
    for name, expr in consts:
        w = '%s::%s' % (what, name)
        if not expr or expr[0] != ('p', '|'):
            err('%s: not a closure' % w)
        j = 1
        while j < len(expr) and expr[j] != ('p', '|'):
            j += 1
        if j >= len(expr):
            err('%s: not a closure' % w)
        params = []
        for part in split_top_angle(expr[1:j]):
            if not part or part[0][0] != 'id':
                err('%s: unrecognised closure parameter' % w)
            params.append(part[0][1])
        body = expr[j + 1:]
        if body and body[0] == ('p', '{') and match_close(body, 0) == len(body) - 1:
            body = body[1:-1]
        if kind == 'read':
            if len(params) != 1: err('%s: closure takes %d parameters' % (w, len(params)))
            recv, value = params[0], None
        elif kind == 'write':
            if len(params) != 2: err('%s: closure takes %d parameters' % (w, len(params)))
            recv, value = params
        else:
            if len(params) != 1: err('%s: closure takes %d parameters' % (w, len(params)))
            recv, value = None, params[0]
        call, q = parse_call(body, kind, recv, value, None, w)
        if q:
            err('%s: unexpected `?`' % w)
        if call[0] == 'unsupported':
            err('%s: closure refuses' % w)
        table.append((name, call))
    names = set(n for n, _ in table)
    if len(names) != len(table):
        err('%s: duplicate constant' % what)
    sig, o, c = fns['new']
    ps = params_of(sig)
    if len(ps) != 1:
        err('%s::new: unexpected parameters %r' % (what, ps))
    m, mo, mc = find_match(toks, o, c, [ps[0]], what + '::new')
    wrap = wrapper_of(toks, o, c, m, mc)
    if not (len(wrap) == 12 and wrap[0] == 'let' and wrap[2:] == ['=', '<MATCH>', ';', 'Ok', '(', 'Self', '(', wrap[1], ')', ')']):
        err('%s::new: unrecognised code around the match: %s' % (what, ' '.join(wrap)))
    arms = []
    for pat, body, block in arms_of(toks, mo, mc, what + '::new'):
        pats, bound = parse_code_pats(pat, variants, what + '::new')
        if bound is not None:
            err('%s::new: binding pattern `%s` not supported' % (what, txt(pat)))
        t = texts(body)
        if len(t) == 3 and t[0] == 'Self' and t[1] == '::':
            if t[2] not in names:
                err('%s::new: unknown constant Self::%s' % (what, t[2]))
            arms.append((pats, t[2]))
        elif is_refusal(body):
            arms.append((pats, None))
        else:
            err('%s::new: unrecognised arm body `%s`' % (what, txt(body)))
    return table, arms


def body_tokens(toks, impls, trait, selfty, fn, rel, nth=0, count=None, inherent_with=None):
    if trait is None:
        for (t, s, a, b) in impls:
            if t is None and s == selfty:
                fns, _ = items_of(toks, a, b)
                if fn in fns:
                    _, o, c = fns[fn]
                    return texts(toks[o + 1:c])
        err('%s: %s::%s not found' % (rel, selfty, fn))
    a, b = impl_of(toks, impls, trait, selfty, rel, nth=nth, count=count)
    fns, _ = items_of(toks, a, b)
    if fn not in fns:
        err('%s: <%s as %s>::%s not found' % (rel, selfty, trait, fn))
    _, o, c = fns[fn]
    return texts(toks[o + 1:c])


FROMSTR_TEMPLATE = '''
let mut parts = s.split('(');
let name = parts.next().ok_or_else(|| CodeError::UnknownCode(format!("", s)))?;
let k = parts.next().ok_or_else(|| CodeError::UnknownCode(format!("", s)))?
    .split(')').next().ok_or_else(|| CodeError::UnknownCode(format!("", s)))?;
<MATCH>
'''


def norm(toks):
    return [(k, '<str>') if k == 'str' else (k, t) for k, t in toks]


def main(write_if_changed, HEADER, src, TranslateError):
    global TE
    TE = TranslateError
    changed = []

    rel_codes, rel_static, rel_dyn, rel_fac, rel_stats = ('src/dispatch/codes.rs', 'src/dispatch/static.rs',
                                                            'src/dispatch/dynamic.rs', 'src/dispatch/factory.rs',
                                                            'src/utils/stats.rs')
    tc, ts, td, tf, tst = (tokenize(src(r)) for r in (rel_codes, rel_static, rel_dyn, rel_fac, rel_stats))
    ic, is_, id_, if_, ist = (find_impls(t, r) for t, r in ((tc, rel_codes), (ts, rel_static), (td, rel_dyn),
                                                             (tf, rel_fac), (tst, rel_stats)))

    vlist = enum_variants(tc, rel_codes)
    variants = dict(vlist)
    if len(variants) != len(vlist):
        err('duplicate variant in Codes')
    consts = code_consts(ts, rel_static)
    cdict = dict(consts)

    cpf = lambda pat, what: (parse_const_pats(pat, cdict, what), None)
    kpf = lambda pat, what: parse_code_pats(pat, variants, what)

    const_read = dispatch_arms(ts, is_, 'DynamicCodeRead', 'ConstCode', 'read', 'read', ['CODE'], cpf, rel_static)
    const_write = dispatch_arms(ts, is_, 'DynamicCodeWrite', 'ConstCode', 'write', 'write', ['CODE'], cpf, rel_static)
    const_len = dispatch_arms(ts, is_, 'CodeLen', 'ConstCode', 'len', 'len', ['CODE'], cpf, rel_static)
    codes_read = dispatch_arms(tc, ic, 'DynamicCodeRead', 'Codes', 'read', 'read', ['self'], kpf, rel_codes)
    codes_write = dispatch_arms(tc, ic, 'DynamicCodeWrite', 'Codes', 'write', 'write', ['self'], kpf, rel_codes)
    codes_len = dispatch_arms(tc, ic, 'CodeLen', 'Codes', 'len', 'len', ['self'], kpf, rel_codes)

    fr_c, fr_n = func_tables(td, id_, 'FuncCodeReader', 'read', variants, rel_dyn)
    fw_c, fw_n = func_tables(td, id_, 'FuncCodeWriter', 'write', variants, rel_dyn)
    fl_c, fl_n = func_tables(td, id_, 'FuncCodeLen', 'len', variants, rel_dyn)
    ff_c, ff_n = func_tables(tf, if_, 'FactoryFuncCodeReader', 'read', variants, rel_fac)

    # forwarding bodies (token texts), compared in Lean with what Dsi.Glue.Dispatch models
    fwd = [
        ('Codes::read', body_tokens(tc, ic, None, 'Codes', 'read', rel_codes)),
        ('Codes::write', body_tokens(tc, ic, None, 'Codes', 'write', rel_codes)),
        ('Codes as StaticCodeRead::read', body_tokens(tc, ic, 'StaticCodeRead', 'Codes', 'read', rel_codes, count=1)),
        ('Codes as StaticCodeWrite::write', body_tokens(tc, ic, 'StaticCodeWrite', 'Codes', 'write', rel_codes, count=1)),
        ('ConstCode::read', body_tokens(ts, is_, None, 'ConstCode', 'read', rel_static)),
        ('ConstCode::write', body_tokens(ts, is_, None, 'ConstCode', 'write', rel_static)),
        ('ConstCode as StaticCodeRead::read', body_tokens(ts, is_, 'StaticCodeRead', 'ConstCode', 'read', rel_static, count=1)),
        ('ConstCode as StaticCodeWrite::write', body_tokens(ts, is_, 'StaticCodeWrite', 'ConstCode', 'write', rel_static, count=1)),
        ('FuncCodeReader as StaticCodeRead::read', body_tokens(td, id_, 'StaticCodeRead', 'FuncCodeReader', 'read', rel_dyn, count=1)),
        ('FuncCodeWriter as StaticCodeWrite::write', body_tokens(td, id_, 'StaticCodeWrite', 'FuncCodeWriter', 'write', rel_dyn, count=1)),
        ('FuncCodeLen as CodeLen::len', body_tokens(td, id_, 'CodeLen', 'FuncCodeLen', 'len', rel_dyn, count=1)),
        ('FuncCodeReader::new_with_func', body_tokens(td, id_, None, 'FuncCodeReader', 'new_with_func', rel_dyn)),
        ('FactoryFuncCodeReader::get', body_tokens(tf, if_, None, 'FactoryFuncCodeReader', 'get', rel_fac)),
        ('FuncCodeReader::get_func', body_tokens(td, id_, None, 'FuncCodeReader', 'get_func', rel_dyn)),
        ('FuncCodeWriter::get_func', body_tokens(td, id_, None, 'FuncCodeWriter', 'get_func', rel_dyn)),
        ('FuncCodeLen::get_func', body_tokens(td, id_, None, 'FuncCodeLen', 'get_func', rel_dyn)),
        ('FactoryFuncCodeReader::inner', body_tokens(tf, if_, None, 'FactoryFuncCodeReader', 'inner', rel_fac)),
        ('CodesStatsWrapper as DynamicCodeRead::read', body_tokens(tst, ist, 'DynamicCodeRead', 'CodesStatsWrapper', 'read', rel_stats, count=1)),
        ('CodesStatsWrapper as StaticCodeRead::read', body_tokens(tst, ist, 'StaticCodeRead', 'CodesStatsWrapper', 'read', rel_stats, count=1)),
        ('CodesStatsWrapper as DynamicCodeWrite::write', body_tokens(tst, ist, 'DynamicCodeWrite', 'CodesStatsWrapper', 'write', rel_stats, count=1)),
        ('CodesStatsWrapper as StaticCodeWrite::write', body_tokens(tst, ist, 'StaticCodeWrite', 'CodesStatsWrapper', 'write', rel_stats, count=1)),
    ]

    arm = lambda rows, pf: ['(%s, %s)' % (pf(p), lcall(c)) for p, c in rows]
    out = [HEADER.rstrip('\n'),
           '-- (this file: tools/translate_dispatch.py; data only, the meaning is in Dsi/Glue/Dispatch.lean)',
           'import Dsi.Glue.DispatchTypes', 'namespace Dsi.Gen.Dispatch', 'open Dsi', '']
    out.append('/-- `pub enum Codes`: variant, field name -/')
    out.append(ldef('codesVariants', 'List (String × Option String)', ['(%s, %s)' % (lstr(v), lopt_str(f)) for v, f in vlist]))
    out.append('/-- `code_consts`, aliases resolved -/')
    out.append(ldef('codeConsts', 'List (String × Nat)', ['(%s, %d)' % (lstr(n), v) for n, v in consts]))
    out.append(ldef('constRead', 'List (List CPat × Call)', arm(const_read, lcpats)))
    out.append(ldef('constWrite', 'List (List CPat × Call)', arm(const_write, lcpats)))
    out.append(ldef('constLen', 'List (List CPat × Call)', arm(const_len, lcpats)))
    out.append(ldef('codesRead', 'List (List Pat × Call)', arm(codes_read, lpats)))
    out.append(ldef('codesWrite', 'List (List Pat × Call)', arm(codes_write, lpats)))
    out.append(ldef('codesLen', 'List (List Pat × Call)', arm(codes_len, lpats)))
    for nm, (tab, arms) in (('funcRead', (fr_c, fr_n)), ('funcWrite', (fw_c, fw_n)), ('funcLen', (fl_c, fl_n)),
                            ('factoryRead', (ff_c, ff_n))):
        out.append(ldef(nm + 'Consts', 'List (String × Call)', ['(%s, %s)' % (lstr(n), lcall(c)) for n, c in tab]))
        out.append(ldef(nm + 'New', 'List (List Pat × Option String)', ['(%s, %s)' % (lpats(p), lopt_str(n)) for p, n in arms]))
    out.append('/-- token texts of the forwarding bodies -/')
    out.append(ldef('forwarders', 'List (String × List String)',
                    ['(%s, [%s])' % (lstr(n), ', '.join(lstr(t) for t in b)) for n, b in fwd]))
    out.append('\nend Dsi.Gen.Dispatch\n')
    if write_if_changed('Dispatch.lean', '\n'.join(out)):
        changed.append('Dispatch')

    # ---------------- text / identifiers
    a, b = None, None
    fns = None
    for (t, s, x, y) in ic:
        if t is None and s == 'Codes':
            f, _ = items_of(tc, x, y)
            if 'to_code_const' in f:
                fns = f
    if fns is None or 'from_code_const' not in fns:
        err('%s: to_code_const / from_code_const not found' % rel_codes)
    # to_code_const
    what = rel_codes + ': Codes::to_code_const'
    sig, o, c = fns['to_code_const']
    if params_of(sig) != ['self']:
        err('%s: unexpected parameters' % what)
    m, mo, mc = find_match(tc, o, c, ['self'], what)
    if wrapper_of(tc, o, c, m, mc) != ['Ok', '(', '<MATCH>', ')']:
        err('%s: unrecognised code around the match' % what)
    to_const = []
    for pat, body, block in arms_of(tc, mo, mc, what):
        pats, bound = parse_code_pats(pat, variants, what)
        if bound is not None:
            err('%s: binding pattern not supported' % what)
        t = texts(body)
        if len(t) == 3 and t[0] == 'code_consts' and t[1] == '::':
            if t[2] not in cdict:
                err('%s: unknown constant %s' % (what, t[2]))
            to_const.append((pats, t[2]))
        elif is_refusal(body) and texts(body)[0] == 'return':
            to_const.append((pats, None))
        else:
            err('%s: unrecognised arm body `%s`' % (what, txt(body)))
    # from_code_const
    what = rel_codes + ': Codes::from_code_const'
    sig, o, c = fns['from_code_const']
    ps = params_of(sig)
    if len(ps) != 1:
        err('%s: unexpected parameters' % what)
    m, mo, mc = find_match(tc, o, c, [ps[0]], what)
    if wrapper_of(tc, o, c, m, mc) != ['Ok', '(', '<MATCH>', ')']:
        err('%s: unrecognised code around the match' % what)
    from_const = []
    for pat, body, block in arms_of(tc, mo, mc, what):
        pats = parse_const_pats(pat, cdict, what)
        if is_refusal(body) and texts(body)[0] == 'return':
            from_const.append((pats, None))
        else:
            mk = parse_mk(body, variants, None, what)
            from_const.append((pats, mk))
    # PartialEq
    what = rel_codes + ': <Codes as PartialEq>::eq'
    a, b = impl_of(tc, ic, 'PartialEq', 'Codes', rel_codes, count=1)
    f, _ = items_of(tc, a, b)
    if 'eq' not in f:
        err('%s not found' % what)
    sig, o, c = f['eq']
    ps = params_of(sig)
    if len(ps) != 2 or ps[0] != 'self':
        err('%s: unexpected parameters' % what)
    m, mo, mc = find_match(tc, o, c, ['(', 'self', ',', ps[1], ')'], what)
    if wrapper_of(tc, o, c, m, mc) != ['<MATCH>']:
        err('%s: unrecognised code around the match' % what)
    eq_arms = []
    for pat, body, block in arms_of(tc, mo, mc, what):
        t = texts(body)
        if texts(pat) == ['_']:
            l, r, bl, br = [('wild',)], [('wild',)], None, None
        else:
            if not (pat[0] == ('p', '(') and match_close(pat, 0) == len(pat) - 1):
                err('%s: unrecognised pattern `%s`' % (what, txt(pat)))
            sides = split_top(pat[1:-1])
            if len(sides) != 2:
                err('%s: unrecognised pattern `%s`' % (what, txt(pat)))
            l, bl = parse_code_pats(sides[0], variants, what)
            r, br = parse_code_pats(sides[1], variants, what)
        if t == ['true']:
            res = '.tt'
        elif t == ['false']:
            res = '.ff'
        elif len(t) == 3 and t[1] == '==' and bl is not None and br is not None and bl != br and sorted((t[0], t[2])) == sorted((bl, br)):
            res = '.paramsEq'
        else:
            err('%s: unrecognised arm body `%s`' % (what, txt(body)))
        if res != '.paramsEq' and (bl is not None or br is not None):
            pass    # bound but unused: the arm ignores the parameter (kept as binding patterns)
        eq_arms.append((l, r, res))
    # Display
    what = rel_codes + ': <Codes as Display>::fmt'
    a, b = impl_of(tc, ic, 'Display', 'Codes', rel_codes, count=1)
    f, _ = items_of(tc, a, b)
    if 'fmt' not in f:
        err('%s not found' % what)
    sig, o, c = f['fmt']
    ps = params_of(sig)
    if len(ps) != 2 or ps[0] != 'self':
        err('%s: unexpected parameters' % what)
    m, mo, mc = find_match(tc, o, c, ['self'], what)
    if wrapper_of(tc, o, c, m, mc) != ['<MATCH>']:
        err('%s: unrecognised code around the match' % what)
    display = []
    for pat, body, block in arms_of(tc, mo, mc, what):
        pats, bound = parse_code_pats(pat, variants, what)
        if not (len(body) >= 7 and texts(body[:5]) == ['write', '!', '(', ps[1], ','] and body[5][0] == 'str'
                and body[-1] == ('p', ')') and match_close(body, 2) == len(body) - 1):
            err('%s: unrecognised arm body `%s`' % (what, txt(body)))
        fmt = body[5][1]
        args = []
        rest_args = body[6:-1]
        if rest_args:
            if rest_args[0] != ('p', ','):
                err('%s: unrecognised arm body `%s`' % (what, txt(body)))
            rest_args = rest_args[1:]
        for part in split_top(rest_args):
            if len(part) == 1 and part[0][0] == 'id' and bound is not None and part[0][1] == bound:
                args.append(('param',))
            else:
                err('%s: unrecognised format argument `%s`' % (what, txt(part)))
        rest = fmt.replace('{}', '')
        if '{' in rest or '}' in rest or fmt.count('{}') != len(args):
            err('%s: unrecognised format string %r' % (what, fmt))
        display.append((pats, fmt, args))
    # FromStr
    what = rel_codes + ': <Codes as FromStr>::from_str'
    a, b = impl_of(tc, ic, 'FromStr', 'Codes', rel_codes, count=1)
    f, _ = items_of(tc, a, b)
    if 'from_str' not in f:
        err('%s not found' % what)
    sig, o, c = f['from_str']
    ps = params_of(sig)
    if len(ps) != 1:
        err('%s: unexpected parameters' % what)
    if ps[0] != 's':
        err('%s: parameter is not called `s`' % what)
    m, mo, mc = find_match(tc, o, c, ['s'], what)
    if wrapper_of(tc, o, c, m, mc) != ['<MATCH>']:
        err('%s: unrecognised code around the match' % what)
    lit, par = [], []
    arms = arms_of(tc, mo, mc, what)
    for n, (pat, body, block) in enumerate(arms):
        if len(pat) == 1 and pat[0][0] == 'str':
            if not (len(body) >= 4 and texts(body[:2]) == ['Ok', '('] and body[-1] == ('p', ')')):
                err('%s: unrecognised arm body `%s`' % (what, txt(body)))
            lit.append((pat[0][1], parse_mk(body[2:-1], variants, None, what)))
        elif texts(pat) == ['_'] and n == len(arms) - 1 and block:
            # the parametric form: the statements before the inner match must be the known ones
            inner = None
            for j in range(len(body)):
                if body[j] == ('id', 'match'):
                    inner = j
                    break
            if inner is None:
                err('%s: inner match not found' % what)
            io = inner + 2
            if texts(body[inner + 1:io]) != ['name'] or body[io] != ('p', '{') or match_close(body, io) != len(body) - 1:
                err('%s: unrecognised inner match' % what)
            got = norm(body[:inner]) + [('id', '<MATCH>')]
            want = norm([x for x in tokenize(FROMSTR_TEMPLATE.replace('<MATCH>', 'MATCHPLACEHOLDER'))])
            want = [('id', '<MATCH>') if x == ('id', 'MATCHPLACEHOLDER') else x for x in want]
            if got != want:
                err('%s: the statements splitting the text are not the recognised ones: %s' % (what, txt(body[:inner])))
            for pat2, body2, block2 in arms_of(body, io, len(body) - 1, what):
                if len(pat2) == 1 and pat2[0][0] == 'str':
                    if not (len(body2) >= 4 and texts(body2[:2]) == ['Ok', '('] and body2[-1] == ('p', ')')):
                        err('%s: unrecognised arm body `%s`' % (what, txt(body2)))
                    mk = parse_mk(body2[2:-1], variants, 'k', what)
                    if mk[1] != ('param',):
                        err('%s: parametric arm `%s` does not parse its parameter' % (what, pat2[0][1]))
                    par.append((pat2[0][1], mk))
                elif texts(pat2) == ['_'] and is_refusal(body2) and texts(body2)[:4] == ['Err', '(', 'CodeError', '::'] and texts(body2)[4] == 'UnknownCode':
                    par.append((None, None))
                else:
                    err('%s: unrecognised inner arm `%s`' % (what, txt(pat2)))
        else:
            err('%s: unrecognised arm `%s`' % (what, txt(pat)))
    if not par or par[-1] != (None, None):
        err('%s: inner match has no final wildcard arm' % what)
    # the error conversion `?` on `k.parse()` must be From<ParseIntError> -> ParseError
    a, b = impl_of(tc, ic, 'From', 'CodeError', rel_codes, count=1)
    f, _ = items_of(tc, a, b)
    if 'from' not in f or texts(tc[f['from'][1] + 1:f['from'][2]]) != ['CodeError', '::', 'ParseError', '(', params_of(f['from'][0])[0], ')']:
        err('%s: From<ParseIntError> for CodeError is not the recognised one' % rel_codes)

    out = [HEADER.rstrip('\n'),
           '-- (this file: tools/translate_dispatch.py; data only, the meaning is in Dsi/Glue/CodesText.lean)',
           'import Dsi.Glue.DispatchTypes', 'namespace Dsi.Gen.CodesText', 'open Dsi', '']
    out.append(ldef('toCodeConst', 'List (List Pat × Option String)', ['(%s, %s)' % (lpats(p), lopt_str(n)) for p, n in to_const]))
    out.append(ldef('fromCodeConst', 'List (List CPat × Option Mk)', ['(%s, %s)' % (lcpats(p), lmk(mk)) for p, mk in from_const]))
    out.append(ldef('eqArms', 'List (List Pat × List Pat × EqRes)', ['(%s, %s, %s)' % (lpats(l), lpats(r), res) for l, r, res in eq_arms]))
    out.append(ldef('display', 'List (List Pat × String × List Arg)', ['(%s, %s, %s)' % (lpats(p), lstr(fm), largs(ar)) for p, fm, ar in display]))
    out.append('/-- `FromStr`: the literal arms -/')
    out.append(ldef('fromStrLiteral', 'List (String × Option Mk)', ['(%s, %s)' % (lstr(s), lmk(mk)) for s, mk in lit]))
    out.append('/-- `FromStr`: the arms on the name before `(`; key `none` = the wildcard arm -/')
    out.append(ldef('fromStrParam', 'List (Option String × Option Mk)', ['(%s, %s)' % (lopt_str(s), lmk(mk)) for s, mk in par]))
    out.append('\nend Dsi.Gen.CodesText\n')
    if write_if_changed('CodesText.lean', '\n'.join(out)):
        changed.append('CodesText')
    return changed
