#!/usr/bin/env python3
"""Translator for the METHOD BODIES of `BufBitReader` (src/impls/buf_bit_reader.rs)
-> lean/Dsi/Gen/BufReaderBodies.lean.

Every run re-reads the Rust source and emits, statement by statement (same names, same order), for
XX in {be, le} the Lean definitions (namespace Dsi.Gen.BufR)

    refill_XX               (s : BufR W)                       : Res (BufR W)
    peek_bits_XX            (s : BufR W) (n_bits : Nat)        : Res (BitVec (2 * W) × BufR W)
    skip_bits_after_peek_XX (s : BufR W) (n_bits : Nat)        : Res (BufR W)      (always `ok`)
    read_bits_XX            (s : BufR W) (n_bits : Nat)        : Res (BitVec 64 × BufR W)
    read_unary_XX           (s : BufR W)                       : Res (BitVec 64 × BufR W)
    skip_bits_XX            (s : BufR W) (n_bits : Nat)        : Res (BufR W)
    bit_pos_XX              (s : BufR W)                       : Res (BitVec 64 × BufR W)
    set_bit_pos_XX          (s : BufR W) (bit_index : BitVec 64) : Res (BufR W)

which lean/Dsi/Props/BufReaderGen.lean proves EQUAL to the hand-written model
(lean/Dsi/Impl/BufReader.lean).  A change of the Rust bodies therefore either changes nothing that
matters (the equalities are re-proved), or breaks a named theorem, or is refused here.

The parser and the statement/expression engine are tools/rsbody.py (shared with translate_bufw.py;
see there for the statements and operators understood).  Specific to the reader:

  types        WR::Word -> BitVec W,  BB<WR> (the double-width buffer) -> BitVec (2 * W),
               u64 -> BitVec 64, usize / u32 / u8 -> Nat
  constants    WR::Word::{BITS,ZERO,ONE,MAX}, BB::<WR>::{BITS,ZERO,ONE}, Self::PeekWord::BITS
               (`type PeekWord = BB<WR>;` is read from the same impl)
  conversions  x.upcast(), UpcastableInto::<BB<WR>>::upcast(x), x.downcast(), x.cast()
               -> BitVec.setWidth (the target is the annotated type of the `let` / the assigned
               variable; `.cast()` of the buffer is `u64`, the only `CastableInto` bound)
               x.leading_zeros() / x.trailing_zeros() -> the model's BufR.clz / BufR.ctz
  backend      self.backend.read_word()?.to_be()/.to_le()  -> MemR.readWord: the outcome of a failed
               read is the function's outcome, otherwise `s.back` is replaced and the value is the
               word (`to_be` only in the BE bodies, `to_le` only in the LE bodies: they are the
               identity on the logical words the model stores); at most one per statement;
               `let _ = self.backend.read_word()?;` needs no conversion
               self.backend.word_pos()?          -> MemR.wordPos as a u64 (never fails in the model)
               self.backend.set_word_pos(k)?;    -> MemR.setWordPos
               self.refill()?;                   -> the translated `refill_XX`
  loops        the fuel of each `while` / `loop` is the one the hand model uses (table FNS below):
               64 for the word loops of `read_bits`, the value of `n_bits` at loop entry for
               `skip_bits`, `s.back.data.length + 2 - s.back.pos` for the `loop` of `read_unary`

What the types do NOT model (as in the hand model): overflow of `usize` arithmetic (`Nat`, truncated
subtraction) and over-wide shift amounts (Lean shifts give 0); `u64` arithmetic is modelled exactly
(`BitVec 64`), which is why some equalities need a "fits 64 bits" hypothesis.
"""
import os, sys
sys.path.insert(0, os.path.dirname(os.path.abspath(__file__)))
from rstok import tokenize
import rsbody
from rsbody import err, Parser, find_fn, find_assoc_type, parse_sig, FnBase, lname, lean_ty, unparen, BV

REL = 'src/impls/buf_bit_reader.rs'
STRUCT = 'BufBitReader'

# (rust fn, impl, parameter types, returned type, fuel of each while/loop in order)
FNS = [
    ('refill', 'inherent', [], 'UNIT', []),
    ('peek_bits', 'BitRead', ['USZ'], 'BB', []),
    ('skip_bits_after_peek', 'BitRead', ['USZ'], 'NONE', []),
    ('read_bits', 'BitRead', ['USZ'], 'U64', [('lit', '64')]),
    ('read_unary', 'BitRead', [], 'U64', [('lean', 's.back.data.length + 2 - s.back.pos')]),
    ('skip_bits', 'BitRead', ['USZ'], 'UNIT', [('var', 'n_bits')]),
    ('bit_pos', 'BitSeek', [], 'U64', []),
    ('set_bit_pos', 'BitSeek', ['U64'], 'UNIT', []),
]


def is_backend_call(e, selfname, name, field='backend'):
    return (e[0] == 'mcall' and e[1] == ('fld', ('var', selfname), field) and e[2] == name)


class Fn(FnBase):
    STATE = 'BufR W'
    ALLOW_MUL = True
    RUST_BACK = 'backend'        # the Rust field holding the word reader
    LEAN_BACK = 'back'           # .. and the model's
    WORD = 'W'                   # type of the words it yields

    def __init__(self, what, endian, selfname, params, ret, fuels, assoc):
        FnBase.__init__(self, what, endian, selfname, params)
        self.RET = ret
        self.fuels = list(fuels)
        self.assoc = assoc
        self.reads = 0

    def field(self, name):
        if name == 'buffer':
            return 'buffer', 'BB'
        if name == 'bits_in_buffer':
            return 'bib', 'USZ'
        return None

    def path(self, segs):
        if segs[:2] == ['WR', 'Word'] and len(segs) == 3:
            c = segs[2]
            if c == 'BITS':
                return 'W', 'USZ'
            if c == 'MAX':
                return '(BitVec.allOnes W)', 'W'
            if c == 'ONE':
                return '(1 : BitVec W)', 'W'
            if c == 'ZERO':
                return '(0 : BitVec W)', 'W'
        dbl = None
        if segs[:2] == ['BB', '<WR>'] and len(segs) == 3:
            dbl = segs[2]
        if segs[:2] == ['Self', 'PeekWord'] and len(segs) == 3:
            if self.assoc.get('PeekWord') != 'BB':
                err('%s: Self::PeekWord is not known to be BB<WR>' % self.what)
            dbl = segs[2]
        if dbl == 'BITS':
            return '(2 * W)', 'USZ'
        if dbl == 'ZERO':
            return '(0 : BitVec (2 * W))', 'BB'
        if dbl == 'ONE':
            return '(1 : BitVec (2 * W))', 'BB'
        return None

    def method(self, recv, name, args, env, want):
        if name in ('upcast', 'downcast') and not args:
            t, ty = self.ex(recv, env)
            if want is None:
                err('%s: .%s() where the target type is not given by an annotation' % (self.what, name))
            ok = (ty == 'W' and want in ('U64', 'BB')) if name == 'upcast' else (ty == 'U64' and want == 'U64')
            if not ok:
                err('%s: .%s() from %s to %s' % (self.what, name, ty, want))
            return '(%s.setWidth %s)' % (t, BV[want]), want
        if name == 'cast' and not args:
            t, ty = self.ex(recv, env)
            if ty != 'BB':
                err('%s: .cast() on a value of type %s' % (self.what, ty))
            return '(%s.setWidth 64)' % t, 'U64'
        if name in ('leading_zeros', 'trailing_zeros') and not args:
            t, ty = self.ex(recv, env)
            if ty not in ('W', 'BB', 'U64'):
                err('%s: .%s() on a value of type %s' % (self.what, name, ty))
            return '(BufR.%s %s)' % ('clz' if name == 'leading_zeros' else 'ctz', t), 'U32'
        return None

    def call(self, segs, args, env, want):
        if segs == ['UpcastableInto', '<BB<WR>>', 'upcast'] and len(args) == 1:
            t, ty = self.ex(args[0], env)
            if ty != 'W':
                err('%s: UpcastableInto::<BB<WR>>::upcast of a value of type %s' % (self.what, ty))
            return '(%s.setWidth (2 * W))' % t, 'BB'
        return None

    def ann_type(self, ann):
        if ann == 'BB<WR>':
            return 'BB'
        return FnBase.ann_type(self, ann)

    # ---- effects
    def is_read(self, e):
        return e[0] == 'try' and is_backend_call(e[1], self.selfname, 'read_word', self.RUST_BACK) and not e[1][3]

    def effects(self, e, env, ind, discard=False):
        L = self.lines
        found = []

        def bind_read():
            found.append(1)
            if len(found) > 1:
                err('%s: two backend reads in one statement' % self.what)
            L.append('%sRes.bind s.%s.readWord fun rw =>' % (ind, self.LEAN_BACK))
            L.append('%slet s : %s := { s with %s := rw.2 }' % (ind, self.STATE, self.LEAN_BACK))
            return ('tmp', 'rw.1', self.WORD)

        def walk(x, top=False):
            if not isinstance(x, tuple):
                return x
            if x[0] == 'mcall' and x[2] in ('to_be', 'to_le') and not x[3] and self.is_read(x[1]):
                if x[2] != 'to_' + self.endian:
                    err('%s: .%s() in the %s implementation' % (self.what, x[2], self.endian.upper()))
                return bind_read()
            if self.is_read(x):
                if top and discard:
                    return bind_read()
                err('%s: self.backend.read_word()? without .to_%s()' % (self.what, self.endian))
            if x[0] == 'try' and is_backend_call(x[1], self.selfname, 'word_pos', self.RUST_BACK) and not x[1][3]:
                return ('tmp', '(BitVec.ofNat 64 s.%s.wordPos)' % self.LEAN_BACK, 'U64')
            if x[0] in ('num', 'var', 'path', 'tmp', 'unit'):
                return x
            out = [x[0]]
            for c in x[1:]:
                if isinstance(c, tuple):
                    out.append(walk(c))
                elif isinstance(c, list) and x[0] in ('mcall', 'call') and c is x[-1]:
                    out.append([walk(y) for y in c])
                else:
                    out.append(c)
            return tuple(out)

        r = walk(e, True)
        if discard and not found:
            err('%s: `let _ = ..` without an effect' % self.what)
        return r

    def touches(self, e):
        if not isinstance(e, tuple):
            return False
        if e[0] == 'try' and e[1][0] == 'mcall':
            m = e[1]
            if m[1] == ('fld', ('var', self.selfname), self.RUST_BACK) and m[2] in ('read_word', 'set_word_pos'):
                return True
            if m[1] == ('var', self.selfname) and m[2] == 'refill':
                return True
        for c in e[1:]:
            if isinstance(c, tuple) and self.touches(c):
                return True
            if isinstance(c, list) and any(self.touches(y) for y in c if isinstance(y, tuple)):
                return True
        return False

    def expr_stmt(self, st, env, ind):
        L = self.lines
        e = st[1]
        if e[0] != 'try' or e[1][0] != 'mcall':
            return False
        m = e[1]
        if m[1] == ('var', self.selfname) and m[2] == 'refill' and not m[3]:
            L.append('%s-- %s' % (ind, st[2]))
            L.append('%sRes.bind (refill_%s s) fun s =>' % (ind, self.endian))
            return True
        if is_backend_call(m, self.selfname, 'set_word_pos', self.RUST_BACK) and len(m[3]) == 1:
            L.append('%s-- %s' % (ind, st[2]))
            k = self.typed(m[3][0], env, 'U64', 'the word position')
            L.append('%sRes.bind (s.%s.setWordPos %s.toNat) fun bk =>' % (ind, self.LEAN_BACK, k))
            L.append('%slet s : %s := { s with %s := bk }' % (ind, self.STATE, self.LEAN_BACK))
            return True
        return False

    def fuel(self, kind, env):
        if not self.fuels:
            err('%s: no fuel is configured for this `%s`' % (self.what, kind))
        k, x = self.fuels.pop(0)
        if k == 'var':
            if env.get(x) != 'USZ':
                err('%s: the fuel variable `%s` is not a usize in scope' % (self.what, x))
            return lname(x)
        if k == 'lit':
            return x
        return '(%s)' % x


def parse_ret(ret, assoc, what):
    if not ret:
        return 'NONE'
    if ret[:3] != ['->', 'Result', '<']:
        err('%s: return type is not a Result' % what)
    depth, j = 0, 3
    while j < len(ret):
        x = ret[j]
        if x in ('<', '('):
            depth += 1
        elif x in ('>', ')'):
            depth -= 1
        elif x == ',' and depth == 0:
            break
        j += 1
    t = ret[3:j]
    if t == ['u64']:
        return 'U64'
    if t == ['(', ')']:
        return 'UNIT'
    if t == ['Self', '::', 'PeekWord'] and assoc.get('PeekWord') == 'BB':
        return 'BB'
    err('%s: unsupported return type `%s`' % (what, ' '.join(t)))


def lean_ret(ret):
    if ret in ('UNIT', 'NONE'):
        return 'Res (BufR W)'
    return 'Res (%s × BufR W)' % lean_ty(ret)


def translate_fn(toks, sig, o, c, what, endian, lean_name, expect_params, expect_ret, fuels, assoc):
    selfname, params, ret = parse_sig(sig, what)
    if selfname != 'self':
        err('%s: no `&mut self` receiver' % what)
    if [t for _, t in params] != expect_params:
        err('%s: parameters %r, expected types %r' % (what, params, expect_params))
    r = parse_ret(ret, assoc, what)
    if r != expect_ret:
        err('%s: returns %s, expected %s' % (what, r, expect_ret))
    body = Parser(toks[o:c + 1], what).block()
    make = lambda: Fn(what, endian, selfname, params, 'UNIT' if r == 'NONE' else r, fuels, assoc)
    if r == 'NONE':
        f = Fn.run(make, body, dict(params), 'Res.ok s', False)
    else:
        f = Fn.run(make, body, dict(params), None, True)
    if f.fuels:
        err('%s: %d configured loop fuel(s) unused (a loop disappeared)' % (what, len(f.fuels)))
    ps = ''.join(' (%s : %s)' % (lname(n), lean_ty(t)) for n, t in params)
    head = ['/-- `%s` -/' % what,
            'def %s (s : BufR W)%s : %s :=' % (lean_name, ps, lean_ret(r))]
    return '\n'.join(head + f.lines) + '\n'


def find_impls(toks, E):
    inh = rsbody.find_impl(toks, lambda t: ('> %s < %s ,' % (STRUCT, E)) in t and ' for ' not in t,
                           'inherent impl %s<%s, ..>' % (STRUCT, E))
    br = rsbody.find_impl(toks, 'BitRead < %s > for %s < %s ,' % (E, STRUCT, E), 'impl BitRead<%s> for %s' % (E, STRUCT))
    bs = rsbody.find_impl(toks, 'BitSeek for %s < %s ,' % (STRUCT, E), 'impl BitSeek for %s<%s, ..>' % (STRUCT, E))
    return {'inherent': (inh, 'impl %s<%s, ..>' % (STRUCT, E)),
            'BitRead': (br, 'impl BitRead<%s> for %s' % (E, STRUCT)),
            'BitSeek': (bs, 'impl BitSeek for %s<%s, ..>' % (STRUCT, E))}


def generate(src):
    rsbody.Ctx.rel = REL
    toks = tokenize(src(REL))
    # the double-width alias the bodies use
    seen = 0
    want = ['type', 'BB', '<', 'WR', '>', '=', '<<', 'WR', 'as', 'WordRead', '>', '::', 'Word', 'as', 'DoubleType', '>', '::', 'DoubleType', ';']
    txt = [x for _, x in toks]
    for i in range(len(txt) - len(want) + 1):
        if txt[i:i + len(want)] == want:
            seen += 1
    if seen != 1:
        err('the alias `type BB<WR> = <<WR as WordRead>::Word as DoubleType>::DoubleType;` was not found')
    defs = []
    for endian, E in (('be', 'BE'), ('le', 'LE')):
        impls = find_impls(toks, E)
        (o, c), w = impls['BitRead']
        pw = find_assoc_type(toks, o + 1, c, 'PeekWord', w)
        if pw != ['BB', '<', 'WR', '>']:
            err('%s: `type PeekWord` is not BB<WR>' % w)
        assoc = {'PeekWord': 'BB'}
        for name, impl, ptypes, ret, fuels in FNS:
            (o, c), w = impls[impl]
            sig, bo, bc = find_fn(toks, o + 1, c, name, w)
            defs.append(translate_fn(toks, sig, bo, bc, '%s::%s' % (w, name), endian, '%s_%s' % (name, endian),
                                     ptypes, ret, fuels, assoc))
    return defs


def main(write_if_changed, HEADER, src, TranslateError):
    rsbody.Ctx.TE = TranslateError
    rsbody.Ctx.rel = REL
    head = [HEADER.rstrip('\n'),
            '-- Source: %s, method bodies translated statement by statement by tools/translate_bufr.py.' % REL,
            'import Dsi.Impl.BufReader',
            'import Dsi.Impl.GenPrelude',
            'namespace Dsi.Gen.BufR',
            'open Dsi',
            'variable {W : Nat}',
            'set_option linter.unusedVariables false',
            '']
    try:
        defs = generate(src)
    except TranslateError as ex:
        # fail closed on the proof leg too (see translate_bufw.py): no stale definitions
        write_if_changed('BufReaderBodies.lean', '\n'.join(
            head + ['-- TRANSLATION FAILED: %s' % str(ex).replace('\n', ' '), '', 'end Dsi.Gen.BufR\n']))
        raise
    changed = write_if_changed('BufReaderBodies.lean', '\n'.join(head + defs + ['end Dsi.Gen.BufR\n']))
    return ['BufReaderBodies'] if changed else []


if __name__ == '__main__':
    import translate
    rsbody.Ctx.TE = translate.TranslateError
    try:
        print('\n'.join(generate(translate.src)) if '--print' in sys.argv else main(translate.write_if_changed, translate.HEADER, translate.src, translate.TranslateError))
    except translate.TranslateError as ex:
        print('translate: ERROR: %s' % ex)
        sys.exit(3)
