#!/usr/bin/env python3
"""Translator for the `std::io` views of the bit streams -> lean/Dsi/Gen/IOBodies.lean:

  * `impl std::io::Write for BufBitWriter<BE/LE, ..>::write`   (src/impls/buf_bit_writer.rs)
        Dsi.Gen.IO.write_{be,le} (W : Nat) {ω} (wi : WImpl ω) (w : ω) (buf : List Nat) : Res (Nat × ω)
  * `impl std::io::Read for BufBitReader<BE/LE, ..>::read`     (src/impls/buf_bit_reader.rs)
    `impl std::io::Read for BitReader<BE/LE, ..>::read`        (src/impls/bit_reader.rs)
        Dsi.Gen.IO.read_{bufr,bitr}_{be,le} (W : Nat) {ρ} (ri : RImpl ρ) (r : ρ) (buf : List Nat)
                                            : Res (Nat × List Nat × ρ)      (count, the buffer, reader)

The bodies only use the bit interface of `self` (`self.write_bits`, `self.read_bits`), so `self` is a
state known through its interface (`wi : WImpl ω` / `ri : RImpl ρ`), exactly the setting in which
the hand-written programs `ioWrite` / `ioRead` (lean/Dsi/IOView.lean) are run; lean/Dsi/Props/IOGen.lean
proves the translated bodies EQUAL to `(ioWrite e 8 buf).run wi w` / `(ioRead e buf.length).run ri r`.

Engine: tools/rsbody.py; parser: tools/rsbodyx.py (+ string literals).  The byte-slice vocabulary
(bytes are `Nat`s, slices `List Nat`; prelude lean/Dsi/Impl/GenSlices.lean):

  buf.chunks_exact(k)                     -> chunksExact k buf buf.length      (chunks, remainder)
  for x in &mut iter { .. }               -> forEachN iter.1 ..
  iter.remainder()                        -> iter.2
  sl.len(), sl.is_empty()                 -> sl.length, sl.isEmpty = true
  for b in sl.iter() / sl.iter().rev()    -> forEachN sl / sl.reverse ..      (`*b` is the byte)
  uN::from_be_bytes(sl.try_into().unwrap()) / from_le_bytes
                                          -> arrOf (N/8) sl (panics unless N/8 bytes), beVal / leVal
  x.to_be_bytes() / x.to_le_bytes()       -> beBytes x 8 / leBytes x 8        (x : u64)
  e[a..], e[..b], e[a..b]                 -> sliceRange (panics out of range)
  buf.chunks_exact_mut(k)                 -> windows (offset, length) into `buf`; the iterator is `k`
  for c in &mut iter { .. }               -> forRange 0 (buf.length / k) ..  with c = (i * k, k)
  iter.into_remainder()                   -> ((buf.length / k) * k, buf.length % k)
  win.copy_from_slice(&src);              -> sliceCopy buf off len src        (panics on a length mismatch)
  self.write_bits(v, n).map_err(|_| E)?;  -> wi.writeBits w v.toNat n
  self.read_bits(n).map_err(|_| E)?       -> ri.readBits r n, a u64
  WW::Word::BITS / WR::Word::BITS         -> W
The error E of a `map_err` must be an `std::io::Error::new(std::io::ErrorKind::K, ..)` or a bare
`std::io::ErrorKind::K`; the kind is not part of the model (`ioWrite` / `ioRead` propagate the error of
the interface), so it does not appear in the output.
"""
import os, sys
sys.path.insert(0, os.path.dirname(os.path.abspath(__file__)))
from rstok import tokenize
import rsbody
from rsbody import err, find_fn, FnBase, lname, unparen, PRIM2TY
from translate_mem import StrParser, io_err_kind

REL_W = 'src/impls/buf_bit_writer.rs'
REL_R = 'src/impls/buf_bit_reader.rs'
REL_B = 'src/impls/bit_reader.rs'
OUT = 'IOBodies.lean'
EXTRA_RESERVED = {'w', 'wi', 'ww', 'r', 'ri', 'rr', 'arr', 'sl'}
EXTRA_TY = {'BYTES': 'List Nat', 'CHUNKS': 'List (List Nat) × List Nat', 'CHUNKSMUT': 'Nat', 'MUTSLICE': 'Nat × Nat'}
INT_BYTES = {'u8': 1, 'u16': 2, 'u32': 4, 'u64': 8, 'u128': 16}

_base_lean_ty = rsbody.lean_ty


def lean_ty(t):
    if t in EXTRA_TY:
        return EXTRA_TY[t]
    return _base_lean_ty(t)


def atom(t):
    return t if t.replace('.', '').replace('_', '').replace("'", '').isalnum() else '(%s)' % unparen(t)


class IOFn(FnBase):
    ALLOW_MUL = True
    RET = 'USZ'

    def __init__(self, what, selfname, params, kind, buf):
        FnBase.__init__(self, what, None, selfname, params)
        self.kind, self.buf = kind, buf
        self.STATES = ('w',) if kind == 'w' else (lname(buf), 'r')

    @classmethod
    def run(cls, make, body, env, fall, can_return):
        # `let mut word = 0; word <<= 8; word |= *byte as u64;`: the type of an untyped literal is taken
        # from an assignment `x op= <e as T>` anywhere in the body (the base engine only learns it from
        # the first use, and a shift does not tell)
        seeds = {}

        def scan(stmts):
            for st in stmts:
                if st[0] == 'assign' and st[1][0] == 'var' and st[3][0] == 'as' and st[3][2] in PRIM2TY:
                    seeds.setdefault(st[1][1], PRIM2TY[st[3][2]])
                for c in st[1:]:
                    if isinstance(c, list) and c and isinstance(c[0], tuple) and isinstance(c[0][0], str) and c[0][0] in (
                            'let', 'assign', 'if', 'for', 'forin', 'while', 'loop', 'expr', 'tail', 'return', 'match'):
                        scan(c)
        scan(body)

        def make2():
            f = make()
            f.seeds = seeds
            return f
        return super(IOFn, cls).run(make2, body, env, fall, can_return)

    # ---- expressions
    def path(self, segs):
        if segs in (['WW', 'Word', 'BITS'], ['WR', 'Word', 'BITS']):
            return 'W', 'USZ'
        return None

    def ex(self, e, env, want=None):
        k = e[0]
        if k == 'ref':
            return self.ex(e[1], env, want)
        if k == 'deref':
            t, ty = self.ex(e[1], env, want)
            if ty != 'U8':
                err('%s: `*` applied to a value of type %s' % (self.what, ty))
            return t, ty
        if k in ('index', 'slice', 'closure', 'macro', 'str'):
            err('%s: unsupported expression (%s)' % (self.what, k))
        return FnBase.ex(self, e, env, want)

    def method(self, recv, name, args, env, want):
        if name in ('try_into', 'unwrap', 'iter', 'rev', 'map_err', 'copy_from_slice'):
            err('%s: .%s() in an unsupported position' % (self.what, name))
        t, ty = self.ex(recv, env)
        if ty == 'BYTES':
            if name == 'len' and not args:
                return '%s.length' % atom(t), 'USZ'
            if name == 'is_empty' and not args:
                return '(%s.isEmpty = true)' % atom(t), 'BOOL'
            if name == 'chunks_exact' and len(args) == 1 and self.kind == 'w':
                k = self.typed(args[0], env, 'USZ', 'the chunk size')
                return '(chunksExact %s %s %s.length)' % (k, atom(t), atom(t)), 'CHUNKS'
            if name == 'chunks_exact_mut' and len(args) == 1 and self.kind == 'r' and recv == ('var', self.buf):
                return self.typed(args[0], env, 'USZ', 'the chunk size'), 'CHUNKSMUT'
        if ty == 'CHUNKS' and name == 'remainder' and not args:
            return '%s.2' % atom(t), 'BYTES'
        if ty == 'CHUNKSMUT' and name == 'into_remainder' and not args:
            b = lname(self.buf)
            return '(Prod.mk ((%s.length / %s) * %s) (%s.length %% %s))' % (b, t, t, b, t), 'MUTSLICE'
        if ty == 'MUTSLICE':
            if name == 'len' and not args:
                return '%s.2' % atom(t), 'USZ'
            if name == 'is_empty' and not args:
                return '(%s.2 = 0)' % atom(t), 'BOOL'
        if ty == 'U64' and name in ('to_be_bytes', 'to_le_bytes') and not args:
            return '(%s %s.toNat 8)' % ('beBytes' if name == 'to_be_bytes' else 'leBytes', atom(t)), 'BYTES'
        err('%s: unsupported method `.%s(..)` on a value of type %s' % (self.what, name, ty))

    # ---- effects
    def mapped(self, e, name, nargs):
        """args for `self.<name>(args).map_err(|_| E)?`, else None"""
        if e[0] == 'try' and e[1][0] == 'mcall' and e[1][2] == 'map_err' and len(e[1][3]) == 1:
            x, cl = e[1][1], e[1][3][0]
            if x[0] == 'mcall' and x[1] == ('var', self.selfname) and x[2] == name and len(x[3]) == nargs:
                if cl[0] != 'closure' or cl[1] != ['_']:
                    err('%s: the argument of map_err is not a closure `|_| ..`' % self.what)
                io_err_kind(cl[2], self.what)
                return x[3]
        return None

    def from_bytes(self, x):
        """(byte count, 'beVal'|'leVal', slice expr) for `uN::from_XX_bytes(sl.try_into().unwrap())`"""
        if (x[0] == 'call' and len(x[1]) == 2 and x[1][0] in INT_BYTES and x[1][1] in ('from_be_bytes', 'from_le_bytes')
                and len(x[2]) == 1):
            a = x[2][0]
            if (a[0] == 'mcall' and a[2] == 'unwrap' and not a[3] and a[1][0] == 'mcall' and a[1][2] == 'try_into'
                    and not a[1][3]):
                if x[1][0] != 'u64':
                    err('%s: %s::%s is not a u64' % (self.what, x[1][0], x[1][1]))
                return INT_BYTES[x[1][0]], 'beVal' if x[1][1] == 'from_be_bytes' else 'leVal', a[1][1]
            err('%s: the argument of %s is not `<slice>.try_into().unwrap()`' % (self.what, x[1][1]))
        return None

    def effects(self, e, env, ind, discard=False):
        L = self.lines
        found = []

        def once():
            found.append(1)
            if len(found) > 1:
                err('%s: two effects in one statement' % self.what)

        def walk(x):
            if not isinstance(x, tuple) or x[0] in ('num', 'var', 'path', 'tmp', 'unit', 'str', 'macro'):
                return x
            fb = self.from_bytes(x)
            if fb is not None:
                n, val, sl = fb
                t = self.typed(walk(sl), env, 'BYTES', 'the converted slice')
                once()
                L.append('%sRes.bind (arrOf %d %s) fun arr =>' % (ind, n, atom(t)))
                return ('tmp', '(BitVec.ofNat 64 (%s arr))' % val, 'U64')
            if x[0] == 'slice':
                t = self.typed(walk(x[1]), env, 'BYTES', 'the sliced value')
                lo = '0' if x[2] is None else self.typed(walk(x[2]), env, 'USZ', 'the lower bound')
                hi = '%s.length' % atom(t) if x[3] is None else self.typed(walk(x[3]), env, 'USZ', 'the upper bound')
                once()
                L.append('%sRes.bind (sliceRange %s %s %s) fun sl =>' % (ind, atom(t), atom(lo), atom(hi)))
                return ('tmp', 'sl', 'BYTES')
            if x[0] == 'try':
                a = self.mapped(x, 'read_bits', 1) if self.kind == 'r' else None
                if a is None:
                    err('%s: unsupported `?` expression' % self.what)
                k = self.typed(walk(a[0]), env, 'USZ', 'the number of bits read')
                once()
                L.append('%sRes.bind (ri.readBits r %s) fun rr =>' % (ind, atom(k)))
                L.append('%slet r := rr.2' % ind)
                return ('tmp', '(BitVec.ofNat 64 rr.1)', 'U64')
            out = [x[0]]
            for c in x[1:]:
                if isinstance(c, tuple):
                    out.append(walk(c))
                elif isinstance(c, list) and x[0] in ('mcall', 'call') and c is x[-1]:
                    out.append([walk(y) for y in c])
                else:
                    out.append(c)
            return tuple(out)
        return walk(e)

    def touches(self, e):
        out = set()

        def walk(x):
            if not isinstance(x, tuple):
                return
            if x[0] == 'try':
                if self.kind == 'w' and self.mapped(x, 'write_bits', 2) is not None:
                    out.add('w')
                if self.kind == 'r' and self.mapped(x, 'read_bits', 1) is not None:
                    out.add('r')
            if x[0] == 'mcall' and x[2] == 'copy_from_slice':
                out.add(lname(self.buf))
            for c in x[1:]:
                if isinstance(c, tuple):
                    walk(c)
                elif isinstance(c, list):
                    for y in c:
                        walk(y)
        walk(e)
        return out

    def expr_stmt(self, st, env, ind):
        L = self.lines
        e = st[1]
        if self.kind == 'w':
            a = self.mapped(e, 'write_bits', 2)
            if a is None:
                return False
            L.append('%s-- %s' % (ind, st[2]))
            a0 = self.effects(a[0], env, ind)
            v = self.typed(a0, env, 'U64', 'the written value')
            k = self.typed(a[1], env, 'USZ', 'the number of bits written')
            L.append('%sRes.bind (wi.writeBits w %s.toNat %s) fun ww =>' % (ind, atom(v), atom(k)))
            L.append('%slet w := ww.2' % ind)
            return True
        if e[0] == 'mcall' and e[2] == 'copy_from_slice' and len(e[3]) == 1 and e[1][0] == 'var':
            t, ty = self.ex(e[1], env)
            if ty != 'MUTSLICE':
                err('%s: copy_from_slice on a value of type %s' % (self.what, ty))
            L.append('%s-- %s' % (ind, st[2]))
            src = e[3][0]
            if src[0] != 'ref':
                err('%s: the argument of copy_from_slice is not a reference' % self.what)
            src = self.effects(src[1], env, ind)
            s = self.typed(src, env, 'BYTES', 'the copied slice')
            b = lname(self.buf)
            L.append('%sRes.bind (sliceCopy %s %s.1 %s.2 %s) fun %s =>' % (ind, b, atom(t), atom(t), atom(s), b))
            return True
        return False

    # ---- statements
    def assigned(self, stmts, local=frozenset()):
        conv = []
        for st in stmts:
            if st[0] == 'forin':
                conv.append(('for', st[2], st[3], st[4]))
            else:
                conv.append(st)
        return FnBase.assigned(self, conv, local)

    def emit(self, stmts, i, env, ind, fall, can_return):
        L = self.lines
        if i < len(stmts) and stmts[i][0] == 'let' and stmts[i][3][0] != 'ifexpr' and stmts[i][1] in getattr(self, 'seeds', {}):
            self.inferred.setdefault(stmts[i][1], self.seeds[stmts[i][1]])
        if i < len(stmts) and stmts[i][0] == 'forin':
            _, var, it, body, hdr = stmts[i]
            while it[0] == 'ref':
                it = it[1]
            if var == self.selfname or var in env:
                err('%s: the loop variable `%s` shadows' % (self.what, var))
            if self.in_loop:
                err('%s: nested loops are not supported' % self.what)
            vs, selfmod = self.pack(body, env)
            tup = self.tuple_text(vs, selfmod)
            un_in, binder = self.unpack_lines(vs, selfmod, ind + '    ')
            env2 = dict(env)
            L.append('%s-- %s' % (ind, hdr))
            pre = []
            if it[0] == 'var' and env.get(it[1]) == 'CHUNKS':
                lst, env2[var] = '%s.1' % lname(it[1]), 'BYTES'
                L.append('%sRes.bind (forEachN %s %s fun %s %s =>' % (ind, lst, tup, lname(var), binder))
            elif it[0] == 'var' and env.get(it[1]) == 'CHUNKSMUT':
                b, k = lname(self.buf), lname(it[1])
                env2[var] = 'MUTSLICE'
                L.append('%sRes.bind (forRange 0 (%s.length / %s) %s fun %s_i %s =>' % (ind, b, k, tup, lname(var), binder))
                pre = ['%s    let %s : Nat × Nat := (%s_i * %s, %s)' % (ind, lname(var), lname(var), k, k)]
            else:
                rev = False
                if it[0] == 'mcall' and it[2] == 'rev' and not it[3]:
                    rev, it = True, it[1]
                if not (it[0] == 'mcall' and it[2] == 'iter' and not it[3]):
                    err('%s: unsupported iterator in `%s`' % (self.what, hdr))
                t = self.typed(it[1], env, 'BYTES', 'the iterated slice')
                lst, env2[var] = ('%s.reverse' % atom(t) if rev else atom(t)), 'U8'
                L.append('%sRes.bind (forEachN %s %s fun %s %s =>' % (ind, lst, tup, lname(var), binder))
            L.extend(un_in)
            L.extend(pre)
            self.in_loop = True
            self.emit(body, 0, env2, ind + '    ', 'Res.ok %s' % tup, False)
            self.in_loop = False
            un, binder = self.unpack_lines(vs, selfmod, ind)
            L[-1] += ') fun %s =>' % binder
            L.append('%s-- }' % ind)
            L.extend(un)
            return self.emit(stmts, i + 1, env, ind, fall, can_return)
        return FnBase.emit(self, stmts, i, env, ind, fall, can_return)


def translate_fn(toks, sig, o, c, what, lean_name, kind):
    parts, ret = rsbody.split_params(sig, what)
    want_ty = ['&', '[', 'u8', ']'] if kind == 'w' else ['&', 'mut', '[', 'u8', ']']
    if len(parts) != 2 or parts[0] != ['&', 'mut', 'self'] or parts[1][1] != ':' or parts[1][2:] != want_ty:
        err('%s: unexpected parameters' % what)
    if ret != ['->', 'std', '::', 'io', '::', 'Result', '<', 'usize', '>']:
        err('%s: return type is not std::io::Result<usize>' % what)
    buf = parts[1][0]
    body = StrParser(toks[o:c + 1], what).block()
    params = [(buf, 'BYTES')]
    f = IOFn.run(lambda: IOFn(what, 'self', params, kind, buf), body, dict(params), None, True)
    if kind == 'w':
        hd = 'def %s (W : Nat) {ω : Type} (wi : WImpl ω) (w : ω) (%s : List Nat) : Res (Nat × ω) :=' % (lean_name, lname(buf))
    else:
        hd = 'def %s (W : Nat) {ρ : Type} (ri : RImpl ρ) (r : ρ) (%s : List Nat) : Res (Nat × List Nat × ρ) :=' % (lean_name, lname(buf))
    return '\n'.join(['/-- `%s` -/' % what, hd] + f.lines) + '\n'


def generate(src):
    old_res, old_ty = rsbody.LEAN_RESERVED, rsbody.lean_ty
    rsbody.LEAN_RESERVED = old_res | EXTRA_RESERVED
    rsbody.lean_ty = lean_ty
    try:
        defs = []
        for rel, struct, trait, fn, kind, stem in ((REL_W, 'BufBitWriter', 'Write', 'write', 'w', 'write'),
                                                   (REL_R, 'BufBitReader', 'Read', 'read', 'r', 'read_bufr'),
                                                   (REL_B, 'BitReader', 'Read', 'read', 'r', 'read_bitr')):
            rsbody.Ctx.rel = rel
            toks = tokenize(src(rel))
            for endian, E in (('be', 'BE'), ('le', 'LE')):
                w = 'impl std::io::%s for %s<%s, ..>' % (trait, struct, E)
                o, c = rsbody.find_impl(toks, 'std :: io :: %s for %s < %s ,' % (trait, struct, E), w)
                sig, bo, bc = find_fn(toks, o + 1, c, fn, w)
                defs.append(translate_fn(toks, sig, bo, bc, '%s::%s' % (w, fn), '%s_%s' % (stem, endian), kind))
        return defs
    finally:
        rsbody.LEAN_RESERVED, rsbody.lean_ty = old_res, old_ty


def render(HEADER, defs, failure=None):
    head = [HEADER.rstrip('\n'),
            '-- Source: %s, %s, %s (the std::io::Write / std::io::Read impls),' % (REL_W, REL_R, REL_B),
            '-- method bodies translated statement by statement by tools/translate_io.py.',
            'import Dsi.Prog',
            'import Dsi.IOView',
            'import Dsi.Impl.GenPrelude',
            'import Dsi.Impl.GenSlices',
            'set_option linter.unusedVariables false',
            '']
    if failure is not None:
        return '\n'.join(head + ['-- TRANSLATION FAILED: %s' % failure.replace('\n', ' '), ''])
    return '\n'.join(head + ['namespace Dsi.Gen.IO', 'open Dsi', ''] + defs + ['end Dsi.Gen.IO\n'])


def main(write_if_changed, HEADER, src, TranslateError):
    rsbody.Ctx.TE = TranslateError
    try:
        defs = generate(src)
    except TranslateError as ex:
        write_if_changed(OUT, render(HEADER, [], str(ex)))
        raise
    changed = write_if_changed(OUT, render(HEADER, defs))
    return ['IOBodies'] if changed else []


if __name__ == '__main__':
    import translate
    rsbody.Ctx.TE = translate.TranslateError
    try:
        if '--print' in sys.argv:
            print('\n'.join(generate(translate.src)))
        else:
            print(main(translate.write_if_changed, translate.HEADER, translate.src, translate.TranslateError))
    except translate.TranslateError as ex:
        print('translate: ERROR: %s' % ex)
        sys.exit(3)
