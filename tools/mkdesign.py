#!/usr/bin/env python3
"""Refresh the generated sections of DESIGN.md: the theorem lists per property (from
lean/props.json) and the table of seeded changes (from seeded/*/meta.json)."""
import json, os, re, glob
ROOT = os.path.dirname(os.path.dirname(os.path.abspath(__file__)))


# (Rust source, what is translated, generated file, module with the equality / agreement theorems)
COVERAGE = [
    ('codes/{gamma,delta,zeta}_tables.rs', 'every array and constant', 'Gen/Tables{Gamma,Delta,Zeta}', 'C05 (whole-table `decide +kernel` against the published codewords), TableFnsGenSizes'),
    ('codes/{gamma,delta,zeta}_tables.rs', '`read_table_*`, `write_table_*`, `len_table_*`', 'Gen/TableFns', 'TableFnsGen'),
    ('codes/params.rs', 'which `*_param::<..>` each default method selects', 'Gen/Params', 'C05, Transport'),
    ('codes/*.rs', 'every `len_*` function', 'Gen/LenFormulas', 'LenGen'),
    ('codes/{gamma,delta,zeta,pi,rice,golomb,exp_golomb,minimal_binary}.rs', 'reader and writer bodies, `*Param` impls', 'Gen/CodeBodies', 'CodeBodiesGen, Bounded'),
    ('codes/omega.rs', 'recursive writer, reader loop', 'Gen/OmegaBodies', 'OmegaGen'),
    ('codes/vbyte.rs', 'bit-stream readers/writers; byte-level functions and their endianness dispatch', 'Gen/VByteBodies, Gen/VByteIOBodies', 'VByteGen, VByteIOGen'),
    ('codes/mod.rs', '`ToInt::to_int`, `ToNat::to_nat`, the implementing types', 'Gen/ZigZagBodies', 'ZigZagGen'),
    ('impls/buf_bit_writer.rs', '`write_bits`, `write_unary`, `flush`, `copy_from` (BE, LE), `io::Write::write`, `into_inner`, `Drop`', 'Gen/BufWriterBodies, Gen/IOBodies, Gen/TeardownBodies', 'BufWriterGen, BufWriterCopyGen, BufWriterCopyWideGen, IOGen, TeardownGen'),
    ('impls/buf_bit_reader.rs', '`refill`, `peek_bits`, `skip_bits_after_peek`, `read_bits`, `read_unary`, `skip_bits`, `bit_pos`, `set_bit_pos`, `copy_to` (BE, LE), `io::Read::read`, `into_inner`', 'Gen/BufReaderBodies, Gen/CopyBodies, Gen/IOBodies, Gen/TeardownBodies', 'BufReaderGen, CopyGen, IOGen, TeardownGen, Bounded'),
    ('impls/bit_reader.rs', 'the same methods of the unbuffered reader', 'Gen/BitReaderBodies', 'BitReaderGen, Bounded'),
    ('traits/bits.rs', 'trait-default `copy_to` / `copy_from`; `check_tables` and the constructor arguments', 'Gen/CopyBodies, Gen/CheckTablesBodies', 'CopyGen, CheckTablesGen'),
    ('traits/endianness.rs', 'associated constants', 'Gen/EndianConsts', 'EndianGen'),
    ('impls/mem_word_reader.rs, mem_word_writer.rs', 'every method (`read_word`, `write_word`, positions, seeks, `into_inner`)', 'Gen/MemWordBodies, Gen/TeardownBodies', 'MemWordGen, TeardownGen'),
    ('impls/word_adapter.rs', 'every method, std calls as parameters (`read_exact`, `write_all`, `seek`, `stream_position`)', 'Gen/AdapterBodies', 'AdapterGen'),
    ('dispatch/{static,dynamic,factory,codes}.rs', 'every match-arm list, constant table, `Display` / `FromStr` / `PartialEq` lists', 'Gen/Dispatch, Gen/CodesText', 'C10, C16, DispatchCommon'),
    ('utils/count.rs', '`BitRead` / `BitWrite` and code-trait impls of both wrappers, `into_inner`', 'Gen/CountBodies, Gen/TeardownBodies', 'CountGen, TeardownGen'),
    ('utils/dbg_codes.rs', 'every method of both tracing wrappers', 'Gen/DbgBodies', 'DbgGen'),
    ('utils/stats.rs', 'offsets and orders; `update_many`, `update`, `add`, `AddAssign`, `Add`, `Sum`, `best_code`, wrapper `read` / `write` (lock as a primitive)', 'Gen/StatsOffsets, Gen/StatsBodies', 'C15, StatsGen'),
    ('utils/find_change.rs', '`FindChangePoints::next`', 'Gen/FindChangeBody', 'FindChangeGen'),
    ('utils/implied.rs', 'not translated (float weights; the change points it consumes are `find_change.rs`)', '—', 'correspondence only (`FC` family)'),
]

def block(name, text, s):
    b, e = '<!-- %s:BEGIN -->' % name, '<!-- %s:END -->' % name
    if b not in s:
        s = s.rstrip('\n') + '\n\n' + b + '\n' + e + '\n'
    return re.sub(re.escape(b) + r'.*?' + re.escape(e), lambda m: b + '\n' + text + '\n' + e, s, flags=re.S)

def main():
    p = os.path.join(ROOT, 'DESIGN.md')
    s = open(p).read()
    props = json.load(open(os.path.join(ROOT, 'lean', 'props.json')))
    out = ['## 7c. Theorems the checks audit, per property (generated from `lean/props.json`)', '',
           'Each name is a theorem in `lean/Dsi/Props/*.lean`; `./check <ID>` builds the listed modules, prints the axioms of',
           'every listed theorem and counts it as discharged only if they are within {propext, Classical.choice, Quot.sound}.', '']
    for pid in sorted(props):
        v = props[pid]
        out.append('* **%s** (%d; modules %s): %s' % (pid, len(v['theorems']), ', '.join('`%s`' % m for m in v['modules']),
                                                     ', '.join('`%s`' % t.replace('Dsi.', '') for t in v['theorems'])))
    s = block('THEOREMS', '\n'.join(out), s)
    rows = ['## 13. Seeded changes and which checks report them (generated from `seeded/*/meta.json`)', '',
            'Every change below compiles, passes the pinned test suite unchanged, and was confirmed with its demonstration',
            '(fails with the change, passes without) in a scratch worktree; the checks were then run against the changed tree',
            '(`tools/seedtest.py`, quick tier).', '',
            '| seed | property | source | reported by (exit 1) | run without report |', '|---|---|---|---|---|']
    for mf in sorted(glob.glob(os.path.join(ROOT, 'seeded', '*', 'meta.json'))):
        m = json.load(open(mf))
        ran = sorted((m.get('checks') or {}).keys())
        caught = m.get('caught_by') or []
        rows.append('| %s | %s | %s | %s | %s |' % (m.get('id'), m.get('property'), (m.get('source') or '')[:60], ', '.join(caught) or '—',
                                                  ', '.join(x for x in ran if x not in caught) or '—'))
    s = block('SEEDS', '\n'.join(rows), s)
    gen = os.path.join(ROOT, 'lean', 'Dsi', 'Gen')
    props_dir = os.path.join(ROOT, 'lean', 'Dsi', 'Props')
    crow = ['## 4.1-bis. Translator coverage as built (generated by `tools/mkdesign.py`; one row per translated source)', '',
            'Every row is regenerated from `/repo` on every run of every check; the modules in the last column prove the',
            'regenerated definitions equal to (or, for data, consistent with) the hand model the property theorems are about.',
            'A row whose proof module is missing from `lean/Dsi/Props` is marked *(absent)*.', '',
            '| Rust source | translated | generated Lean | proved in |', '|---|---|---|---|']
    for (rs, what, g, mods) in COVERAGE:
        marks = []
        for m in re.findall(r'[A-Za-z0-9]+Gen[A-Za-z]*|Bounded', mods):
            if not os.path.exists(os.path.join(props_dir, m + '.lean')):
                marks.append(m)
        crow.append('| `%s` | %s | `%s` | %s%s |' % (rs, what, g, mods, (' *(absent: %s)*' % ', '.join(marks)) if marks else ''))
    s = block('COVERAGE', '\n'.join(crow), s)
    open(p, 'w').write(s)

if __name__ == '__main__':
    main()
