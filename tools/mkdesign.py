#!/usr/bin/env python3
"""Refresh the generated sections of DESIGN.md: the theorem lists per property (from
lean/props.json) and the table of seeded changes (from seeded/*/meta.json)."""
import json, os, re, glob
ROOT = os.path.dirname(os.path.dirname(os.path.abspath(__file__)))

def block(name, text, s):
    b, e = '<!-- %s:BEGIN -->' % name, '<!-- %s:END -->' % name
    if b not in s:
        s = s.rstrip('\n') + '\n\n' + b + '\n' + e + '\n'
    return re.sub(re.escape(b) + r'.*?' + re.escape(e), lambda m: b + '\n' + text + '\n' + e, s, flags=re.S)

def main():
    p = os.path.join(ROOT, 'DESIGN.md')
    s = open(p).read()
    props = json.load(open(os.path.join(ROOT, 'lean', 'props.json')))
    out = ['## 7c. Theorems the checks audit, per property (generated from `lean/props.json`)', '',
           'Each name is a theorem in `lean/Dsi/Props/*.lean`; `./check <ID>` builds the listed modules, prints the axioms of',
           'every listed theorem and counts it as discharged only if they are within {propext, Classical.choice, Quot.sound}.', '']
    for pid in sorted(props):
        v = props[pid]
        out.append('* **%s** (%d; modules %s): %s' % (pid, len(v['theorems']), ', '.join('`%s`' % m for m in v['modules']),
                                                     ', '.join('`%s`' % t.replace('Dsi.', '') for t in v['theorems'])))
    s = block('THEOREMS', '\n'.join(out), s)
    rows = ['## 13. Seeded changes and which checks report them (generated from `seeded/*/meta.json`)', '',
            'Every change below compiles, passes the pinned test suite unchanged, and was confirmed with its demonstration',
            '(fails with the change, passes without) in a scratch worktree; the checks were then run against the changed tree',
            '(`tools/seedtest.py`, quick tier).', '',
            '| seed | property | source | reported by (exit 1) | run without report |', '|---|---|---|---|---|']
    for mf in sorted(glob.glob(os.path.join(ROOT, 'seeded', '*', 'meta.json'))):
        m = json.load(open(mf))
        ran = sorted((m.get('checks') or {}).keys())
        caught = m.get('caught_by') or []
        rows.append('| %s | %s | %s | %s | %s |' % (m.get('id'), m.get('property'), (m.get('source') or '')[:60], ', '.join(caught) or '—',
                                                  ', '.join(x for x in ran if x not in caught) or '—'))
    s = block('SEEDS', '\n'.join(rows), s)
    open(p, 'w').write(s)

if __name__ == '__main__':
    main()
