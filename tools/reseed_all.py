#!/usr/bin/env python3
"""Re-run the checks against every stored seeded change (seeded/*/patch.diff) with the current
machinery, update meta.json (keeping the earlier outcome in `history`), and harvest the shrunk
replays of caught seeds into corpus/<PROP>.scen so they run first on every later check."""
import glob, json, os, subprocess, sys, time
ROOT = os.path.dirname(os.path.dirname(os.path.abspath(__file__)))

def main():
    only = sys.argv[1:] 
    for mf in sorted(glob.glob(os.path.join(ROOT, 'seeded', '*', 'meta.json'))):
        d = os.path.dirname(mf)
        m = json.load(open(mf))
        if only and m['id'] not in only:
            continue
        props = sorted((m.get('checks') or {m['property']: 0}).keys())
        if m['property'] not in props:
            props.append(m['property'])
        t0 = time.time()
        r = subprocess.run([sys.executable, os.path.join(ROOT, 'tools', 'seedtest.py'), os.path.join(d, 'patch.diff'), ','.join(props)],
                           capture_output=True, text=True)
        last = r.stdout.strip().splitlines()[-1] if r.stdout.strip() else '{}'
        try:
            res = json.loads(last)
        except Exception:
            print(m['id'], 'seedtest failed', r.stdout[-300:], r.stderr[-300:]); continue
        hist = m.get('history', [])
        hist.append(dict(caught_by=m.get('caught_by'), checks={k: v.get('exit') for k, v in (m.get('checks') or {}).items()}))
        m['history'] = hist[-3:]
        m['checks'] = {p: dict(exit=v.get('exit'), reported=v.get('lines', [])[:3]) for p, v in res.items()}
        m['caught_by'] = [p for p, v in res.items() if v.get('exit') == 1]
        json.dump(m, open(mf, 'w'), indent=1)
        # harvest replays (printed by seedtest as indented scenario lines after each property line)
        cur = None
        for line in r.stdout.splitlines():
            parts = line.split()
            if len(parts) >= 3 and parts[1] == 'exit' and parts[0] in res:
                cur = parts[0]; n = 0
            elif line.startswith('    ') and cur and res[cur].get('exit') == 1:
                scen = line.strip()
                if scen.startswith('#') or not scen:
                    continue
                if cur == 'C19':
                    # build-specific options are added by the C19 runner per build, never stored
                    import re as _re
                    scen = _re.sub(r' (checks=1|copy=0)(?= )', '', scen)
                cp = os.path.join(ROOT, 'corpus', cur + '.scen')
                have = open(cp).read() if os.path.exists(cp) else ''
                if scen not in have and n < 2 and len(scen) < 2000:
                    with open(cp, 'a') as f:
                        f.write('# from seeded change %s\n%s\n' % (m['id'], scen))
                    n += 1
        print('%s: caught by %s (%.0fs)' % (m['id'], m['caught_by'] or 'NOTHING', time.time() - t0), flush=True)

if __name__ == '__main__':
    main()
