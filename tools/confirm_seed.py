#!/usr/bin/env python3
"""Confirm a seeded change delivered by a sub-agent and try the checks on it.
   tools/confirm_seed.py <ID> <k> <PROPS>     (reads /tmp/mut/<ID>/out/m<k>/{patch.diff,demo.rs,notes.md})
Steps (all in a scratch worktree of /repo under /tmp/confirm, removed afterwards):
  1. demo test on the unmodified tree: must pass;  2. apply the patch: demo must fail;
  3. the existing suite with the patch: must pass;  4. run ./check for PROPS against the patched tree (tools/seedtest.py).
On success the seed is stored in seeded/<ID>-m<k>/ with meta.json."""
import json, os, shutil, subprocess, sys
ROOT = os.path.dirname(os.path.dirname(os.path.abspath(__file__)))

def run(cmd, cwd, timeout=3000):
    env = dict(os.environ, CARGO_NET_OFFLINE='true', CARGO_TARGET_DIR='/tmp/confirm/target', RUST_BACKTRACE='0')
    p = subprocess.run(cmd, cwd=cwd, env=env, capture_output=True, text=True, timeout=timeout, shell=isinstance(cmd, str))
    return p.returncode, p.stdout + p.stderr

def main():
    ID, k, props = sys.argv[1], sys.argv[2], sys.argv[3]
    flags = sys.argv[4] if len(sys.argv) > 4 else ''      # extra cargo flags for the demonstration (e.g. --release --features checks)
    root = os.environ.get('MUT_ROOT', '/tmp/mut')
    tag = os.environ.get('SEED_TAG', 'm')      # round 2 seeds are stored as <ID>-r2m<k>
    src = '%s/%s/out/m%s' % (root, ID, k)
    wt = '/tmp/confirm/wt-%s-%s%s' % (ID, os.environ.get('SEED_TAG', 'm'), k)
    os.makedirs('/tmp/confirm', exist_ok=True)
    subprocess.run(['git', '-C', '/repo', 'worktree', 'remove', '--force', wt], capture_output=True)
    subprocess.run(['git', '-C', '/repo', 'worktree', 'add', '-q', '--detach', wt, 'HEAD'], check=True)
    meta = dict(id='%s-%s%s' % (ID, tag, k), property=ID, source='sub-agent given only the property text and a scratch worktree')
    try:
        shutil.copy(os.path.join(src, 'demo.rs'), os.path.join(wt, 'tests', 'seed_demo.rs'))
        rc0, out0 = run('cargo test --offline %s --test seed_demo' % flags, wt)
        meta['demo_without_change'] = 'pass' if rc0 == 0 else 'FAIL'
        rc, out = run(['git', 'apply', os.path.join(src, 'patch.diff')], wt)
        if rc != 0:
            print('patch does not apply', out); meta['error'] = 'patch does not apply'; print(json.dumps(meta)); return 1
        rc1, out1 = run('cargo test --offline %s --test seed_demo' % flags, wt)
        meta['demo_with_change'] = 'fail' if rc1 != 0 else 'PASS (not a demonstration)'
        os.remove(os.path.join(wt, 'tests', 'seed_demo.rs'))
        rc2, out2 = run('cargo test --workspace --no-fail-fast --offline', wt)
        meta['existing_suite_with_change'] = 'pass' if rc2 == 0 else 'FAIL'
        if rc2 != 0:
            print(out2[-1500:])
    finally:
        subprocess.run(['git', '-C', '/repo', 'worktree', 'remove', '--force', wt], capture_output=True)
        shutil.rmtree(wt, ignore_errors=True)
    ok = meta.get('demo_without_change') == 'pass' and meta.get('demo_with_change') == 'fail' and meta.get('existing_suite_with_change') == 'pass'
    meta['confirmed'] = ok
    # the checks
    r = subprocess.run([sys.executable, os.path.join(ROOT, 'tools', 'seedtest.py'), os.path.join(src, 'patch.diff'), props], capture_output=True, text=True)
    last = r.stdout.strip().splitlines()[-1] if r.stdout.strip() else '{}'
    try:
        res = json.loads(last)
    except Exception:
        res = {'raw': r.stdout[-500:]}
    meta['checks'] = {p: dict(exit=v.get('exit'), reported=[l for l in v.get('lines', [])][:3]) for p, v in res.items()} if isinstance(res, dict) else res
    meta['caught_by'] = [p for p, v in res.items() if isinstance(v, dict) and v.get('exit') == 1]
    meta['what_it_needs'] = open(os.path.join(src, 'notes.md')).read()[:1500] if os.path.exists(os.path.join(src, 'notes.md')) else ''
    meta['ran'] = ['cargo test --offline %s --test seed_demo (without / with the change)' % flags, 'cargo test --workspace --no-fail-fast --offline (with the change)',
                   'tools/seedtest.py patch.diff ' + props]
    print(r.stdout[-1500:])
    if ok:
        d = os.path.join(ROOT, 'seeded', meta['id'])
        os.makedirs(d, exist_ok=True)
        shutil.copy(os.path.join(src, 'patch.diff'), d)
        shutil.copy(os.path.join(src, 'demo.rs'), d)
        if os.path.exists(os.path.join(src, 'notes.md')):
            shutil.copy(os.path.join(src, 'notes.md'), d)
        json.dump(meta, open(os.path.join(d, 'meta.json'), 'w'), indent=1)
    print(json.dumps({k: v for k, v in meta.items() if k != 'what_it_needs'}, indent=1))
    return 0

if __name__ == '__main__':
    sys.exit(main())
