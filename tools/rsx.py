#!/usr/bin/env python3
"""A parser for the subset of Rust used by the *code-level* bodies that tools/translate_codes2.py,
translate_vbyteio.py, translate_count.py and translate_findchange.py turn into Lean definitions,
and the emitter of their pure (integer) expressions.

Fail-closed: every construct that is not listed raises the translator's TranslateError (`err`).

  expressions  integer literals (with suffix), true/false, variables, paths with turbofish
               (`u64::MAX`, `core::any::TypeId::of::<E>()`), calls, method calls (with turbofish),
               field access, `(self.func)(x)`, indexing `a[i]`, `a[i..]`, tuples, `as T`,
               unary `* ! - & &mut`, the binary operators, `?`, closures `|x| { .. }`,
               `if` / `if let` / `match` / blocks in expression position, `[e; N]`, `[a, b]`,
               `return e`, `break`
  statements   let [mut] PAT [: T] [= e];   e;   lhs = e;   lhs op= e;   if / if let / while /
               loop / for PAT in e { }   NAME!( .. );   #[cfg(..)] STATEMENT   { .. }
  patterns     _   [mut] x   &x   (p, q)   Some(p)  Ok(p)  None   literals

AST (tuples):
  ('num', v, suffix|None) ('bool', b) ('var', x) ('path', [seg..], [generic-arg texts]|None)
  ('call', f, [args]) ('method', recv, name, [generic texts], [args]) ('field', recv, name)
  ('index', base, idx) ('range', lo|None, hi|None) ('tuple', [es]) ('paren', e) ('cast', e, ty)
  ('un', op, e) ('bin', op, a, b) ('try', e) ('closure', [param names], body-stmts)
  ('if', c, then, else|None) ('iflet', pat, e, then, else|None) ('match', e, [(pat, body-stmts)])
  ('block', stmts) ('array', [es]) ('repeat', e, n) ('return', e|None) ('break',)
  ('macro', name, [arg token lists])
statements: ('let', pat, ty|None, e|None) ('expr', e, has_semi) ('assign', lhs, op|None, rhs)
  ('while', c, body) ('loop', body) ('for', pat, e, body) ('cfg', pred-text, stmt)
patterns: ('pwild',) ('pbind', x, mut) ('pref', p) ('ptuple', [ps]) ('pctor', name, [ps]) ('plit', v)
"""
import os, sys
sys.path.insert(0, os.path.dirname(os.path.abspath(__file__)))
from rstok import tokenize, match_close, num_value, split_top


class Ctx:
    TE = Exception
    rel = '?'


def err(msg):
    raise Ctx.TE('%s: %s' % (Ctx.rel, msg))


BINPREC = {
    '*': 11, '/': 11, '%': 11,
    '+': 10, '-': 10,
    '<<': 9, '>>': 9,
    '&': 8, '^': 7, '|': 6,
    '==': 5, '!=': 5, '<': 5, '>': 5, '<=': 5, '>=': 5,
    '&&': 4, '||': 3,
}
ASSIGN_OPS = {'=': None, '+=': '+', '-=': '-', '*=': '*', '/=': '/', '%=': '%', '<<=': '<<', '>>=': '>>',
              '|=': '|', '&=': '&', '^=': '^'}
KEYWORDS_BAD = ('unsafe', 'move', 'async', 'await', 'continue', 'struct', 'enum', 'impl', 'fn', 'use', 'const',
                'static', 'type', 'trait', 'mod', 'dyn', 'where', 'ref')


def tok_text(t):
    k, x = t
    if k == 'num':
        return x.replace(':', '_')
    if k == 'str':
        return '"%s"' % x.replace('\n', '\\n')
    return x


def text_of(toks):
    return ' '.join(tok_text(t) for t in toks)


class Parser:
    def __init__(self, toks, what):
        self.t, self.i, self.what = toks, 0, what

    def fail(self, msg):
        err('%s: %s (near `%s`)' % (self.what, msg, text_of(self.t[max(0, self.i - 5):self.i + 5])))

    def peek(self, k=0):
        j = self.i + k
        return self.t[j] if j < len(self.t) else ('eof', '')

    def at(self, text, k=0):
        p = self.peek(k)
        return p[1] == text and p[0] in ('p', 'id')

    def eat(self, text):
        if not self.at(text):
            self.fail('expected `%s`' % text)
        self.i += 1

    def ident(self):
        k, x = self.peek()
        if k != 'id':
            self.fail('expected an identifier')
        self.i += 1
        return x

    # ---- types (kept as text)
    def type_text(self):
        a = self.i
        self._type()
        return text_of(self.t[a:self.i])

    def _type(self):
        if self.at('&'):
            self.i += 1
            if self.peek()[0] == 'life':
                self.i += 1
            if self.at('mut'):
                self.i += 1
            return self._type()
        if self.at('['):
            self.i = match_close(self.t, self.i) + 1
            return
        if self.at('('):
            self.i = match_close(self.t, self.i) + 1
            return
        if self.at('<'):
            self._angles()
            while self.at('::'):
                self.i += 1
                self.ident()
            return
        self.ident()
        while True:
            if self.at('::'):
                self.i += 1
                if self.at('<'):
                    self._angles()
                else:
                    self.ident()
                continue
            if self.at('<'):
                self._angles()
                continue
            break

    def _angles(self):
        """at `<`: skip to after the matching `>` (`>>` closes two)"""
        depth = 0
        while True:
            k, x = self.peek()
            if k == 'eof' or (k == 'p' and x in ('{', ';')):
                self.fail('unbalanced generic brackets')
            if k == 'p' and x == '<':
                depth += 1
            elif k == 'p' and x == '>':
                depth -= 1
            elif k == 'p' and x == '>>':
                depth -= 2
            elif k == 'p' and x in ('(', '['):
                self.i = match_close(self.t, self.i)
            self.i += 1
            if depth <= 0:
                if depth < 0:
                    self.fail('unbalanced generic brackets')
                return

    def generic_args(self):
        """at `<` of a turbofish: the list of argument texts"""
        a = self.i
        self._angles()
        inner = self.t[a + 1:self.i - 1]
        if self.t[self.i - 1][1] == '>>':
            self.fail('`>>` closing a turbofish')
        out, cur, depth = [], [], 0
        for k, x in inner:
            if k == 'p' and x in ('<', '(', '['):
                depth += 1
            elif k == 'p' and x in ('>', ')', ']'):
                depth -= 1
            elif k == 'p' and x == '>>':
                depth -= 2
            if k == 'p' and x == ',' and depth == 0:
                out.append(text_of(cur))
                cur = []
            else:
                cur.append((k, x))
        if cur:
            out.append(text_of(cur))
        return out

    # ---- patterns
    def pattern(self):
        k, x = self.peek()
        if k == 'p' and x == '&':
            self.i += 1
            if self.at('mut'):
                self.fail('`&mut` pattern')
            return ('pref', self.pattern())
        if k == 'p' and x == '(':
            self.i += 1
            ps = []
            while not self.at(')'):
                ps.append(self.pattern())
                if self.at(','):
                    self.i += 1
                elif not self.at(')'):
                    self.fail('expected `,` or `)` in a tuple pattern')
            self.eat(')')
            if len(ps) == 1:
                return ps[0]
            return ('ptuple', ps)
        if k == 'num':
            self.i += 1
            return ('plit', num_value(x))
        if k == 'id':
            if x == '_':
                self.i += 1
                return ('pwild',)
            if x == 'mut':
                self.i += 1
                return ('pbind', self.ident(), True)
            if x in KEYWORDS_BAD:
                self.fail('`%s` in a pattern' % x)
            self.i += 1
            if self.at('::'):
                self.fail('path pattern')
            if self.at('(') and self.peek()[0] == 'p':
                self.i += 1
                ps = []
                while not self.at(')'):
                    ps.append(self.pattern())
                    if self.at(','):
                        self.i += 1
                    elif not self.at(')'):
                        self.fail('expected `,` or `)` in a pattern')
                self.eat(')')
                return ('pctor', x, ps)
            if x in ('None',):
                return ('pctor', x, [])
            if x[0].isupper():
                self.fail('constructor / constant pattern `%s`' % x)
            return ('pbind', x, False)
        self.fail('unrecognised pattern')

    # ---- expressions
    def expr(self, minprec=0, nostruct=False):
        lhs = self.unary(nostruct)
        while True:
            k, x = self.peek()
            if k == 'id' and x == 'as':
                if 12 < minprec:
                    break
                self.i += 1
                lhs = ('cast', lhs, self.type_text())
                continue
            if k == 'p' and x in ('..', '..='):
                if minprec > 2:
                    break
                if x == '..=':
                    self.fail('inclusive range')
                self.i += 1
                hi = None
                k2, x2 = self.peek()
                if not (k2 == 'p' and x2 in (']', ')', '}', ',', ';', '{')):
                    hi = self.expr(3, nostruct)
                lhs = ('range', lhs, hi)
                continue
            if k == 'p' and x in BINPREC and BINPREC[x] >= minprec:
                prec = BINPREC[x]
                self.i += 1
                rhs = self.expr(prec + 1, nostruct)
                if prec == 5 and self.peek()[0] == 'p' and BINPREC.get(self.peek()[1]) == 5:
                    self.fail('chained comparison')
                lhs = ('bin', x, lhs, rhs)
                continue
            break
        return lhs

    def unary(self, nostruct):
        k, x = self.peek()
        if k == 'p' and x in ('!', '-', '*'):
            self.i += 1
            return ('un', x, self.unary(nostruct))
        if k == 'p' and x == '&':
            self.i += 1
            if self.at('mut'):
                self.i += 1
                return ('un', '&mut', self.unary(nostruct))
            return ('un', '&', self.unary(nostruct))
        if k == 'p' and x == '&&':
            self.fail('`&&` as a double reference')
        if k == 'p' and x == '..':
            self.i += 1
            return ('range', None, self.expr(3, nostruct))
        if k == 'p' and x in ('|', '||'):
            return self.closure()
        return self.postfix(self.primary(nostruct))

    def closure(self):
        params = []
        if self.at('||'):
            self.i += 1
        else:
            self.eat('|')
            while not self.at('|'):
                p = self.pattern()
                if p[0] != 'pbind' or p[2]:
                    self.fail('closure parameter that is not a plain name')
                if self.at(':'):
                    self.i += 1
                    self.type_text()
                params.append(p[1])
                if self.at(','):
                    self.i += 1
            self.eat('|')
        if self.at('{'):
            body = self.block()
        else:
            body = [('expr', self.expr(), False)]
        return ('closure', params, body)

    def primary(self, nostruct):
        k, x = self.peek()
        if k == 'num':
            self.i += 1
            parts = x.split(':')
            if '.' in parts[0] or ('e' in parts[0].lower() and not parts[0].startswith('0x')):
                self.fail('non-integer literal')
            return ('num', num_value(x), parts[1] if len(parts) > 1 else None)
        if k == 'p' and x == '(':
            self.i += 1
            es = []
            trailing = False
            while not self.at(')'):
                es.append(self.expr())
                trailing = False
                if self.at(','):
                    self.i += 1
                    trailing = True
                elif not self.at(')'):
                    self.fail('expected `,` or `)`')
            self.eat(')')
            if len(es) == 1 and not trailing:
                return ('paren', es[0])
            return ('tuple', es)
        if k == 'p' and x == '[':
            self.i += 1
            if self.at(']'):
                self.i += 1
                return ('array', [])
            first = self.expr()
            if self.at(';'):
                self.i += 1
                n = self.expr()
                self.eat(']')
                return ('repeat', first, n)
            es = [first]
            while self.at(','):
                self.i += 1
                if self.at(']'):
                    break
                es.append(self.expr())
            self.eat(']')
            return ('array', es)
        if k == 'p' and x == '{':
            return ('block', self.block())
        if k == 'id':
            if x in ('true', 'false'):
                self.i += 1
                return ('bool', x == 'true')
            if x == 'if':
                return self.if_expr()
            if x == 'match':
                return self.match_expr()
            if x == 'return':
                self.i += 1
                k2, x2 = self.peek()
                if k2 == 'p' and x2 in (';', '}', ','):
                    return ('return', None)
                return ('return', self.expr())
            if x == 'break':
                self.i += 1
                k2, x2 = self.peek()
                if not (k2 == 'p' and x2 in (';', '}', ',')):
                    self.fail('`break` with a label or a value')
                return ('break',)
            if x in ('loop', 'while', 'for'):
                self.fail('`%s` in expression position' % x)
            if x in KEYWORDS_BAD:
                self.fail('`%s` is not in the translated language' % x)
            self.i += 1
            segs = [x]
            generics = None
            while self.at('::'):
                self.i += 1
                if self.at('<'):
                    if generics is not None:
                        self.fail('two turbofish in one path')
                    generics = self.generic_args()
                else:
                    segs.append(self.ident())
            if self.at('!') and self.peek()[0] == 'p' and not self.at('=', 1) and self.peek(1)[1] != '=':
                if self.peek(1)[1] in ('(', '[', '{') and self.peek(1)[0] == 'p':
                    self.i += 1
                    close = match_close(self.t, self.i)
                    args = split_top(self.t[self.i + 1:close])
                    self.i = close + 1
                    return ('macro', '::'.join(segs), args)
            if self.at('{') and not nostruct and segs[-1][0].isupper():
                self.fail('struct literal')
            if len(segs) == 1 and generics is None:
                return ('var', x)
            return ('path', segs, generics)
        self.fail('unrecognised expression')

    def if_expr(self):
        self.eat('if')
        if self.at('let'):
            self.i += 1
            pat = self.pattern()
            self.eat('=')
            e = self.expr(0, True)
            th = self.block()
            el = self.else_part()
            return ('iflet', pat, e, th, el)
        c = self.expr(0, True)
        th = self.block()
        return ('if', c, th, self.else_part())

    def else_part(self):
        if not self.at('else'):
            return None
        self.i += 1
        if self.at('if'):
            return [('expr', self.if_expr(), False)]
        return self.block()

    def match_expr(self):
        self.eat('match')
        e = self.expr(0, True)
        self.eat('{')
        arms = []
        while not self.at('}'):
            pat = self.pattern()
            if self.at('|'):
                self.fail('or-pattern')
            if self.at('if'):
                self.fail('match guard')
            self.eat('=>')
            if self.at('{'):
                body = self.block()
                if self.at(','):
                    self.i += 1
            else:
                body = [('expr', self.expr(), False)]
                if self.at(','):
                    self.i += 1
                elif not self.at('}'):
                    self.fail('expected `,` after a match arm')
            arms.append((pat, body))
        self.eat('}')
        return ('match', e, arms)

    def args(self):
        self.eat('(')
        out = []
        while not self.at(')'):
            out.append(self.expr())
            if self.at(','):
                self.i += 1
            elif not self.at(')'):
                self.fail('expected `,` or `)` in an argument list')
        self.eat(')')
        return out

    def postfix(self, e):
        while True:
            k, x = self.peek()
            if k == 'p' and x == '.':
                self.i += 1
                if self.peek()[0] == 'num':
                    self.fail('tuple field access')
                name = self.ident()
                generics = []
                if self.at('::'):
                    self.i += 1
                    generics = self.generic_args()
                if self.at('(') and self.peek()[0] == 'p':
                    e = ('method', e, name, generics, self.args())
                else:
                    if generics:
                        self.fail('turbofish without a call')
                    e = ('field', e, name)
                continue
            if k == 'p' and x == '?':
                self.i += 1
                e = ('try', e)
                continue
            if k == 'p' and x == '(':
                e = ('call', e, self.args())
                continue
            if k == 'p' and x == '[':
                self.i += 1
                idx = self.expr()
                self.eat(']')
                e = ('index', e, idx)
                continue
            return e

    # ---- statements
    def block(self):
        self.eat('{')
        out = []
        while not self.at('}'):
            out.append(self.stmt())
        self.eat('}')
        return out

    def stmt(self):
        k, x = self.peek()
        if k == 'p' and x == '#':
            self.i += 1
            if not self.at('['):
                self.fail('inner attribute')
            close = match_close(self.t, self.i)
            attr = self.t[self.i + 1:close]
            self.i = close + 1
            if not attr or attr[0] != ('id', 'cfg'):
                if attr and attr[0] == ('id', 'allow'):
                    return self.stmt()
                self.fail('attribute #[%s] on a statement' % text_of(attr))
            pred = text_of(attr[2:-1])
            return ('cfg', pred, self.stmt())
        if k == 'p' and x == ';':
            self.i += 1
            return ('expr', ('tuple', []), True)
        if k == 'id' and x == 'let':
            self.i += 1
            pat = self.pattern()
            ty = None
            if self.at(':'):
                self.i += 1
                ty = self.type_text()
            init = None
            if self.at('='):
                self.i += 1
                init = self.expr()
            if self.at('else'):
                self.fail('let-else')
            self.eat(';')
            return ('let', pat, ty, init)
        if k == 'id' and x == 'while':
            self.i += 1
            if self.at('let'):
                self.fail('`while let`')
            c = self.expr(0, True)
            return ('while', c, self.block())
        if k == 'id' and x == 'loop':
            self.i += 1
            return ('loop', self.block())
        if k == 'id' and x == 'for':
            self.i += 1
            pat = self.pattern()
            self.eat('in')
            e = self.expr(0, True)
            return ('for', pat, e, self.block())
        if k == 'life':
            self.fail('loop label')
        if k == 'id' and x in ('if', 'match'):
            e = self.if_expr() if x == 'if' else self.match_expr()
            # a block-like expression ends the statement unless it is the tail of the block or is
            # continued by a method call / `?`
            if self.at('.') or self.at('?'):
                e = self.postfix(e)
            else:
                if self.at(';'):
                    self.i += 1
                    return ('expr', e, True)
                return ('expr', e, self.at('}') is False)
        elif k == 'p' and x == '{':
            e = ('block', self.block())
            return ('expr', e, not self.at('}'))
        else:
            e = self.expr()
        k2, x2 = self.peek()
        if k2 == 'p' and x2 in ASSIGN_OPS:
            self.i += 1
            r = self.expr()
            self.eat(';')
            return ('assign', e, ASSIGN_OPS[x2], r)
        if self.at(';'):
            self.i += 1
            return ('expr', e, True)
        if self.at('}'):
            return ('expr', e, False)
        self.fail('cannot parse the statement')


# --------------------------------------------------------------------------------------
# functions
# --------------------------------------------------------------------------------------

def find_fns(toks, a, b, name):
    """indices i in [a, b) at brace depth 0 (relative to a) with toks[i] = `fn`, toks[i+1] = name"""
    out = []
    i = a
    while i < b:
        k, x = toks[i]
        if k == 'p' and x == '{':
            i = match_close(toks, i) + 1
            continue
        if (k, x) == ('id', 'fn') and toks[i + 1] == ('id', name):
            out.append(i)
        i += 1
    return out


def attrs_before(toks, i, lo):
    """texts of the `#[..]` attributes directly before the item at i (skipping `pub`)"""
    out = []
    p = i - 1
    while p >= lo and toks[p] == ('id', 'pub'):
        p -= 1
    while p >= lo and toks[p] == ('p', ']'):
        depth, q = 0, p
        while True:
            if toks[q] == ('p', ']'):
                depth += 1
            elif toks[q] == ('p', '['):
                depth -= 1
                if depth == 0:
                    break
            q -= 1
        if toks[q - 1] != ('p', '#'):
            break
        out.append(text_of(toks[q + 1:p]))
        p = q - 2
    return out


def parse_fn_at(toks, i, what):
    """toks[i] = `fn`.  -> dict(name, generics=[(kind, name, bound text)], recv, params=[(name, mut, type)],
    ret=type text, body=[stmts])"""
    for atxt in attrs_before(toks, i, 0):
        if atxt.startswith('cfg'):
            err('%s: the function is under #[%s]' % (what, atxt))
    p = Parser(toks, what)
    p.i = i + 1
    name = p.ident()
    generics = []
    if p.at('<'):
        a = p.i
        p._angles()
        inner = toks[a + 1:p.i - 1]
        parts, cur, depth = [], [], 0
        for k, x in inner:
            if k == 'p' and x in ('<', '(', '['):
                depth += 1
            elif k == 'p' and x in ('>', ')', ']'):
                depth -= 1
            elif k == 'p' and x == '>>':
                depth -= 2
            if k == 'p' and x == ',' and depth == 0:
                parts.append(cur)
                cur = []
            else:
                cur.append((k, x))
        if cur:
            parts.append(cur)
        for it in parts:
            if it[0] == ('id', 'const'):
                if len(it) < 4 or it[2] != ('p', ':'):
                    err('%s: const generic' % what)
                generics.append(('const', it[1][1], text_of(it[3:])))
            elif it[0][0] == 'id':
                generics.append(('type', it[0][1], text_of(it[2:]) if len(it) > 1 else ''))
            else:
                err('%s: unrecognised generic parameter `%s`' % (what, text_of(it)))
    p.eat('(')
    recv = None
    params = []
    while not p.at(')'):
        if p.at('&') and (p.at('self', 1) or (p.at('mut', 1) and p.at('self', 2))):
            recv = '&mut self' if p.at('mut', 1) else '&self'
            p.i += 3 if p.at('mut', 1) else 2
        elif p.at('self'):
            recv = 'self'
            p.i += 1
        elif p.at('mut') and p.at('self', 1):
            recv = 'self'
            p.i += 2
        else:
            mut = False
            if p.at('mut'):
                mut = True
                p.i += 1
            x = p.ident()
            p.eat(':')
            params.append((x, mut, p.type_text()))
        if p.at(','):
            p.i += 1
        elif not p.at(')'):
            p.fail('expected `,` or `)` in the parameter list')
    p.eat(')')
    ret = None
    if p.at('->'):
        p.i += 1
        ret = p.type_text()
    if p.at('where'):
        while not p.at('{'):
            if p.peek()[0] == 'eof' or p.at(';'):
                p.fail('expected the body')
            p.i += 1
    if not p.at('{'):
        p.fail('expected the body')
    body = p.block()
    return dict(name=name, generics=generics, recv=recv, params=params, ret=ret, body=body, what=what)


# the only cfg an impl carries in the audited sources (`alloc` is implied by the default feature `std`)
OK_IMPL_CFG = ('cfg(feature="alloc")',)


def find_impls(toks, pred):
    """[(header text, open, close)] of the top-level `impl .. { }` whose header text satisfies pred"""
    out = []
    i = 0
    while i < len(toks):
        if toks[i] == ('id', 'impl'):
            j = i + 1
            while not (toks[j][0] == 'p' and toks[j][1] == '{'):
                j += 1
            hdr = text_of(toks[i:j])
            c = match_close(toks, j)
            if pred(hdr):
                for atxt in attrs_before(toks, i, 0):
                    if atxt.startswith('cfg') and atxt.replace(' ', '') not in OK_IMPL_CFG:
                        err('`impl %s` is under #[%s]' % (hdr[:80], atxt))
                out.append((hdr, j, c))
            i = c + 1
            continue
        if toks[i][0] == 'p' and toks[i][1] == '{':
            i = match_close(toks, i) + 1
            continue
        i += 1
    return out


def check_no_alias(toks, rel):
    """`use .. as ..` would let a module name mean another module: refuse"""
    i = 0
    while i < len(toks):
        if toks[i] == ('id', 'use'):
            j = i
            while toks[j] != ('p', ';'):
                if toks[j] == ('id', 'as'):
                    err('%s: `use .. as ..` (aliased imports are not understood)' % rel)
                j += 1
            i = j
        i += 1


# --------------------------------------------------------------------------------------
# Lean text helpers
# --------------------------------------------------------------------------------------

LEAN_RESERVED = {'λ', 'fun', 'at', 'from', 'have', 'show', 'then', 'else', 'do', 'if', 'let', 'in', 'end', 'by',
                 'match', 'with', 'where', 'open', 'def', 'theorem', 'instance', 'structure', 'class', 'namespace',
                 'section', 'variable', 'universe', 'import', 'Type', 'Prop', 'Sort', 'forall', 'exists', 'this',
                 'calc', 'for', 'return', 'mut', 'macro', 'syntax', 'notation', 'infix', 'prefix', 'postfix',
                 'fuel', 'checks', 'k', 's', 'wi', 'ri', 'f', 'e', 'inp', 'out', 'some', 'none', 'private',
                 'protected', 'partial', 'nomatch', 'nofun', 'obtain', 'suffices', 'deriving', 'mutual',
                 'attribute', 'export', 'local', 'using', 'set_option', 'prefix'}


def lean_id(name):
    if name in LEAN_RESERVED or not all(c == '_' or c.isalnum() for c in name) or any(ord(c) > 127 for c in name):
        return '«%s»' % name
    return name


P_CMP, P_ADD, P_MUL, P_SHIFT, P_APP, P_ATOM = 50, 65, 70, 75, 1022, 1024
P_AND, P_OR, P_BOR, P_BXOR, P_BAND = 35, 30, 55, 58, 60


def par(tp, need):
    t, p = tp[0], tp[1]
    return t if p >= need else '(%s)' % t


WIDTH = {'u8': 8, 'u16': 16, 'u32': 32, 'u64': 64, 'usize': 64, 'u128': 128}
INT_TYPES = tuple(WIDTH)


class Pure:
    """pure integer / boolean expressions -> (Lean text, precedence, type).  Types: the names of
    WIDTH, 'lit' (an unsuffixed literal: takes the type of what it is combined with, u64 by
    default), 'bool', 'prop' (a comparison) or whatever the `hook` returns.

      + - * / %      the `Nat` operations (overflow / underflow / division by zero are outside the
                     domain of the theorems, like in tools/translate_len.py)
      a << b         (a <<< b) % 2 ^ w   with w the width of a's type
      a >> b         a >>> b             & | ^  ->  &&& ||| ^^^
      e as T         e % 2 ^ w when T is narrower than the type of e, else e
      e.ilog2()      e.log2              a.wrapping_sub(b)  (a + 2 ^ w - b) % 2 ^ w
      T::MAX         2 ^ w - 1           T::BITS  w         e.cast()  e     *e  e
    """

    def __init__(self, what, hook=None):
        self.what = what
        self.hook = hook      # hook(e, env) -> (text, prec, type) | None, consulted first

    def fail(self, msg):
        err('%s: %s' % (self.what, msg))

    @staticmethod
    def unify(a, b):
        if a == 'lit':
            return b
        if b == 'lit' or a == b:
            return a
        return None

    def ex(self, e, env):
        if self.hook is not None:
            r = self.hook(e, env)
            if r is not None:
                return r
        k = e[0]
        if k == 'num':
            return (str(e[1]), P_ATOM, e[2] or 'lit')
        if k == 'bool':
            return ('true' if e[1] else 'false', P_ATOM, 'bool')
        if k == 'paren':
            t, p, ty = self.ex(e[1], env)
            return (t, p, ty)
        if k == 'var':
            if e[1] not in env:
                self.fail('unknown variable `%s`' % e[1])
            ty = env[e[1]]
            if not isinstance(ty, str) or ty.startswith('!'):
                self.fail('`%s` is not a value usable here' % e[1])
            return (lean_id(e[1]), P_ATOM, ty)
        if k == 'un' and e[1] == '*':
            return self.ex(e[2], env)
        if k == 'un' and e[1] == '!':
            t = self.ex(e[2], env)
            if t[2] in ('bool', 'prop'):
                return ('¬%s' % par(t, P_ATOM), 40, 'prop')
            self.fail('`!` on an integer')
        if k == 'path':
            segs = e[1]
            if len(segs) == 2 and segs[0] in WIDTH and e[2] is None:
                if segs[1] == 'MAX':
                    return ('2 ^ %d - 1' % WIDTH[segs[0]], P_ADD, segs[0])
                if segs[1] == 'BITS':
                    return (str(WIDTH[segs[0]]), P_ATOM, 'u32')
            self.fail('path `%s`' % '::'.join(segs))
        if k == 'cast':
            t, p, ty = self.ex(e[1], env)
            to = e[2]
            if to == '_':
                return (t, p, ty if ty != 'lit' else 'lit')
            if to not in WIDTH:
                self.fail('cast to `%s`' % to)
            if ty == 'lit':
                return (t, p, to)
            if ty not in WIDTH:
                self.fail('cast of a value of type %s' % ty)
            if WIDTH[to] < WIDTH[ty]:
                return ('%s %% %d' % (par((t, p), P_MUL), 2 ** WIDTH[to]) if WIDTH[to] <= 16 else
                        '%s %% 2 ^ %d' % (par((t, p), P_MUL), WIDTH[to]), P_MUL, to)
            return (t, p, to)
        if k == 'bin':
            op = e[1]
            a = self.ex(e[2], env)
            b = self.ex(e[3], env)
            if op in ('&&', '||'):
                if a[2] not in ('bool', 'prop') or b[2] not in ('bool', 'prop'):
                    self.fail('`%s` on non-boolean operands' % op)
                lo, p = ('∧', P_AND) if op == '&&' else ('∨', P_OR)
                return ('%s %s %s' % (par(a, p + 1), lo, par(b, p + 1)), p, 'prop')
            if op in ('<<', '>>'):
                ty = a[2] if a[2] != 'lit' else 'u64'
                if ty not in WIDTH or (b[2] not in WIDTH and b[2] != 'lit'):
                    self.fail('shift with operand types %s, %s' % (a[2], b[2]))
                if op == '>>':
                    return ('%s >>> %s' % (par(a, P_SHIFT), par(b, P_SHIFT + 1)), P_CMP + 1, ty)
                return ('(%s <<< %s) %% 2 ^ %d' % (par(a, P_SHIFT), par(b, P_SHIFT + 1), WIDTH[ty]), P_MUL, ty)
            ty = self.unify(a[2], b[2])
            if ty is None or ty in ('bool', 'prop') and op not in ('==', '!='):
                self.fail('operands of `%s` have types %s and %s' % (op, a[2], b[2]))
            if ty not in WIDTH and ty != 'lit' and ty not in ('bool',):
                self.fail('`%s` on values of type %s' % (op, ty))
            if op in ('==', '!=', '<', '<=', '>', '>='):
                lo = {'==': '=', '!=': '≠', '<': '<', '<=': '≤', '>': '>', '>=': '≥'}[op]
                return ('%s %s %s' % (par(a, P_CMP + 1), lo, par(b, P_CMP + 1)), P_CMP, 'prop')
            if op in ('&', '|', '^'):
                lo = {'&': '&&&', '|': '|||', '^': '^^^'}[op]
                # always parenthesised inside anything else; operands parenthesised unless atomic
                return ('%s %s %s' % (par(a, P_APP), lo, par(b, P_APP)), P_CMP + 1, ty)
            if op in ('+', '-'):
                return ('%s %s %s' % (par(a, P_ADD), op, par(b, P_ADD + 1)), P_ADD, ty)
            if op in ('*', '/', '%'):
                return ('%s %s %s' % (par(a, P_MUL), op, par(b, P_MUL + 1)), P_MUL, ty)
            self.fail('operator `%s`' % op)
        if k == 'method':
            recv, name, gen, args = e[1], e[2], e[3], e[4]
            if name == 'ilog2' and not args and not gen:
                t = self.ex(recv, env)
                return ('%s.log2' % par(t, P_ATOM), P_ATOM, 'u32')
            if name == 'cast' and not args and not gen:
                t = self.ex(recv, env)
                return (t[0], t[1], 'u64' if t[2] in WIDTH or t[2] == 'lit' else t[2])
            if name == 'wrapping_sub' and len(args) == 1 and not gen:
                a = self.ex(recv, env)
                b = self.ex(args[0], env)
                ty = self.unify(a[2], b[2])
                if ty == 'lit':
                    ty = 'u64'
                if ty not in WIDTH:
                    self.fail('wrapping_sub on %s' % ty)
                w = WIDTH[ty]
                return ('(%s + 2 ^ %d - %s) %% 2 ^ %d' % (par(a, P_ADD), w, par(b, P_ADD + 1), w), P_MUL, ty)
            self.fail('method `.%s()`' % name)
        self.fail('expression `%s` is not in the translated language' % k)

    def cond(self, e, env):
        """a condition as a decidable proposition"""
        t = self.ex(e, env)
        if t[2] == 'prop':
            return t[0], t[1]
        if t[2] == 'bool':
            return '%s = true' % par(t, P_CMP + 1), P_CMP
        self.fail('condition of type %s' % t[2])


def mentions(node, v):
    """does the AST mention the variable v (read or assigned)?"""
    if isinstance(node, tuple):
        if node and node[0] == 'var' and node[1] == v:
            return True
        if node and node[0] == 'closure':
            return v not in node[1] and mentions(node[2], v)
        if node and node[0] == 'macro':
            return any(t == ('id', v) for a in node[2] for t in a)
        return any(mentions(x, v) for x in node[1:])
    if isinstance(node, list):
        return any(mentions(x, v) for x in node)
    return False


def pat_binds(p):
    if p[0] == 'pbind':
        return [p[1]]
    if p[0] == 'pref':
        return pat_binds(p[1])
    if p[0] in ('ptuple', 'pctor'):
        return [x for q in p[-1] for x in pat_binds(q)]
    return []


def assigned_vars(stmts, local=None):
    """outer *variables* assigned in the statements (in order of first assignment)"""
    local = set(local or ())
    out = []

    def add(x):
        if x not in local and x not in out:
            out.append(x)

    def target(lhs):
        while lhs[0] in ('index', 'paren'):
            lhs = lhs[1]
        if lhs[0] == 'var':
            add(lhs[1])

    def walk_e(e):
        if not isinstance(e, tuple) or not e:
            return
        k = e[0]
        if k in ('if',):
            walk_e(e[1])
            for blk in (e[2], e[3] or []):
                for x in assigned_vars(blk, local):
                    add(x)
        elif k == 'iflet':
            walk_e(e[2])
            for x in assigned_vars(e[3], local | set(pat_binds(e[1]))):
                add(x)
            for x in assigned_vars(e[4] or [], local):
                add(x)
        elif k == 'match':
            walk_e(e[1])
            for pat, body in e[2]:
                for x in assigned_vars(body, local | set(pat_binds(pat))):
                    add(x)
        elif k == 'block':
            for x in assigned_vars(e[1], local):
                add(x)
        elif k == 'closure':
            for x in assigned_vars(e[2], local | set(e[1])):
                add(x)
        elif k == 'un' and e[1] == '&mut':
            target(e[2])
        elif k == 'macro':
            return
        else:
            for x in e[1:]:
                if isinstance(x, tuple):
                    walk_e(x)
                elif isinstance(x, list):
                    for y in x:
                        if isinstance(y, tuple):
                            walk_e(y)

    for s in stmts:
        k = s[0]
        if k == 'let':
            if s[3] is not None:
                walk_e(s[3])
            for x in pat_binds(s[1]):
                local.add(x)
        elif k == 'assign':
            walk_e(s[3])
            target(s[1])
        elif k == 'expr':
            walk_e(s[1])
        elif k in ('while',):
            walk_e(s[1])
            for x in assigned_vars(s[2], local):
                add(x)
        elif k == 'loop':
            for x in assigned_vars(s[1], local):
                add(x)
        elif k == 'for':
            walk_e(s[2])
            for x in assigned_vars(s[3], local | set(pat_binds(s[1]))):
                add(x)
        elif k == 'cfg':
            for x in assigned_vars([s[2]], local):
                add(x)
    return out
