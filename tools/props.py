"""Per-property check definitions and the common check driver."""
import json, os, random, sys, time
import vlib, gen, gen_dispatch, gen_stats
from vlib import log, ROOT

TRUSTED = [
    "Lean 4.33.0 kernel; axioms allowed: propext, Classical.choice, Quot.sound (audited with #print axioms on every listed theorem on every run)",
    "tools/translate*.py with the parsers rstok/rsbody/rsbodyx/rsx/rscps.py: regenerate lean/Dsi/Gen from the Rust source on every run (tables, constants, match-arm lists, and statement-by-statement method bodies of nearly every source file; DESIGN.md 4.1-bis); they fail closed; audited adversarially (audit/REPORT.md)",
    "tools/hygiene.py + tools/hygiene_expected.json: the structural guard (item inventory of the crate pinned; Props/HygieneGen.clean_Cnn per property); a reviewed structural change of the crate needs a re-pin",
    "correspondence check: harness/ (Rust, runs the real library), lean/Main.lean driver (compiled Lean model), tools/gen*.py generators, tools/vlib.py comparison; ghdriver (generated-vs-hand witness search, only consulted when an obligation fails)",
    "Lean compiler for the drivers (differential leg only)",
    "rustc/LLVM, core/std integer primitives, std::io (Cursor, read_exact, write_all), std::sync::Mutex, common_traits casts; 64-bit little-endian host",
]


class Prop:
    def __init__(self, pid, gens, note, builds=(((), 'release'),), ignore_ops=(), extra=None, timeout=300):
        self.pid, self.gens, self.note, self.builds, self.ignore_ops, self.extra, self.timeout = pid, gens, note, builds, ignore_ops, extra, timeout


def g(fn, **kw):
    return lambda rng, tier, ctx: fn(rng, tier, **kw)


PROPS = {}


def reg(p):
    PROPS[p.pid] = p


reg(Prop('C01', [g(gen.gen_C01)], 'writer byte image vs L3 model and L1 reference'))
reg(Prop('C02', [g(gen.gen_C02)], 'reader histories vs L3 model and L1 reference'))
reg(Prop('C03', [g(gen.gen_C03)], 'code round trips at offsets, all reader/writer kinds'))
reg(Prop('C04', [g(gen.gen_C04)], 'bytes written vs published codewords (Dsi.Spec)'))
def gen_C05_ctx(rng, tier, ctx):
    # ask the implementation which tables its reader constructors flag as beyond their look-ahead
    kinds = [('buf%d' % w, 'TB diag buf %d' % w) for w in (8, 16, 32, 64)] + [('bit', 'TB diag bit')]
    diag = {}
    if ctx.get('harness'):
        ans = vlib.run_lines(ctx['harness'], [q for _, q in kinds], 60)
        for (k, _), a in zip(kinds, ans):
            diag[k] = set() if a in ('-', '') else set(a.split(','))
    lines = [q for _, q in kinds]
    return lines + gen.gen_C05(rng, tier, diag)


reg(Prop('C05', [gen_C05_ctx], 'table-driven vs bit-by-bit coding: every table index at alignments, strict tails, boundary values; constructor diagnostics'))
def gen_C06(rng, tier, ctx):
    """len_* functions (all table options) as run-length lists over [0, 2^16), around powers of two and at
    the domain ends; the length returned by writes and the bits consumed by reads (sessions); the
    length-dispatch objects (D ... len)."""
    quick = tier == 'quick'
    lines = [l for l in gen_stats.gen_C20(rng, tier) if l.startswith('LEN')]
    for code, flags, p in gen_stats.code_cfgs(rng, quick):
        top = gen_stats.max_dense(code, p)
        lines.append('LEN %s %s %s 0 %d' % (code, flags, gen_stats.hx(p), min(1 << 16, top + 1)))
    sess = gen.gen_C03(rng, 'quick')
    lines += rng.sample(sess, min(len(sess), 2500 if quick else len(sess)))
    lines += [l for l in gen_dispatch.gen_C10(rng, tier) if ' len ' in l]
    # bits consumed by table-driven reads, for every index of every decoding table (one reader kind
    # per endianness in the quick tier): the position after the read must be the one the
    # bit-by-bit reference reaches
    t5 = gen.gen_C05(rng, tier, {})
    keep = ('rw=32 rk=buf strict=0 data',) if quick else ('rk=buf strict=0 data', 'rk=bit strict=1 data')
    lines += [l for l in t5 if any(k in l for k in keep) and 'rb=adapter' not in l]
    return lines


reg(Prop('C06', [gen_C06], 'len_* run lengths (formulas and tables) vs published codeword lengths; write returns and read positions; length dispatch', timeout=600))
reg(Prop('C07', [g(gen.gen_C07)], 'positions and seeks'))
reg(Prop('C08', [g(gen.gen_C08)], 'bulk copies with continuations'))
reg(Prop('C09', [g(gen.gen_C09)], 'truncated strict streams vs zero-extended'))
reg(Prop('C12', [g(gen.gen_C12)], 'io::Read / io::Write views'))
reg(Prop('C10', [lambda rng, tier, ctx: gen_dispatch.gen_C10(rng, tier)],
         'every dispatcher (Codes, ConstCode, function pointers, factory, statistics wrapper) vs the arms selected through '
         'the generated lists and vs the code\'s own method: bytes, values, positions, lengths'))
reg(Prop('C16', [lambda rng, tier, ctx: gen_dispatch.gen_C16(rng, tier)],
         'Display / FromStr / to_code_const / from_code_const / PartialEq vs the generated lists and vs hand-written expectations'))
reg(Prop('C11', [g(gen.gen_C11)], 'WordAdapter over fault-injecting Read/Write objects and Cursor'))
reg(Prop('C13', [g(gen.gen_C13)], 'in-memory word streams vs array+cursor'))
reg(Prop('C14', [g(gen.gen_C14)], 'counting / tracing wrappers vs bare streams'))
reg(Prop('C15', [g(gen_stats.gen_C15)], 'CodesStats totals / merges / threads / best code vs the Lean statistics model (generated offsets) '
         'and the documented sums; the best code is really used to encode', timeout=600))
reg(Prop('C20', [g(gen_stats.gen_C20)], 'len_* run lengths vs implemented formulas and published codeword lengths; FindChangePoints under a '
         'watchdog vs the iterator model and the least-change-point specification', timeout=600))
reg(Prop('C17', [g(gen.gen_C17)], 'zig-zag maps, all widths'))
reg(Prop('C18', [g(gen.gen_C18)], 'byte-level VByte vs bit-stream VByte and the published code'))


def gen_C19(rng, tier, ctx):
    import re
    lines = []
    sub = 'quick'
    for gfn, frac in ((gen.gen_C01, 0.15), (gen.gen_C03, 0.3), (gen.gen_C04, 0.1), (gen.gen_C08, 1.0), (gen.gen_C12, 0.5), (gen.gen_C02, 0.1)):
        ls = gfn(rng, sub)
        if tier == 'quick':
            ls = rng.sample(ls, int(len(ls) * frac))
        lines += ls
    # restrict to clean arguments: mask every raw field to its width
    def clean(m):
        v, n = int(m.group(1), 16), int(m.group(2))
        return 'wb x%x %d' % (v & ((1 << n) - 1) if n < 64 else v, n)
    lines = [re.sub(r'wb x([0-9a-f]+) (\d+)', clean, l) for l in lines]
    # the argument check itself: every width, every single dirty bit at or above it
    for e in gen.ES:
        for ww in gen.WW:
            for n in range(0, 65):
                base = rng.getrandbits(n) if n else 0
                lines.append('S e=%s ww=%d :: wb x%x %d ; wf ; wd' % (e, ww, base, n))
                for b in range(n, 64):
                    if tier == 'quick' and rng.random() > 0.25:
                        continue
                    lines.append('S e=%s ww=%d :: wb x3 2 ; wb x%x %d ; wf ; wd' % (e, ww, base | (1 << b), n))
    return lines


ALL_BUILDS = tuple((f, p) for p in ('release', 'dev') for f in ((), ('checks',), ('no_copy_impls',), ('checks', 'no_copy_impls')))
reg(Prop('C19', [gen_C19], 'the same scripts on every feature set x build profile; argument check fires iff dirty', builds=ALL_BUILDS, timeout=300))


def gen_lines(prop, tier, seed, ctx):
    rng = random.Random(seed * 1000003 + int(prop.pid[1:]))
    lines = []
    corpus = os.path.join(ROOT, 'corpus', prop.pid + '.scen')
    if os.path.exists(corpus):
        lines += [l.strip() for l in open(corpus) if l.strip() and not l.startswith('#')]
    ncorpus = len(lines)
    for gfn in prop.gens:
        lines += gfn(rng, tier, ctx)
    return lines, ncorpus


def compare_all(prop, lines, H, M, debug_build=False):
    findings = []
    nops = 0
    classes = set()
    for line, h, m in zip(lines, H, M):
        if h == 'NOTRUN':
            continue
        if line.startswith('S '):
            f, n, cl = vlib.compare_session(line, h, m, debug_build, prop.ignore_ops)
            nops += n
            classes |= set((vlib.cfg_sig(line).replace('strict=0', '').replace('strict=1', 's'),) + c for c in cl)
        else:
            f = vlib.compare_plain(line, h, m)
            nops += 1
            classes.add((line.split()[0], line.split()[1] if len(line.split()) > 1 else '', 'ok' if not f else 'diff'))
        findings += f
    return findings, nops, classes


def run_check(pid, tier, seed, replay, t0, skip_proofs=False):
    prop = PROPS[pid]
    os.makedirs(os.path.join(ROOT, 'replays'), exist_ok=True)
    broken = []          # proof obligations / correspondences that no longer check (names)
    # 1. translator
    ok, msg = vlib.translate()
    log('[%s] %s' % (pid, msg))
    if not ok:
        broken.append('translator: ' + msg)
    partial = [l for l in msg.splitlines() if l.startswith('translate: partial')]
    # 2. model driver
    drv_ok = vlib.build_driver()
    if not drv_ok:
        broken.append('lean driver does not build against the regenerated Dsi/Gen files')
    # 3. proofs
    aud = dict(obligations=[], discharged=[], failed=[], build_ok=True, axioms={}, modules=[])
    gate = []
    if not skip_proofs:
        aud = vlib.audit(pid)
        gate = vlib.grep_gate()
        for t, why in aud['failed']:
            broken.append('theorem %s: %s' % (t, why))
        if aud['failed'] and partial:
            broken.append(partial[0])
        for gline in gate:
            broken.append('forbidden construct: ' + gline)
        log('[%s] proofs: %d/%d discharged' % (pid, len(aud['discharged']), len(aud['obligations'])))
    # 4. harness (all requested builds, in parallel: separate target directories)
    bins = {}
    from concurrent.futures import ThreadPoolExecutor as _TPE
    # cold target directories (first run after a restore, or the scratch harness of a DSI_REPO copy): the
    # builds run one at a time (concurrent cold cargo builds in one package directory have failed spuriously)
    warm = all(vlib.harness_target_warm(feats, profile) for feats, profile in prop.builds)
    with _TPE(max_workers=4 if warm else 1) as ex:
        futs = {(tuple(feats), profile): ex.submit(vlib.harness_bin, feats, profile) for feats, profile in prop.builds}
    for key, fu in futs.items():
        b = fu.result()
        if b is None:
            broken.append('harness does not build against /repo (features=%s profile=%s)' % (','.join(key[0]) or 'default', key[1]))
        bins[key] = b
    main_bin = bins.get(((), 'release')) or next((b for b in bins.values() if b), None)
    ctx = dict(tier=tier, seed=seed, harness=main_bin, driver=vlib.DRIVER, bins=bins)
    findings = []
    nlines = nops = 0
    classes = set()
    samples = []
    ncorpus = 0
    distinct = 0
    if replay:
        lines = [l.strip() for l in open(replay) if l.strip() and not l.startswith('#')]
    elif main_bin and drv_ok:
        lines, ncorpus = gen_lines(prop, tier, seed, ctx)
    else:
        lines = []
    if lines and main_bin and drv_ok:
        if prop.extra and not replay:
            lines += prop.extra(ctx)
        t1 = time.time()
        from concurrent.futures import ThreadPoolExecutor
        with ThreadPoolExecutor(max_workers=2) as ex:
            fh = ex.submit(vlib.run_parallel, main_bin, lines, None, prop.timeout)
            fm = ex.submit(vlib.run_parallel, vlib.DRIVER, lines, None, prop.timeout)
            H, M = fh.result(), fm.result()
        log('[%s] ran %d scenarios in %.1fs' % (pid, len(lines), time.time() - t1))
        if len(M) != len(lines) or any(m in ('HANG', 'ABORT') for m in M):
            badl = [l for l, m in zip(lines, M) if m in ('HANG', 'ABORT')]
            print('MODEL-BUG: the Lean driver failed on %d/%d lines' % (len(badl), len(lines)))
            with open(os.path.join(ROOT, 'replays', '%s-modelbug.txt' % pid), 'w') as fo:
                fo.write('\n'.join(badl[:50]) + '\n')
            return 2
        findings, nops, classes = compare_all(prop, lines, H, M)
        nlines = len(lines) - sum(1 for h in H if h == 'NOTRUN')
        distinct = len(set(l for l, m in zip(lines, M) if any(c.isdigit() for c in m)))
        rs = random.Random(seed)
        for i in rs.sample(range(len(lines)), min(3, len(lines))):
            samples.append(dict(request=lines[i][:400], implementation=H[i][:200], model=M[i][:300]))
        # other builds (C19): the same scripts on every feature set / profile; the model is told
        # which options are compiled in (checks=1, copy=0) and must predict every build
        for key, b in bins.items():
            if b and b != main_bin:
                toks = ''
                if 'checks' in key[0]:
                    toks += ' checks=1'
                if 'no_copy_impls' in key[0]:
                    toks += ' copy=0'
                lines2 = [('S' + toks + l[1:]) if l.startswith('S ') else l for l in lines]
                with ThreadPoolExecutor(max_workers=2) as ex:
                    fh = ex.submit(vlib.run_parallel, b, lines2, None, prop.timeout)
                    fm = ex.submit(vlib.run_parallel, vlib.DRIVER, lines2, None, prop.timeout)
                    H2, M2 = fh.result(), fm.result()
                f2, n2, c2 = compare_all(prop, lines2, H2, M2, debug_build=(key[1] != 'release'))
                for f in f2:
                    f.sig = 'build=%s/%s|' % (','.join(key[0]) or 'default', key[1]) + f.sig
                findings += f2
                nops += n2
                classes |= set((key,) + c for c in c2)
                log('[%s] build %s/%s: %d scenarios, %d findings' % (pid, ','.join(key[0]) or 'default', key[1], len(lines2), len(f2)))
    # ---- GH (tools/vlib.py gh_search): theorems failed and the scenarios found no failing input: search for a
    # concrete input on which a regenerated definition and the hand model differ; replay it on the implementation
    gh_model, gh_nw, gh_nr = [], 0, 0
    failed_thms = [t for t, _ in aud['failed']]
    if failed_thms and not replay and not os.environ.get('VERIF_NO_GH') and not any(f.kind == 'violation' for f in findings):
        gh_cmp = lambda line, h, m: compare_all(prop, [line], [h], [m])[0]
        gh_bin = main_bin if drv_ok else None
        try:
            wit = vlib.gh_search(failed_thms, seed, 120 if tier == 'quick' else 400, hints=aud.get('culprits', []),
                                 confirm=(lambda w: bool(vlib.gh_replay([w], gh_bin, gh_cmp)[0])) if gh_bin else None)
        except Exception as ex:
            log('[%s] gh search failed: %r' % (pid, ex))
            wit = None
        if wit:
            gh_nw = len(wit)
            gv, gh_model = vlib.gh_replay(wit, gh_bin, gh_cmp)
            gh_nr = len(gv)
            findings += gv
        log('[%s] gh: %s witnesses, %d replayed as violations' % (pid, 'no search' if wit is None else len(wit), gh_nr))
    # ---- verdict
    viol = [f for f in findings if f.kind == 'violation']
    fid = [f for f in findings if f.kind != 'violation']
    known = vlib.load_known(pid)
    reported = []
    out_lines = []
    exit_code = 0

    def still_fails_factory(kind):
        def still(line):
            h = vlib.run_lines(main_bin, [line], 15)
            m = vlib.run_lines(vlib.DRIVER, [line], 60)
            if not h or not m:
                return False
            if line.startswith('S '):
                f, _, _ = vlib.compare_session(line, h[0], m[0], False, prop.ignore_ops)
            else:
                f = vlib.compare_plain(line, h[0], m[0])
            return any(x.kind == kind for x in f)
        return still

    def report(fs, kind, suffix=''):
        nonlocal exit_code
        by_sig = {}
        for f in fs:
            by_sig.setdefault(f.sig, []).append(f)
        n = 0
        for sig, group in by_sig.items():
            k = next((why for rx, why in known if rx.search(sig)), None)
            if k is not None:
                out_lines.append('KNOWN-FINDING: property=%s %s (%d scenarios; e.g. %s)' % (pid, k, len(group), sig))
                continue
            n += 1
            if n > 5:
                continue
            f = min(group, key=lambda x: len(x.line))
            line = f.line
            if line.startswith('S ') and main_bin:
                try:
                    line = vlib.shrink_session(line, still_fails_factory(kind))
                except Exception as ex:
                    log('shrink failed: %r' % ex)
            path = os.path.join(ROOT, 'replays', '%s-%s-%d.scen' % (pid, kind, n))
            with open(path, 'w') as fo:
                fo.write('# property=%s kind=%s signature=%s\n' % (pid, kind, sig))
                fo.write('# implementation=%s model=%s reference=%s (at op %d of the unshrunk scenario)\n' % (f.h, f.m3, f.m1, f.idx))
                fo.write('# %d scenarios with this signature; shrunk from: %s\n' % (len(group), f.line[:500]))
                if getattr(f, 'gh', None):
                    fo.write('# found by the generated-vs-hand search: `%s` -> translated %s, model %s\n' % (f.gh[1][:300], f.gh[2][:200], f.gh[3][:200]))
                fo.write(line + '\n')
            out_lines.append('VIOLATION property=%s replay=%s%s' % (pid, os.path.relpath(path, ROOT), suffix))
            exit_code = 1
        return n

    nv = report(viol, 'violation')
    if nv == 0 and (fid or broken):
        # a proof obligation or the model/implementation correspondence no longer checks and the
        # search found no input on which the implementation departs from the reference
        nf = report(fid, 'fidelity', ' no-failing-input-found') if fid else 0
        if broken:
            path = os.path.join(ROOT, 'replays', '%s-unproved.txt' % pid)
            with open(path, 'w') as fo:
                fo.write('# property=%s: the following proof obligations / correspondences no longer check\n' % pid)
                for b in broken:
                    fo.write(b + '\n')
                fo.write('# searched %d scenarios (%d operations) without finding a failing input\n' % (nlines, nops))
                if gh_model:
                    fo.write('# model-level witnesses: the translated code and the model differ on these inputs (`GH` requests of\n'
                             '# lean/GH.lean: `<translated> || <model>`); they could not be replayed on the implementation\n')
                    for w, req, note in gh_model:
                        fo.write('%s\n#   translated: %s\n#   model:      %s\n#   %s\n' % (w[1], w[2][:400], w[3][:400], note))
            out_lines.append('VIOLATION property=%s replay=%s no-failing-input-found' % (pid, os.path.relpath(path, ROOT)))
            exit_code = 1
    wall = time.time() - t0
    cov = dict(
        obligations=max(1, len(aud['obligations'])),
        discharged=len(aud['discharged']),
        checker_cmd='cd lean && lake build %s && lake env lean <audit file with #print axioms for each theorem>' % ' '.join(aud.get('modules', [])),
        trusted_base=TRUSTED,
        theorems=aud['obligations'],
        axioms=aud.get('axioms', {}),
        undischarged=[t for t, _ in aud['failed']],
        evaluations=nlines,
        operations_compared=nops,
        distinct_nontrivial=distinct,
        rule='scenario lines generated from VERIF_SEED by tools/gen.py (enumerated state x operation grids, value grids, random histories); '
             'distinct = different request text, non-trivial = the model produced at least one value; operations_compared counts '
             'individual operation outcomes compared between the implementation, the L3 model and the L1 reference',
        outcome_classes=len(classes),
        corpus_lines=ncorpus,
        samples=samples if samples else [dict(note='no scenario ran')],
        explanation=prop.note,
        violations_impl_vs_reference=len(viol),
        disagreements_impl_vs_model=len(fid),
        broken_obligations=broken,
        gh_witnesses=gh_nw,
        gh_replayed=gh_nr,
    )
    vlib.write_evidence(pid, tier, seed, cov, wall, len(viol), [
        'theorems are about the Lean model; the model is tied to the code by the translators (tables, constants, match arms, method bodies regenerated from the source and proved equal to the hand model) and by this differential run',
        'optimised-build behaviour at debug-only panic points (model outcome D) is unspecified and not compared'])
    for l in out_lines:
        print(l)
    log('[%s] %s tier: %d scenarios, %d ops, %d violations, %d fidelity diffs, %.1fs' % (pid, tier, nlines, nops, len(viol), len(fid), wall))
    return exit_code
