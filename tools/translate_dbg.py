#!/usr/bin/env python3
"""Translator for src/utils/dbg_codes.rs: every method of every `impl` block of `DbgBitReader` /
`DbgBitWriter` (the tracing wrappers: they print and forward) -> lean/Dsi/Gen/DbgBodies.lean.
The hand model of both wrappers is the identity (lean/Dsi/Glue/Wrappers.lean); the equality and
transparency theorems are in lean/Dsi/Props/DbgGen.lean.

The state of a `DbgBitReader<E, R>` is the state `ρ` of the wrapped `R` (the only other field is a
`PhantomData`), so `self.<inner>` is the state `s` itself.  Every `fn` of every impl block of the two
structs is translated statement by statement; nothing is compared against an expected text:

  let x = self.<inner>.m(args)?;      Res.bind (CALL) fun p => let x := p.1; let s := p.2; ..
  self.<inner>.m(args)?;              Res.bind (CALL) fun p => let s := p.2 (or `p`); ..
  self.<inner>.m(args);   (m returns nothing)     let s := CALL
  let r = self.<inner>.m(args);       a `Result` kept in a local: only printing may follow, and the
                                      function must end in `r`
  let x = e;   (e pure)               let x := e
  eprintln!(..) / println!(..) / eprint!(..) / print!(..)
                                      nothing, provided the first argument is a string literal and
                                      every other argument is a name, a literal, a field, `&x`, `*x`
                                      (arithmetic could panic on overflow, calls could do anything:
                                      both are refused)
  tail / `return ..;` as last statement:
      self.<inner>.m(args)            CALL                    (the result is forwarded as it is)
      Ok(e)  Ok(())  Ok(CALL?)        .ok (e, s)  .ok s  Res.bind ..
      r                               the kept `Result`
      nothing / `()`  (fn without a return type)      s
  CALL for m a method of `BitRead` / `BitWrite`        ri.readBits s args / wi.writeBits s args ..
  CALL for any other m (`read_gamma`, `bit_pos`, ..)   inner_m s args, with `inner_m` a parameter of
                                      the generated definition: the wrapped object's method `m`.
                                      Its result shape is known for `read_*` / `write_*` (a value),
                                      `bit_pos` (a value), `set_bit_pos` (no value); for an unknown
                                      method it is taken from the position of the call (forwarded
                                      tail) or the translation fails.
  arguments of CALL                   pure integer expressions over the parameters and locals
                                      (tools/rsx.py `Pure`): `n_bits - 1`, `value as usize + 1`, ..

Inherent impls: `fn new(x: R) -> Self { Self { <inner>: x, <marker>: .. } }` -> the identity, and
any other function goes through the same statement language (`self.<inner>` as a value is `s`).
Associated types must forward to the wrapped type (`type Error = R::Error`).  Everything else in an
impl block (consts, unknown items, `#[cfg]` on a method) is refused.

Besides one definition per method the file contains
  DbgR.impl (ri : RImpl ρ) : RImpl ρ      the five `BitRead` methods as an implementation record
  DbgW.impl (wi : WImpl ω) : WImpl ω      the three `BitWrite` methods
  DbgBitReader.methods / DbgBitWriter.methods : List String    every `Trait::method` translated
                                      (sorted), so that a method that appears or disappears changes
                                      a definition a theorem pins.
Fail-closed: anything not listed raises TranslateError and the output is replaced by a stub.
"""
import os, re, sys
sys.path.insert(0, os.path.dirname(os.path.abspath(__file__)))
from rstok import tokenize, match_close, split_top
import rsx
from rsx import err, lean_id, par, Pure, P_ATOM, P_APP, WIDTH

REL = 'src/utils/dbg_codes.rs'
OUT = 'DbgBodies.lean'

# method of the wrapped object -> (field of RImpl / WImpl, number of arguments, result shape)
#   'res' = Result<value, _>   'unitres' = Result<(), _>   'pure' = no result, cannot fail
R_PRIMS = {'read_bits': ('readBits', 1, 'res'), 'read_unary': ('readUnary', 0, 'res'), 'peek_bits': ('peekBits', 1, 'res'),
           'skip_bits': ('skipBits', 1, 'unitres'), 'skip_bits_after_peek': ('skipAfterPeek', 1, 'pure')}
W_PRIMS = {'write_bits': ('writeBits', 2, 'res'), 'write_unary': ('writeUnary', 1, 'res'), 'flush': ('flush', 0, 'res')}
R_FIELDS = ['readBits', 'peekBits', 'skipAfterPeek', 'skipBits', 'readUnary']     # order of `structure RImpl`
W_FIELDS = ['writeBits', 'writeUnary', 'flush']
KNOWN_EXTERN = {'bit_pos': (0, 'res'), 'set_bit_pos': (1, 'unitres')}
PRINT_MACROS = ('eprintln', 'println', 'eprint', 'print')
VALUE_TYPES = ('u64', 'usize', 'Self :: PeekWord', 'R :: PeekWord', 'W :: PeekWord')

STRUCTS = {
    'DbgBitReader': dict(tyvar='ρ', impl='ri', impl_ty='RImpl ρ', prims=R_PRIMS, prim_trait='BitRead', rec='DbgR',
                         fields=R_FIELDS),
    'DbgBitWriter': dict(tyvar='ω', impl='wi', impl_ty='WImpl ω', prims=W_PRIMS, prim_trait='BitWrite', rec='DbgW',
                         fields=W_FIELDS),
}


# --------------------------------------------------------------------------------------
# structs and impl blocks
# --------------------------------------------------------------------------------------

def generic_names(toks, j, what):
    """toks[j] = `<`: -> ([names of the type parameters], index after the closing `>`)"""
    p = rsx.Parser(toks, what)
    p.i = j
    p._angles()
    inner = toks[j + 1:p.i - 1]
    # a trailing `>>` closes two levels: _angles has consumed it; the inner list may then end one token early
    names, depth = [], 0
    prev = ('p', ',')
    for k, x in inner:
        if k == 'p' and x in ('<', '(', '['):
            depth += 1
        elif k == 'p' and x in ('>', ')', ']'):
            depth -= 1
        elif k == 'p' and x == '>>':
            depth -= 2
        if depth == 0 and k == 'id' and prev == ('p', ',') and x != 'const':
            names.append(x)
        if depth <= 0:
            prev = (k, x)
        if depth < 0:
            depth = 0
    return names, p.i


def struct_inner_field(toks, name):
    """the field of `struct name<.., T> { f: T, _marker: PhantomData<..> }` that holds the wrapped
    object (its type is a type parameter); every other field must be a `PhantomData`"""
    for i in range(len(toks) - 1):
        if toks[i] == ('id', 'struct') and toks[i + 1] == ('id', name):
            j = i + 2
            generics = []
            if toks[j] == ('p', '<'):
                generics, j = generic_names(toks, j, 'struct %s' % name)
            while toks[j] != ('p', '{'):
                if toks[j] == ('p', ';'):
                    err('struct %s has no named fields' % name)
                j += 1
            c = match_close(toks, j)
            inner, markers = [], []
            for part in split_top(toks[j + 1:c]):
                part = list(part)
                while part and part[0] == ('p', '#'):
                    part = part[match_close(part, 1) + 1:]
                if part and part[0] == ('id', 'pub'):
                    part = part[1:]
                    if part and part[0] == ('p', '('):
                        part = part[match_close(part, 0) + 1:]
                if not part:
                    continue
                if len(part) < 3 or part[0][0] != 'id' or part[1] != ('p', ':'):
                    err('struct %s: cannot read the field `%s`' % (name, rsx.text_of(part)))
                ty = rsx.text_of(part[2:])
                if ty in generics:
                    inner.append(part[0][1])
                elif re.match(r'^(core :: marker :: |std :: marker :: )?PhantomData <', ty):
                    markers.append(part[0][1])
                else:
                    err('struct %s: field `%s` of type `%s` is state the identity model does not have' % (name, part[0][1], ty))
            if len(inner) != 1:
                err('struct %s: cannot tell the wrapped object (candidates %r)' % (name, inner))
            return inner[0], markers
    err('struct %s not found' % name)


def impl_blocks(toks):
    """every top-level `impl` of the file: (trait | None, struct name, [generic names], open, close, header text)"""
    out = []
    for hdr, o, c in rsx.find_impls(toks, lambda h: True):
        # locate the `impl` token of this block: the header ends at o
        i = o
        while toks[i] != ('id', 'impl'):
            i -= 1
        # (find_impls scans forward from `impl` to the first `{`, so the nearest `impl` before o is it)
        j = i + 1
        generics = []
        if toks[j] == ('p', '<'):
            generics, j = generic_names(toks, j, hdr)
        rest = toks[j:o]
        w = [k for k, t in enumerate(rest) if t == ('id', 'where')]
        if w:
            rest = rest[:w[0]]
        f = [k for k, t in enumerate(rest) if t == ('id', 'for')]
        if len(f) > 1:
            err('`%s`: higher-ranked bounds are not understood' % hdr)
        if f:
            tr, ty = rest[:f[0]], rest[f[0] + 1:]
            if rest and rest[0] == ('p', '!'):
                err('`%s`: negative impl' % hdr)
            # the trait: a path, possibly with generic arguments; its last path segment names it
            segs = []
            depth = 0
            for k, x in tr:
                if k == 'p' and x == '<':
                    depth += 1
                elif k == 'p' and x == '>':
                    depth -= 1
                elif k == 'p' and x == '>>':
                    depth -= 2
                elif depth == 0 and k == 'id':
                    segs.append(x)
            if not segs:
                err('`%s`: cannot read the trait' % hdr)
            trait = segs[-1]
        else:
            trait, ty = None, rest
        if not ty or ty[0][0] != 'id':
            err('`%s`: cannot read the implementing type' % hdr)
        out.append((trait, ty[0][1], generics, o, c, hdr))
    return out


def impl_items(toks, o, c, what):
    """the items of an impl body: [('fn', index of `fn`)] / [('type', name, rhs tokens)]"""
    items = []
    i = o + 1
    while i < c:
        t = toks[i]
        if t == ('p', '#'):
            i = match_close(toks, i + 1) + 1      # attributes are looked at by parse_fn_at (cfg is refused)
            continue
        if t == ('id', 'pub'):
            i += 1
            if toks[i] == ('p', '('):
                i = match_close(toks, i) + 1
            continue
        if t == ('id', 'fn'):
            items.append(('fn', i))
            j = i
            while toks[j] != ('p', '{'):
                if toks[j] == ('p', ';') or j >= c:
                    err('%s: a function without a body' % what)
                j += 1
            i = match_close(toks, j) + 1
            continue
        if t == ('id', 'type'):
            j = i
            while toks[j] != ('p', ';'):
                j += 1
            if toks[i + 2] != ('p', '='):
                err('%s: cannot read the associated type `%s`' % (what, rsx.text_of(toks[i:j])))
            for a in rsx.attrs_before(toks, i, o + 1):
                err('%s: attribute #[%s] on an associated type' % (what, a))
            items.append(('type', toks[i + 1][1], toks[i + 3:j]))
            i = j + 1
            continue
        err('%s: item starting with `%s` is not understood' % (what, rsx.text_of(toks[i:i + 4])))
    return items


# --------------------------------------------------------------------------------------
# one method
# --------------------------------------------------------------------------------------

class Method:
    def __init__(self, fn, S, inner_f, what, is_prim_trait):
        self.fn, self.S, self.inner_f, self.what = fn, S, inner_f, what
        self.pure = Pure(what, hook=self.hook)
        self.externs = []          # [(lean name, n args, shape)]: the wrapped object's non-BitRead/BitWrite methods called
        self.uses_impl = is_prim_trait     # methods of the BitRead / BitWrite impl always take the record
        self.lines = []
        self.tmp = 0
        self.pending = None        # name of a local holding an unexamined `Result` of the wrapped object

    def fail(self, msg):
        err('%s: %s' % (self.what, msg))

    def hook(self, e, env):
        if rsx.mentions(e, 'self') and e[0] in ('field', 'var'):
            self.fail('`self` used as a value (`%s`)' % e[0])
        return None

    # ---- calls of the wrapped object ----
    def is_inner_call(self, e):
        return e[0] == 'method' and e[1] == ('field', ('var', 'self'), self.inner_f)

    def inner_call(self, e, env, position):
        """`self.<inner>.m(args)` -> (Lean text, shape).  position: 'value' (its `?` value is used),
        'stmt' (`..?;` / `..;`), 'tail' (forwarded as the function's result: shape must be ret_shape)"""
        if e[3]:
            self.fail('turbofish on the forwarded call `%s`' % e[2])
        if self.pending is not None:
            self.fail('a call of the wrapped object after its `Result` `%s` was put aside unexamined' % self.pending)
        m, args = e[2], e[4]
        for a in args:
            if rsx.mentions(a, 'self'):
                self.fail('`self` in an argument of the forwarded call `%s`' % m)
        ats = []
        for a in args:
            t = self.pure.ex(a, env)
            if t[2] not in WIDTH and t[2] != 'lit':
                self.fail('argument of `%s` of type %s' % (m, t[2]))
            ats.append(par(t, P_ATOM))
        prims = self.S['prims']
        if m in prims:
            fld, n, shape = prims[m]
            if len(args) != n:
                self.fail('`%s` with %d arguments' % (m, len(args)))
            self.uses_impl = True
            return ' '.join(['%s.%s' % (self.S['impl'], fld), 's'] + ats), shape
        if m in KNOWN_EXTERN:
            n, shape = KNOWN_EXTERN[m]
            if len(args) != n:
                self.fail('`%s` with %d arguments' % (m, len(args)))
        elif re.match(r'^(read|write)_[a-z0-9_]+$', m):
            shape = 'res'
        elif position == 'tail':
            shape = self.ret_shape
        else:
            self.fail('the result shape of the wrapped object\'s method `%s` is not known' % m)
        ext = 'inner_' + m
        for (x, n, sh) in self.externs:
            if x == ext and (n, sh) != (len(args), shape):
                self.fail('`%s` is called with two different shapes' % m)
        if (ext, len(args), shape) not in self.externs:
            self.externs.append((ext, len(args), shape))
        return ' '.join([lean_id(ext), 's'] + ats), shape

    # ---- printing ----
    def print_only(self, mac):
        name, args = mac[1], mac[2]
        if not args or len(args[0]) != 1 or args[0][0][0] != 'str':
            self.fail('`%s!` whose first argument is not a string literal' % name)
        for a in args[1:]:
            if not a:
                continue
            p = rsx.Parser(list(a), self.what)
            e = p.expr()
            if p.i != len(a):
                self.fail('cannot read the `%s!` argument `%s`' % (name, rsx.text_of(a)))
            self.print_arg(e, rsx.text_of(a), name)

    def print_arg(self, e, txt, name):
        k = e[0]
        if k in ('num', 'bool', 'var'):
            return
        if k == 'field' or k == 'paren':
            return self.print_arg(e[1], txt, name)
        if k == 'un' and e[1] in ('&', '*'):
            return self.print_arg(e[2], txt, name)
        self.fail('a `%s!` argument is more than a name / field / reference (`%s`): it could panic or have an effect' % (name, txt))

    # ---- statements ----
    def bind(self, call, shape, var, pad):
        """emit the bind of a `?`-ed call; var: Lean name for the value or None"""
        L = self.lines
        if shape == 'res':
            L.append('%sRes.bind (%s) fun p =>' % (pad, call))
            if var is not None:
                L.append('%slet %s := p.1' % (pad, var))
            L.append('%slet s := p.2' % pad)
        elif shape == 'unitres':
            L.append('%sRes.bind (%s) fun p =>' % (pad, call))
            L.append('%slet s := p' % pad)
            if var is not None:
                L.append('%slet %s := ()' % (pad, var))
        else:
            self.fail('`?` on a call that returns no `Result`')

    def stmt(self, st, env, pad):
        L = self.lines
        k = st[0]
        if k == 'expr' and st[1][0] == 'macro':
            if st[1][1] in PRINT_MACROS:
                self.print_only(st[1])
                L.append('%s-- %s!(..)   (prints only)' % (pad, st[1][1]))
                return
            self.fail('macro `%s!`' % st[1][1])
        if k == 'expr' and st[1] == ('tuple', []):
            return
        if k == 'let':
            pat, ty, init = st[1], st[2], st[3]
            if init is None:
                self.fail('`let` without a value')
            if pat[0] == 'pwild':
                name = None
            elif pat[0] == 'pbind' and not pat[2]:
                name = pat[1]
            else:
                self.fail('`let` pattern')
            if init[0] == 'try' and self.is_inner_call(init[1]):
                call, shape = self.inner_call(init[1], env, 'value')
                self.bind(call, shape, lean_id(name) if name else None, pad)
                if name:
                    env[name] = 'u64' if shape == 'res' else '!unit'
                return
            if self.is_inner_call(init):
                call, shape = self.inner_call(init, env, 'value')
                if shape == 'pure':
                    L.append('%slet s := %s' % (pad, call))
                    if name:
                        env[name] = '!unit'
                    return
                if name is None:
                    self.fail('a `Result` of the wrapped object is discarded')
                env[name] = ('!result', call, shape)
                self.pending = name
                L.append('%s-- (the `Result` `%s` is kept unexamined)' % (pad, name))
                return
            if rsx.mentions(init, 'self'):
                self.fail('`self` in a `let` value')
            t = self.pure.ex(init, env)
            if name:
                L.append('%slet %s := %s' % (pad, lean_id(name), t[0]))
                env[name] = t[2] if t[2] != 'lit' else 'u64'
            return
        if k == 'expr':
            e = st[1]
            if e[0] == 'try' and self.is_inner_call(e[1]):
                call, shape = self.inner_call(e[1], env, 'stmt')
                self.bind(call, shape, None, pad)
                return
            if self.is_inner_call(e):
                call, shape = self.inner_call(e, env, 'stmt')
                if shape != 'pure':
                    self.fail('the `Result` of `%s` is discarded' % e[2])
                L.append('%slet s := %s' % (pad, call))
                return
        self.fail('statement `%s` is not in the translated language' % (st[1][0] if k == 'expr' else k))

    def tail(self, e, env, pad):
        """the value the function returns"""
        L = self.lines
        rs = self.ret_shape
        while e is not None and e[0] == 'paren':
            e = e[1]
        if e is None or e == ('tuple', []):
            if rs != 'pure':
                self.fail('the function ends without a value')
            L.append('%ss' % pad)
            return
        if self.is_inner_call(e):
            call, shape = self.inner_call(e, env, 'tail')
            if shape != rs:
                self.fail('`%s` is forwarded as the result of a function of another shape' % e[2])
            L.append('%s%s' % (pad, call))
            return
        if e[0] == 'var' and isinstance(env.get(e[1]), tuple) and env[e[1]][0] == '!result':
            _, call, shape = env[e[1]]
            if shape != rs:
                self.fail('`%s` is returned from a function of another shape' % e[1])
            self.pending = None
            L.append('%s%s' % (pad, call))
            return
        if e[0] == 'call' and e[1] == ('var', 'Ok') and len(e[2]) == 1:
            a = e[2][0]
            while a[0] == 'paren':
                a = a[1]
            if rs == 'unitres':
                if a == ('tuple', []):
                    L.append('%s.ok s' % pad)
                    return
                if a[0] == 'var' and env.get(a[1]) == '!unit':
                    L.append('%s.ok s' % pad)
                    return
                if a[0] == 'try' and self.is_inner_call(a[1]):
                    call, shape = self.inner_call(a[1], env, 'value')
                    if shape != 'unitres':
                        self.fail('`Ok(..?)` of a value in a function returning `Result<(), _>`')
                    self.bind(call, shape, None, pad)
                    L.append('%s.ok s' % pad)
                    return
                self.fail('`Ok(..)` of a value in a function returning `Result<(), _>`')
            if rs == 'res':
                if a[0] == 'try' and self.is_inner_call(a[1]):
                    call, shape = self.inner_call(a[1], env, 'value')
                    if shape != 'res':
                        self.fail('`Ok(..?)` of a call without a value')
                    self.bind(call, shape, 'v', pad)
                    L.append('%s.ok (v, s)' % pad)
                    return
                if rsx.mentions(a, 'self'):
                    self.fail('`self` in the returned value')
                t = self.pure.ex(a, env)
                if t[2] not in WIDTH and t[2] != 'lit':
                    self.fail('the returned value has type %s' % t[2])
                L.append('%s.ok (%s, s)' % (pad, t[0]))
                return
            self.fail('`Ok(..)` in a function that returns no `Result`')
        self.fail('the final expression `%s` is not in the translated language' % e[0])

    def emit(self, tyvar_name):
        fn = self.fn
        S = self.S
        if fn['generics']:
            self.fail('generic method')
        if fn['recv'] not in ('&mut self', '&self'):
            self.fail('receiver `%s`' % fn['recv'])
        env = {}
        binders = ''
        for x, mut, ty in fn['params']:
            if ty not in ('usize', 'u64') or mut:
                self.fail('parameter `%s` of type `%s`' % (x, ty))
            env[x] = ty
            binders += ' (%s : Nat)' % lean_id(x)
        r = fn['ret']
        if r is None or r.replace(' ', '') == '()':
            self.ret_shape = 'pure'
        else:
            m = re.match(r'^Result < (.*) , ([^,]*)$', r)
            if not m or not m.group(2).rstrip(' >').endswith(':: Error'):
                self.fail('return type `%s`' % r)
            # `Result < T , E >`: T
            inner = r[len('Result < '):]
            inner = inner[:inner.rindex(',')].strip()
            if inner == '( )':
                self.ret_shape = 'unitres'
            elif inner in VALUE_TYPES:
                self.ret_shape = 'res'
            else:
                self.fail('return type `%s`' % r)
        body = list(fn['body'])
        last = None
        if body and body[-1][0] == 'expr' and not body[-1][2]:
            last = body.pop()[1]
        elif body and body[-1][0] == 'expr' and body[-1][1][0] == 'return':
            last = body.pop()[1]
        if last is not None and last[0] == 'return':
            last = last[1]
        for st in body:
            if st[0] == 'expr' and st[1][0] == 'return':
                self.fail('`return` before the end of the body')
            self.stmt(st, env, '  ')
        self.tail(last, env, '  ')
        if self.pending is not None:
            self.fail('the `Result` `%s` of the wrapped object is dropped' % self.pending)
        tv = S['tyvar']
        hdr = '{%s : Type}' % tv
        if self.uses_impl:
            hdr += ' (%s : %s)' % (S['impl'], S['impl_ty'])
        for ext, n, shape in self.externs:
            res = {'res': 'Res (Nat × %s)' % tv, 'unitres': 'Res %s' % tv, 'pure': tv}[shape]
            hdr += ' (%s : %s)' % (lean_id(ext), ' → '.join([tv] + ['Nat'] * n + [res]))
        hdr += ' (s : %s)' % tv
        ret = {'res': 'Res (Nat × %s)' % tv, 'unitres': 'Res %s' % tv, 'pure': tv}[self.ret_shape]
        return hdr + binders, ret, self.lines


def translate_new(toks, idx, S, sname, inner_f, markers, what):
    """`fn new(x: R) -> Self { Self { <inner>: x, <marker>: <a PhantomData value> } }` -> the identity"""
    for atxt in rsx.attrs_before(toks, idx, 0):
        if atxt.startswith('cfg'):
            err('%s: the function is under #[%s]' % (what, atxt))
    j = idx + 2
    if toks[j] != ('p', '('):
        err('%s: generic constructor' % what)
    pc = match_close(toks, j)
    params = split_top(toks[j + 1:pc])
    params = [p for p in params if p]
    if len(params) != 1 or len(params[0]) < 3 or params[0][0][0] != 'id' or params[0][1] != ('p', ':'):
        err('%s: expected one parameter (the wrapped object)' % what)
    x = params[0][0][1]
    k = pc + 1
    if rsx.text_of(toks[k:k + 2]) != '-> Self' or toks[k + 2] != ('p', '{'):
        err('%s: return type is not `Self`' % what)
    bc = match_close(toks, k + 2)
    body = toks[k + 3:bc]
    if len(body) < 3 or body[0] not in (('id', 'Self'), ('id', sname)) or body[1] != ('p', '{') or match_close(body, 1) != len(body) - 1:
        err('%s: the body is not a single struct literal' % what)
    seen = {}
    for part in split_top(body[2:-1]):
        if not part:
            continue
        if len(part) == 1 and part[0][0] == 'id':
            seen[part[0][1]] = [part[0]]
        elif len(part) >= 3 and part[0][0] == 'id' and part[1] == ('p', ':'):
            seen[part[0][1]] = list(part[2:])
        else:
            err('%s: cannot read the field initialiser `%s`' % (what, rsx.text_of(part)))
    if seen.get(inner_f) != [('id', x)]:
        err('%s: the field `%s` is not initialised with the parameter `%s`' % (what, inner_f, x))
    for f, v in seen.items():
        if f == inner_f:
            continue
        if f not in markers:
            err('%s: unknown field `%s`' % (what, f))
        if rsx.text_of(v) not in ('Default :: default ( )', 'core :: marker :: PhantomData', 'PhantomData',
                                  'std :: marker :: PhantomData', 'core :: marker :: PhantomData :: default ( )',
                                  'PhantomData :: default ( )'):
            err('%s: marker field `%s` initialised with `%s`' % (what, f, rsx.text_of(v)))
    if set(seen) != set([inner_f] + markers):
        err('%s: not every field is initialised' % what)
    tv = S['tyvar']
    return ['/-- `%s` (%s): the wrapped object is the whole state -/' % (what, REL),
            'def %s.new {%s : Type} (%s : %s) : %s :=' % (sname, tv, lean_id(x), tv, tv),
            '  -- Self { %s: %s, .. }' % (inner_f, x),
            '  %s' % lean_id(x), '']


def gen(src):
    rsx.Ctx.rel = REL
    toks = tokenize(src(REL))
    rsx.check_no_alias(toks, REL)
    out = []
    inner = {}
    for sname in STRUCTS:
        inner[sname] = struct_inner_field(toks, sname)
    methods = {s: [] for s in STRUCTS}
    prim_defs = {s: {} for s in STRUCTS}
    for trait, sname, generics, o, c, hdr in impl_blocks(toks):
        if sname not in STRUCTS:
            err('`%s`: an impl for a type this translator does not know' % hdr)
        S = STRUCTS[sname]
        inner_f, markers = inner[sname]
        tname = trait or 'Self'
        bwhat = 'impl %s for %s' % (trait, sname) if trait else 'impl %s' % sname
        for a in rsx.attrs_before(toks, [k for k in range(o, -1, -1) if toks[k] == ('id', 'impl')][0], 0):
            if a.startswith('cfg'):
                err('%s: the impl is under #[%s]' % (bwhat, a))
        for it in impl_items(toks, o, c, bwhat):
            if it[0] == 'type':
                rhs = rsx.text_of(it[2])
                ok = any(rhs == '%s :: %s' % (g, it[1]) or re.match(r'^< %s as \w+( < \w+ >)? > :: %s$' % (g, it[1]), rhs)
                         for g in generics)
                if not ok:
                    err('%s: `type %s = %s` does not forward to the wrapped type' % (bwhat, it[1], rhs))
                continue
            idx = it[1]
            m = toks[idx + 1][1]
            what = '%s: fn %s' % (bwhat, m)
            if (tname, m) in [(t, n) for t, n in methods[sname]]:
                err('%s: defined twice' % what)
            if trait is None and m == 'new':
                out += translate_new(toks, idx, S, sname, inner_f, markers, what)
                methods[sname].append((tname, m))
                continue
            fn = rsx.parse_fn_at(toks, idx, what)
            is_prim = trait == S['prim_trait']
            M = Method(fn, S, inner_f, what, is_prim)
            hdrtxt, ret, lines = M.emit(S['tyvar'])
            if is_prim:
                if m not in S['prims']:
                    err('%s: `%s` overrides a provided method of `%s` (the model runs the trait\'s default there)' % (what, m, trait))
                if M.externs:
                    err('%s: a `%s` method calls `%s` of the wrapped object' % (what, trait, M.externs[0][0][6:]))
                fld, n, shape = S['prims'][m]
                if len(fn['params']) != n or M.ret_shape != shape:
                    err('%s: signature does not fit `%s::%s`' % (what, trait, m))
                prim_defs[sname][fld] = m
            if any(n == m for _, n in methods[sname]):
                err('%s: a second method named `%s`' % (what, m))
            methods[sname].append((tname, m))
            out.append('/-- `%s` (%s) -/' % (what, REL))
            out.append('def %s.%s %s : %s :=' % (sname, lean_id(m), hdrtxt, ret))
            out += lines
            out.append('')
    for sname, S in STRUCTS.items():
        missing = [f for f in S['fields'] if f not in prim_defs[sname]]
        if missing:
            err('impl %s for %s: no definition of %s' % (S['prim_trait'], sname, ', '.join(missing)))
        out.append('/-- `impl %s<E> for %s` as an implementation record over the wrapped implementation -/' % (S['prim_trait'], sname))
        out.append('def %s.impl {%s : Type} (%s : %s) : %s :=' % (S['rec'], S['tyvar'], S['impl'], S['impl_ty'], S['impl_ty']))
        flds = ['%s := %s.%s %s' % (f, sname, lean_id(prim_defs[sname][f]), S['impl']) for f in S['fields']]
        out.append('  { ' + ',\n    '.join(flds) + ' }')
        out.append('')
        out.append('/-- every method of every impl block of `%s` (sorted) -/' % sname)
        out.append('def %s.methods : List String :=' % sname)
        out.append('  [%s]' % ', '.join('"%s::%s"' % tm for tm in sorted(methods[sname])))
        out.append('')
    return out


def main(write_if_changed, HEADER, src, TranslateError):
    rsx.Ctx.TE = TranslateError
    head = [HEADER.rstrip('\n'),
            '-- (tools/translate_dbg.py: every method of `DbgBitReader` / `DbgBitWriter`, src/utils/dbg_codes.rs, statement by',
            '-- statement.  The state of the wrapper is the state `s` of the wrapped object; `inner_m` is the wrapped',
            '-- object\'s method `m`.)',
            'import Dsi.Prog', '', 'namespace Dsi.Gen', 'open Dsi',
            'set_option linter.unusedVariables false', '']
    try:
        body = gen(src)
    except TranslateError as ex:
        write_if_changed(OUT, '\n'.join(head + ['-- TRANSLATION FAILED: %s' % str(ex).replace('\n', ' '), '',
                                                'end Dsi.Gen', '']))
        raise
    return ['DbgBodies'] if write_if_changed(OUT, '\n'.join(head + body + ['end Dsi.Gen', ''])) else []


if __name__ == '__main__':
    import translate
    try:
        print(main(translate.write_if_changed, translate.HEADER, translate.src, translate.TranslateError))
    except translate.TranslateError as ex:
        print('translate: ERROR: %s' % ex)
        sys.exit(3)
