#!/usr/bin/env python3
"""Adversarial audit of the Rust->Lean translators (tools/translate*.py).

For every edit in the catalogue (catalogue.json, produced by catalogue_src.py):
  1. apply it to a scratch copy of /repo,
  2. `cargo check --offline` (only edits that compile count),
  3. run the translators with DSI_REPO pointing at the scratch copy, into an isolated output
     directory (a symlinked `tools` directory makes translate.py write to work-N/lean/Dsi/Gen),
  4. diff the generated files against the baseline (raw, and with Lean comments stripped),
  5. revert.

Outcomes:  nocompile | a (translator failed closed, exit 3) | b (Gen differs in code) |
           c-comment (Gen differs only in comments / doc strings) | c (Gen byte-identical)

Usage:
  audit.py run [--jobs N] [--only ID_PREFIX,...] [--out results.json]
  audit.py build ID [ID ...]      # for (b) outcomes: copy that Gen into the tree, lake build the
                                  # modules that import the changed Gen files, record pass/fail, restore
  audit.py sample [N]                 # ids of up to N not-yet-built (b) outcomes per changed Gen file
  audit.py summary [results.json]

Environment: AUDIT_TOOLS=<dir> selects the translators to run (default: verif/tools; tools-orig/ is the copy
as found, before the fixes of this audit); AUDIT_TAG=<x> keeps that run's scratch directories
(repo-copy-<x>N, target-<x>N, work-<x>N, gen-mut<x>) apart.  Scratch directories are recreated on demand.
"""
import json, os, shutil, subprocess, sys, re, time, hashlib
from concurrent.futures import ThreadPoolExecutor

# scratch area (outside /repo and /verif; safe to delete) and the verification tree whose translators are audited
ROOT = os.environ.get('AUDIT_ROOT', '/tmp/dsi-audit')
VERIF = os.environ.get('AUDIT_VERIF', os.path.dirname(os.path.dirname(os.path.abspath(__file__))))
os.makedirs(ROOT, exist_ok=True)
# which translators to run: the (fixed) ones of the tree, or AUDIT_TOOLS=/tmp/ag/audit/tools-orig (pre-fix copy)
TOOLS = os.environ.get('AUDIT_TOOLS', os.path.join(VERIF, 'tools'))
TAG = os.environ.get('AUDIT_TAG', '')
BASE = os.path.join(ROOT, 'gen-baseline')
CAT = os.path.join(os.path.dirname(os.path.abspath(__file__)), 'catalogue.json')
PRISTINE = '/repo'


def sh(cmd, cwd=None, env=None, timeout=1800):
    e = dict(os.environ)
    if env:
        e.update(env)
    p = subprocess.run(cmd, cwd=cwd, env=e, stdout=subprocess.PIPE, stderr=subprocess.STDOUT,
                       timeout=timeout, shell=isinstance(cmd, str))
    return p.returncode, p.stdout.decode('utf-8', 'replace')


def strip_lean_comments(text):
    """remove `-- ...` line comments and `/- ... -/` (incl. doc) block comments, respecting strings"""
    out = []
    i, n = 0, len(text)
    while i < n:
        c = text[i]
        if c == '"':
            j = i + 1
            while j < n and text[j] != '"':
                j += 2 if text[j] == '\\' else 1
            out.append(text[i:j + 1]); i = j + 1; continue
        if text.startswith('--', i):
            j = text.find('\n', i)
            i = n if j < 0 else j
            continue
        if text.startswith('/-', i):
            depth, i = 1, i + 2
            while i < n and depth:
                if text.startswith('/-', i): depth += 1; i += 2
                elif text.startswith('-/', i): depth -= 1; i += 2
                else: i += 1
            continue
        out.append(c); i += 1
    # normalise whitespace
    return '\n'.join(l.rstrip() for l in ''.join(out).split('\n') if l.strip())


def read(p):
    with open(p, encoding='utf-8') as f:
        return f.read()


def apply_one(repo, file, old, new, nth=None):
    p = os.path.join(repo, file)
    s = read(p)
    cnt = s.count(old)
    if cnt == 0:
        raise ValueError('old text not found in %s: %r' % (file, old[:60]))
    if nth is None:
        if cnt != 1:
            raise ValueError('old text occurs %d times in %s (give nth): %r' % (cnt, file, old[:60]))
        s2 = s.replace(old, new, 1)
    elif nth == 'all':
        s2 = s.replace(old, new)
    else:
        idx = -1
        for _ in range(nth):
            idx = s.find(old, idx + 1)
            if idx < 0:
                raise ValueError('occurrence %d of old text not found in %s' % (nth, file))
        s2 = s[:idx] + new + s[idx + len(old):]
    with open(p, 'w', encoding='utf-8') as f:
        f.write(s2)


def parts_of(e):
    ps = [dict(file=e['file'], old=e['old'], new=e['new'], nth=e.get('nth'), create=e.get('create', False))]
    for m in e.get('more', []):
        ps.append(dict(file=m.get('file', e['file']), old=m['old'], new=m['new'], nth=m.get('nth'), create=m.get('create', False)))
    return ps


class Worker:
    def __init__(self, k):
        self.k = k
        self.repo = os.path.join(ROOT, 'repo-copy-%s%d' % (TAG, k))
        self.target = os.path.join(ROOT, 'target-%s%d' % (TAG, k))
        self.work = os.path.join(ROOT, 'work-%s%d' % (TAG, k))
        if not os.path.exists(self.repo):
            shutil.copytree(PRISTINE, self.repo, symlinks=True, ignore=shutil.ignore_patterns('target', '.git'))
        os.makedirs(self.work, exist_ok=True)
        # a REAL directory of per-file symlinks: translate.py locates its output as
        # dirname(abspath(__file__))/../lean/Dsi/Gen, and `..` of a symlinked directory would
        # resolve into the real tree
        tdir = os.path.join(self.work, 'tools')
        if os.path.islink(tdir):
            os.unlink(tdir)
        os.makedirs(tdir, exist_ok=True)
        for f in os.listdir(tdir):
            os.unlink(os.path.join(tdir, f))
        for f in os.listdir(TOOLS):
            if f.endswith(('.py', '.json')):
                os.symlink(os.path.join(TOOLS, f), os.path.join(tdir, f))
        self.gen = os.path.join(self.work, 'lean', 'Dsi', 'Gen')

    def restore(self, files):
        for f in files:
            if os.path.exists(os.path.join(PRISTINE, f)):
                shutil.copyfile(os.path.join(PRISTINE, f), os.path.join(self.repo, f))
            elif os.path.exists(os.path.join(self.repo, f)):
                os.unlink(os.path.join(self.repo, f))      # a file the edit created

    def cargo(self, features=None):
        cmd = ['cargo', 'check', '--offline', '--quiet', '--lib']
        if features:
            cmd += ['--features', features]
        rc, out = sh(cmd, cwd=self.repo, env={'CARGO_NET_OFFLINE': 'true', 'CARGO_TARGET_DIR': self.target,
                                              'RUSTFLAGS': '-Awarnings'}, timeout=900)
        return rc, out

    def translate(self):
        if os.path.exists(self.gen):
            shutil.rmtree(self.gen)
        shutil.copytree(BASE, self.gen)
        rc, out = sh(['python3', os.path.join(self.work, 'tools', 'translate.py')], cwd=self.work,
                     env={'DSI_REPO': self.repo, 'PYTHONDONTWRITEBYTECODE': '1'}, timeout=600)
        return rc, out

    def run(self, e):
        res = dict(id=e['id'], group=e['group'], file=e['file'], desc=e['desc'],
                   preserving=bool(e.get('preserving')), kind=e.get('kind', ''))
        ps = parts_of(e)
        files = sorted(set(p['file'] for p in ps))
        try:
            self.restore(files)
            try:
                for p in ps:
                    if p.get('create'):
                        with open(os.path.join(self.repo, p['file']), 'w', encoding='utf-8') as fh:
                            fh.write(p['new'])
                    else:
                        apply_one(self.repo, p['file'], p['old'], p['new'], p['nth'])
            except ValueError as ex:
                res['outcome'] = 'badedit'; res['detail'] = str(ex)
                return res
            rc, out = self.cargo()
            if rc == 0 and e.get('features'):
                rc, out = self.cargo(e['features'])
            if rc != 0:
                res['outcome'] = 'nocompile'
                res['detail'] = '\n'.join([l for l in out.split('\n') if l.startswith('error')][:3])
                return res
            rc, out = self.translate()
            res['translate_rc'] = rc
            res['translate_out'] = out.strip()[-600:]
            changed, comment_only = [], []
            for f in sorted(set(os.listdir(BASE)) | set(os.listdir(self.gen))):
                a = read(os.path.join(BASE, f)) if os.path.exists(os.path.join(BASE, f)) else ''
                b = read(os.path.join(self.gen, f)) if os.path.exists(os.path.join(self.gen, f)) else ''
                if a != b:
                    if strip_lean_comments(a) == strip_lean_comments(b):
                        comment_only.append(f)
                    else:
                        changed.append(f)
            res['changed'] = changed
            res['comment_only'] = comment_only
            if rc == 3:
                res['outcome'] = 'a'
            elif rc != 0:
                res['outcome'] = 'crash'     # translator crashed (python exception): fails closed, but ugly
            elif changed:
                res['outcome'] = 'b'
                # keep the mutated Gen files for later lake builds
                d = os.path.join(ROOT, 'gen-mut' + TAG, e['id'])
                if os.path.exists(d):
                    shutil.rmtree(d)
                os.makedirs(d)
                for f in changed + comment_only:
                    shutil.copyfile(os.path.join(self.gen, f), os.path.join(d, f))
            elif comment_only:
                res['outcome'] = 'c-comment'
            else:
                res['outcome'] = 'c'
            return res
        finally:
            self.restore(files)


def cmd_run(argv):
    jobs = 4
    only = None
    out = os.path.join(ROOT, 'results.json')
    i = 0
    while i < len(argv):
        if argv[i] == '--jobs': jobs = int(argv[i + 1]); i += 2
        elif argv[i] == '--only': only = argv[i + 1].split(','); i += 2
        elif argv[i] == '--out': out = argv[i + 1]; i += 2
        else: raise SystemExit('unknown arg ' + argv[i])
    cat = json.load(open(CAT))
    ids = [e['id'] for e in cat]
    assert len(ids) == len(set(ids)), 'duplicate ids: %r' % [x for x in ids if ids.count(x) > 1]
    if only:
        cat = [e for e in cat if any(e['id'].startswith(p) for p in only)]
    old = {}
    if os.path.exists(out):
        for r in json.load(open(out)):
            old[r['id']] = r
    workers = [Worker(k) for k in range(jobs)]
    # warm the target dirs sequentially-parallel (first check is the slow one)
    with ThreadPoolExecutor(jobs) as ex:
        list(ex.map(lambda w: w.cargo(), workers))
    free = list(workers)
    import threading
    lock = threading.Lock()

    def task(e):
        with lock:
            w = free.pop()
        try:
            t = time.time()
            r = w.run(e)
            r['secs'] = round(time.time() - t, 1)
            print('%-14s %-10s %s' % (r['id'], r['outcome'], (r.get('changed') or r.get('detail') or '')), flush=True)
            return r
        finally:
            with lock:
                free.append(w)
    with ThreadPoolExecutor(jobs) as ex:
        results = list(ex.map(task, cat))
    for r in results:
        if r['id'] in old and 'build' in old[r['id']] and old[r['id']].get('changed') == r.get('changed'):
            r['build'] = old[r['id']]['build']
        old[r['id']] = r
    order = {e['id']: k for k, e in enumerate(json.load(open(CAT)))}
    allr = sorted(old.values(), key=lambda r: order.get(r['id'], 10 ** 6))
    allr = [r for r in allr if r['id'] in order]
    json.dump(allr, open(out, 'w'), indent=1)
    summary(allr)


def importers():
    """Gen file (basename without .lean) -> the proof modules (Dsi.Props.*, Dsi.Lemmas.*) that import it,
    directly or through other project modules (e.g. Gen.StatsOffsets -> Glue.Stats -> Props.C15)"""
    deps = {}
    root = os.path.join(VERIF, 'lean')
    for d, _, files in os.walk(os.path.join(root, 'Dsi')):
        for f in files:
            if f.endswith('.lean'):
                mod = os.path.relpath(os.path.join(d, f), root)[:-5].replace(os.sep, '.')
                deps[mod] = set(re.findall(r'^import (Dsi\.[\w.]+)', read(os.path.join(d, f)), re.M))
    rev = {}
    for m, ds in deps.items():
        for x in ds:
            rev.setdefault(x, set()).add(m)
    out = {}
    for m in deps:
        if m.startswith('Dsi.Gen.'):
            seen, todo = set(), [m]
            while todo:
                x = todo.pop()
                for y in rev.get(x, ()):
                    if y not in seen and y != 'Dsi.All':
                        seen.add(y)
                        todo.append(y)
            out[m[len('Dsi.Gen.'):]] = sorted(y for y in seen if y.startswith(('Dsi.Props.', 'Dsi.Lemmas.')))
    return out


def direct_importers():
    out = {}
    root = os.path.join(VERIF, 'lean')
    for d, _, files in os.walk(os.path.join(root, 'Dsi')):
        for f in files:
            if f.endswith('.lean'):
                mod = os.path.relpath(os.path.join(d, f), root)[:-5].replace(os.sep, '.')
                if mod == 'Dsi.All':
                    continue
                for mm in re.findall(r'^import Dsi\.Gen\.(\w+)', read(os.path.join(d, f)), re.M):
                    out.setdefault(mm, []).append(mod)
    return out


def cmd_build(ids, out=os.path.join(ROOT, 'results.json')):
    res = json.load(open(out))
    byid = {r['id']: r for r in res}
    imp = importers()
    gen = os.path.join(VERIF, 'lean', 'Dsi', 'Gen')
    for i in ids:
        r = byid[i]
        d = os.path.join(ROOT, 'gen-mut', i)
        if r['outcome'] != 'b' or not os.path.isdir(d):
            print(i, 'not a (b) outcome'); continue
        mods = sorted(set(m for f in r['changed'] for m in imp.get(f[:-5], [])))
        try:
            for f in os.listdir(d):
                shutil.copyfile(os.path.join(d, f), os.path.join(gen, f))
            t = time.time()
            failed, passed = [], []
            log = ''
            # phase 1: the modules importing the changed Gen files directly; phase 2 (only if those still
            # build): every proof module that depends on them through other project modules
            dimp = direct_importers()
            phase1 = sorted(set(m for f in r['changed'] for m in dimp.get(f[:-5], [])))
            phases = [phase1, [m for m in mods if m not in phase1]]
            for ph in phases:
                if not ph:
                    continue
                rc, o = sh('timeout 2400 lake build %s' % ' '.join(ph), cwd=os.path.join(VERIF, 'lean'), timeout=2500)
                if rc != 0:
                    bad = set(re.findall(r'error: (Dsi/[\w/]+)\.lean', o)) | set(re.findall(r'✖ \[\d+/\d+\] Building (Dsi[\w.]+)', o))
                    failed = sorted(set(x.replace('/', '.') for x in bad)) or ['?']
                    log = ' | '.join([l for l in o.split('\n') if 'error' in l][:4])
                    break
                passed += ph
            mods = phase1 + phases[1]
            r['build'] = dict(modules=mods, failed=failed, passed=passed, log=log[-1500:], secs=round(time.time() - t))
            print('%-14s build: failed=%s passed=%s (%ds)' % (i, failed, passed, time.time() - t), flush=True)
        finally:
            for f in os.listdir(d):
                shutil.copyfile(os.path.join(BASE, f), os.path.join(gen, f))
        json.dump(res, open(out, 'w'), indent=1)


def summary(res):
    groups = {}
    for r in res:
        g = groups.setdefault(r['group'], {})
        g[r['outcome']] = g.get(r['outcome'], 0) + 1
    keys = ['nocompile', 'badedit', 'crash', 'a', 'b', 'c-comment', 'c']
    print('%-12s' % 'group' + ''.join('%10s' % k for k in keys))
    tot = {}
    for g in sorted(groups):
        print('%-12s' % g + ''.join('%10d' % groups[g].get(k, 0) for k in keys))
        for k in keys:
            tot[k] = tot.get(k, 0) + groups[g].get(k, 0)
    print('%-12s' % 'TOTAL' + ''.join('%10d' % tot.get(k, 0) for k in keys))
    print('compiled edits:', sum(tot.get(k, 0) for k in ('crash', 'a', 'b', 'c-comment', 'c')))
    print('\nSilent acceptances (c / c-comment) of edits not marked preserving:')
    for r in res:
        if r['outcome'] in ('c', 'c-comment') and not r['preserving']:
            print('  %-14s %-10s %s: %s' % (r['id'], r['outcome'], r['file'], r['desc']))
    print('\n(b) outcomes whose equality modules still BUILD:')
    for r in res:
        if r['outcome'] == 'b' and 'build' in r and not r['build']['failed']:
            print('  %-14s %s: %s  (changed %s; built %s)' % (r['id'], r['file'], r['desc'], r['changed'], r['build']['passed']))
    print('\npreserving edits that were NOT accepted silently (false alarms / refusals):')
    for r in res:
        if r['preserving'] and r['outcome'] not in ('c', 'c-comment'):
            print('  %-14s %-10s %s: %s' % (r['id'], r['outcome'], r['file'], r['desc']))


if __name__ == '__main__':
    if len(sys.argv) < 2:
        raise SystemExit(__doc__)
    if sys.argv[1] == 'run':
        cmd_run(sys.argv[2:])
    elif sys.argv[1] == 'build':
        cmd_build(sys.argv[2:])
    elif sys.argv[1] == 'sample':
        # up to N (b) outcomes per changed Gen file, hand-written edits first, not yet built
        n = int(sys.argv[2]) if len(sys.argv) > 2 else 4
        res = json.load(open(os.path.join(ROOT, 'results.json')))
        per = {}
        pick = []
        for r in sorted(res, key=lambda r: ('-a' in r['id'], r['id'])):
            if r['outcome'] != 'b' or 'build' in r:
                continue
            key = (tuple(r['changed']), r.get('kind', ''))
            k2 = tuple(r['changed'])
            if per.get(k2, 0) >= n or per.get(key, 0) >= 2:
                continue
            per[k2] = per.get(k2, 0) + 1
            per[key] = per.get(key, 0) + 1
            pick.append(r['id'])
        print(' '.join(pick))
    elif sys.argv[1] == 'summary':
        summary(json.load(open(sys.argv[2] if len(sys.argv) > 2 else os.path.join(ROOT, 'results.json'))))
    else:
        raise SystemExit(__doc__)
