#!/usr/bin/env python3
"""Mechanical mutation generator: writes cat/90_auto.py-style entries into auto_catalogue.json
(merged by catalogue_src.py).  Operators are applied on CODE only (comments, strings, doc comments,
`use` lines and the trailing `#[cfg(test)] mod` are masked), at occurrences sampled evenly over each
file, so that every translated source gets a spread of the classic edits.
"""
import json, os, re, sys

REPO = '/repo'
HERE = os.path.dirname(os.path.abspath(__file__))

FILES = {
    'bufw': ['impls/buf_bit_writer.rs'],
    'bufr': ['impls/buf_bit_reader.rs'],
    'bitr': ['impls/bit_reader.rs'],
    'mem': ['impls/mem_word_reader.rs', 'impls/mem_word_writer.rs'],
    'adapter': ['impls/word_adapter.rs'],
    'codes': ['codes/gamma.rs', 'codes/delta.rs', 'codes/zeta.rs', 'codes/omega.rs', 'codes/pi.rs', 'codes/rice.rs',
              'codes/golomb.rs', 'codes/exp_golomb.rs', 'codes/minimal_binary.rs', 'codes/vbyte.rs'],
    'tables': ['codes/gamma_tables.rs', 'codes/delta_tables.rs', 'codes/zeta_tables.rs'],
    'params': ['codes/params.rs'],
    'zigzag': ['codes/mod.rs'],
    'traits': ['traits/bits.rs', 'traits/endianness.rs'],
    'dispatch': ['dispatch/static.rs', 'dispatch/dynamic.rs', 'dispatch/factory.rs', 'dispatch/codes.rs'],
    'count': ['utils/count.rs'],
    'dbg': ['utils/dbg_codes.rs'],
    'stats': ['utils/stats.rs'],
    'findchange': ['utils/find_change.rs'],
}

# (name, regex on masked code, replacement (may use groups), kind)
OPS = [
    ('lt->le', r' < ', ' <= ', 'cmp'),
    ('le->lt', r' <= ', ' < ', 'cmp'),
    ('gt->ge', r' > ', ' >= ', 'cmp'),
    ('ge->gt', r' >= ', ' > ', 'cmp'),
    ('eq->ne', r' == ', ' != ', 'cmp'),
    ('ne->eq', r' != ', ' == ', 'cmp'),
    ('plus1->plus2', r' \+ 1\b', ' + 2', 'const'),
    ('minus1->minus2', r' - 1\b', ' - 2', 'const'),
    ('plus->minus', r' \+ ', ' - ', 'arith'),
    ('minus->plus', r' - ', ' + ', 'arith'),
    ('shl->shr', r' << ', ' >> ', 'shift'),
    ('shr->shl', r' >> ', ' << ', 'shift'),
    ('shl=->shr=', r' <<= ', ' >>= ', 'shift'),
    ('shr=->shl=', r' >>= ', ' <<= ', 'shift'),
    ('or->and', r' \| ', ' & ', 'bitop'),
    ('and->or', r'(?<=[\w)]) & (?=[\w(!])', ' | ', 'bitop'),
    ('or=->and=', r' \|= ', ' &= ', 'bitop'),
    ('to_be->to_le', r'\.to_be\(\)', '.to_le()', 'endian'),
    ('to_le->to_be', r'\.to_le\(\)', '.to_be()', 'endian'),
    ('as_u64->as_u32_u64', r' as u64\b', ' as u32 as u64', 'cast'),
    ('as_usize->as_u8_usize', r' as usize\b', ' as u8 as usize', 'cast'),
    ('as_u32->as_u8_u32', r' as u32\b', ' as u8 as u32', 'cast'),
    ('lit+1', r'(?<![\w.#\[])(\d+)(?![\w.\]])', lambda m: str(int(m.group(1)) + 1), 'const'),
    ('true->false', r'\btrue\b', 'false', 'const'),
    ('false->true', r'\bfalse\b', 'true', 'const'),
    ('and&&->||', r' && ', ' || ', 'bool'),
    ('drop-stmt', r'(?m)^(\s+)(self\.[^\n;{}]*;|[a-z_]+ [-+|&<>]*= [^\n;{}]*;)\n', r'', 'drop'),
    ('dup-stmt', r'(?m)^(\s+)(self\.[^\n;{}=]*\?;|[a-z_]+ [-+<>]+= [^\n;{}]*;)\n', lambda m: m.group(0) + m.group(0), 'dup'),
    ('try->ignore', r'(?m)^(\s+)(self\.[^\n;{}=]*)\?;\n', lambda m: '%slet _ = %s;\n' % (m.group(1), m.group(2)), 'try'),
    ('wrapping_add->+', r'\.wrapping_add\(([^()]*)\)', lambda m: ' + (%s)' % m.group(1), 'wrapping'),
    ('wrapping_sub->-', r'\.wrapping_sub\(([^()]*)\)', lambda m: ' - (%s)' % m.group(1), 'wrapping'),
    ('ilog2->leading', r'\.ilog2\(\)', '.leading_zeros()', 'call'),
    ('leading->trailing', r'\.leading_zeros\(\)', '.trailing_zeros()', 'call'),
    ('trailing->leading', r'\.trailing_zeros\(\)', '.leading_zeros()', 'call'),
    ('min->max', r'\bmin\(', 'max(', 'call'),
    ('dbgassert->assert', r'\bdebug_assert!\(', 'assert!(', 'assert'),
    ('assert->dbgassert', r'(?<!_)\bassert!\(', 'debug_assert!(', 'assert'),
    ('mul->add', r' \* ', ' + ', 'arith'),
    ('div->mul', r' / ', ' * ', 'arith'),
    ('rem->div', r' % ', ' / ', 'arith'),
    ('read_unary->read_bits1', r'\.read_unary\(\)', '.read_bits(1)', 'call'),
    ('write_unary->write_bits', r'\.write_unary\(([^()]*)\)', lambda m: '.write_bits(%s, 1)' % m.group(1), 'call'),
]

PER_OP = int(os.environ.get('AUTOMUT_PER_OP', '2'))


def mask(src):
    """same length as src, with comments / strings / chars replaced by blanks; also blanks `use`
    lines, attribute lines, and everything from a top-level `#[cfg(test)]\nmod` on"""
    out = list(src)
    i, n = 0, len(src)

    def blank(a, b):
        for k in range(a, b):
            if out[k] != '\n':
                out[k] = ' '
    while i < n:
        if src.startswith('//', i):
            j = src.find('\n', i)
            j = n if j < 0 else j
            blank(i, j); i = j; continue
        if src.startswith('/*', i):
            j = src.find('*/', i) + 2
            blank(i, j); i = j; continue
        if src[i] == '"':
            j = i + 1
            while src[j] != '"':
                j += 2 if src[j] == '\\' else 1
            blank(i, j + 1); i = j + 1; continue
        if src[i] == "'":
            m = re.match(r"'(\\.[^']*|[^'\\])'", src[i:])
            if m:
                blank(i, i + len(m.group(0))); i += len(m.group(0)); continue
        i += 1
    s = ''.join(out)
    m = re.search(r'#\[cfg\(test\)\]\s*\n\s*(pub )?mod \w+', s)
    if m:
        s = s[:m.start()] + re.sub(r'[^\n]', ' ', s[m.start():])
    # blank `use ...;`, attributes
    s = re.sub(r'(?m)^\s*(pub )?use [^;]*;', lambda mm: re.sub(r'[^\n]', ' ', mm.group(0)), s)
    s = re.sub(r'(?m)^\s*#!?\[[^\n]*\]\s*$', lambda mm: re.sub(r'[^\n]', ' ', mm.group(0)), s)
    return s


def enclosing_fn(src, pos):
    m = None
    for mm in re.finditer(r'\bfn\s+(\w+)', src[:pos]):
        m = mm
    return m.group(1) if m else '?'


def gen():
    out = []
    for group, files in FILES.items():
        for f in files:
            src = open(os.path.join(REPO, 'src', f), encoding='utf-8').read()
            ms = mask(src)
            is_table = f.endswith('_tables.rs')
            for name, rx, rep, kind in OPS:
                hits = list(re.finditer(rx, ms))
                if is_table:
                    # only the functions at the top and the first few constants (arrays are huge)
                    hits = [h for h in hits if ms.count('\n', 0, h.start()) < 140]
                if not hits:
                    continue
                k = min(PER_OP, len(hits))
                if name == 'lit+1':
                    k = min(PER_OP * 2, len(hits))
                picks = [hits[(2 * j + 1) * len(hits) // (2 * k)] for j in range(k)]
                seen = set()
                for h in picks:
                    if h.start() in seen:
                        continue
                    seen.add(h.start())
                    a, b = h.start(), h.end()
                    new_piece = h.expand(rep) if isinstance(rep, str) else rep(h)
                    # unique context: extend to whole lines, then grow until unique
                    la = src.rfind('\n', 0, a) + 1
                    lb = src.find('\n', b)
                    lb = len(src) if lb < 0 else lb + 1
                    while src.count(src[la:lb]) > 1 and (la > 0 or lb < len(src)):
                        if la > 0:
                            la = src.rfind('\n', 0, la - 1) + 1
                        nb = src.find('\n', lb)
                        lb = len(src) if nb < 0 else nb + 1
                    old = src[la:lb]
                    new = src[la:a] + new_piece + src[b:lb]
                    if old == new:
                        continue
                    line = src.count('\n', 0, a) + 1
                    out.append(dict(group=group, file='src/' + f, old=old, new=new, kind=kind,
                                    desc='auto %s at line %d (fn %s): `%s`' % (name, line, enclosing_fn(src, a), src[src.rfind('\n', 0, a) + 1:src.find('\n', a)].strip()[:70])))
    return out


if __name__ == '__main__':
    muts = gen()
    json.dump(muts, open(os.path.join(HERE, 'auto_catalogue.json'), 'w'), indent=1)
    by = {}
    for m in muts:
        by[m['group']] = by.get(m['group'], 0) + 1
    print(len(muts), by)
