#!/usr/bin/env python3
"""Source of the edit catalogue: `python3 catalogue_src.py` writes catalogue.json.

Each entry: group (translator family), file, old, new, desc; optional nth (1-based occurrence of
`old`, default: must be unique), more (further (file, old, new, nth) parts of the same edit),
preserving (True for control edits that do not change the semantics), features (an extra cargo
feature set the edit must also compile with), kind (taxonomy label).
"""
import json, os

CAT = []
_cnt = {}


def E(group, file, old, new, desc, kind='', nth=None, more=None, preserving=False, features=None):
    _cnt[group] = _cnt.get(group, 0) + 1
    e = dict(id='%s-%03d' % (group, _cnt[group]), group=group, file='src/' + file, old=old, new=new, desc=desc, kind=kind)
    if nth is not None:
        e['nth'] = nth
    if more:
        e['more'] = [dict(file='src/' + m[0], old=m[1], new=m[2], **({'nth': m[3]} if len(m) > 3 and m[3] != 'create' else {}),
                          **({'create': True} if len(m) > 3 and m[3] == 'create' else {})) for m in more]
    if preserving:
        e['preserving'] = True
    if features:
        e['features'] = features
    CAT.append(e)


here = os.path.dirname(os.path.abspath(__file__))
for f in sorted(os.listdir(os.path.join(here, 'cat'))):
    if f.endswith('.py'):
        exec(compile(open(os.path.join(here, 'cat', f)).read(), f, 'exec'))

# mechanically generated mutations (automut.py)
ap = os.path.join(here, 'auto_catalogue.json')
if os.path.exists(ap):
    ac = {}
    for m in json.load(open(ap)):
        ac[m['group']] = ac.get(m['group'], 0) + 1
        m['id'] = '%s-a%03d' % (m['group'], ac[m['group']])
        CAT.append(m)

# coverage probe (unimpl.py): every fn body replaced by unimplemented!()
up = os.path.join(here, 'unimpl_catalogue.json')
if os.path.exists(up):
    CAT.extend(json.load(open(up)))

json.dump(CAT, open(os.path.join(here, 'catalogue.json'), 'w'), indent=1)
print('catalogue: %d edits in %d groups' % (len(CAT), len(_cnt)))
