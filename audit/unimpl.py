#!/usr/bin/env python3
"""Coverage probe: for every non-test fn with a body in the translated sources, one edit that replaces
the body by `unimplemented!()`.  A (c) outcome means that no translator reads that function."""
import json, os, re, sys
sys.path.insert(0, '/tmp/ag/audit/verif/tools')
import automut
from rstok import tokenize
REPO = '/repo'
out = []
for group, files in automut.FILES.items():
    for f in files:
        src = open(os.path.join(REPO, 'src', f), encoding='utf-8').read()
        ms = automut.mask(src)
        for m in re.finditer(r'\bfn\s+(\w+)', ms):
            name = m.group(1)
            # find the body: first `{` at paren/angle depth 0 after the name, before a `;`
            i = m.end(); par = 0; ang = 0; body = None
            while i < len(ms):
                c = ms[i]
                if c in '([': par += 1
                elif c in ')]': par -= 1
                elif c == '<': ang += 1
                elif c == '>' and ms[i-1] != '-' and ms[i-1] != '=': ang = max(0, ang - 1)
                elif c == ';' and par == 0: break
                elif c == '{' and par == 0 and ang == 0: body = i; break
                i += 1
            if body is None:
                continue
            depth = 0; j = body
            while True:
                if ms[j] == '{': depth += 1
                elif ms[j] == '}':
                    depth -= 1
                    if depth == 0: break
                j += 1
            # unique context: from line start of `fn` to the end of the body
            la = src.rfind('\n', 0, m.start()) + 1
            old = src[la:j + 1]
            while src.count(old) > 1 and la > 0:
                la = src.rfind('\n', 0, la - 1) + 1
                old = src[la:j + 1]
            new = src[la:body] + '{\n        unimplemented!()\n    }'
            line = src.count('\n', 0, m.start()) + 1
            # enclosing impl/trait header (for the report)
            hdr = ''
            for mm in re.finditer(r'(?m)^(?:pub )?(?:unsafe )?(impl|trait)\b[^{;]*', ms[:m.start()]):
                hdr = ' '.join(mm.group(0).split())[:90]
            out.append(dict(group=group, file='src/' + f, old=old, new=new, kind='unimplemented',
                            desc='body of fn %s (line %d; %s) replaced by unimplemented!()' % (name, line, hdr)))
cnt = {}
for e in out:
    cnt[e['group']] = cnt.get(e['group'], 0) + 1
    e['id'] = '%s-u%03d' % (e['group'], cnt[e['group']])
json.dump(out, open('/tmp/ag/audit/unimpl_catalogue.json', 'w'), indent=1)
print(len(out), cnt)
