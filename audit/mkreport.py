#!/usr/bin/env python3
"""Writes REPORT.md from results.json (pre-fix translators) and results_fixed.json (fixed translators)."""
import json, collections, os
ROOT = '/tmp/ag/audit'
pre = json.load(open(ROOT + '/results.json'))
post = json.load(open(ROOT + '/results_fixed.json'))
P = {x['id']: x for x in pre}
Q = {x['id']: x for x in post}
cat = json.load(open(ROOT + '/catalogue.json'))

GROUPS = {
    'bufw': 'translate_bufw / translate_io / translate_teardown (impls/buf_bit_writer.rs)',
    'bufr': 'translate_bufr / translate_copy / translate_io / translate_teardown / translate_checktables (impls/buf_bit_reader.rs)',
    'bitr': 'translate_bitr (impls/bit_reader.rs)',
    'mem': 'translate_mem / translate_teardown (impls/mem_word_reader.rs, mem_word_writer.rs)',
    'adapter': 'translate_adapter (impls/word_adapter.rs)',
    'codes': 'translate_len / translate_codes2 / translate_vbyteio (codes/{gamma,delta,zeta,omega,pi,rice,golomb,exp_golomb,minimal_binary,vbyte}.rs)',
    'tables': 'translate.py tables + translate_codes2 table fns (codes/*_tables.rs)',
    'params': 'translate.py gen_params (codes/params.rs)',
    'zigzag': 'translate_zigzag (codes/mod.rs)',
    'traits': 'translate_copy defaults / translate_checktables / translate_endian (traits/bits.rs, traits/endianness.rs)',
    'dispatch': 'translate_dispatch (dispatch/{static,dynamic,factory,codes}.rs)',
    'count': 'translate_count / translate_teardown (utils/count.rs)',
    'dbg': 'translate_dbg (utils/dbg_codes.rs)',
    'stats': 'translate_stats / translate_statsbodies (utils/stats.rs)',
    'findchange': 'translate_findchange (utils/find_change.rs)',
    'modules': 'all translators (mod.rs / lib.rs: which file is compiled)',
}
KEYS = ['a', 'b', 'c-comment', 'c', 'nocompile']


def table(res):
    g = collections.OrderedDict()
    for k in GROUPS:
        g[k] = collections.Counter()
    for x in res:
        g[x['group']][x['outcome']] += 1
    out = ['| group (translator; sources) | compiled | (a) refused | (b) Gen differs | (c) comment-only | (c) identical | did not compile |',
           '|---|---:|---:|---:|---:|---:|---:|']
    tot = collections.Counter()
    for k, c in g.items():
        comp = c['a'] + c['b'] + c['c'] + c['c-comment'] + c['crash']
        out.append('| `%s` — %s | %d | %d | %d | %d | %d | %d |' % (k, GROUPS[k], comp, c['a'], c['b'], c['c-comment'], c['c'], c['nocompile']))
        tot.update(c)
    comp = tot['a'] + tot['b'] + tot['c'] + tot['c-comment'] + tot['crash']
    out.append('| **total** | **%d** | **%d** | **%d** | **%d** | **%d** | **%d** |' % (comp, tot['a'], tot['b'], tot['c-comment'], tot['c'], tot['nocompile']))
    return '\n'.join(out), tot


def ids(l):
    return ', '.join('`%s`' % i for i in l)


def row(i):
    x = P[i]
    return '`%s` %s — %s — pre-fix **(%s)**, with the fixes **(%s)**' % (i, x['file'], x['desc'], x['outcome'], Q[i]['outcome'])


# ----- verdicts for the silent acceptances that remain after the fixes
VERDICT = {}
for x in post:
    if x['outcome'] in ('c', 'c-comment') and not x.get('preserving'):
        d = x['desc']
        i = x['id']
        if 'as_u64->as_u32_u64' in d or 'as_usize->as_u8_usize' in d:
            VERDICT[i] = 'semantics-preserving: the cast operand is already a u8/u16/u32 (`leading_zeros()`, a table entry, a byte), so the inserted narrowing is the identity'
        elif i in ('codes-a016', 'codes-a042'):
            VERDICT[i] = 'platform assumption: the edited statement is under `#[cfg(target_arch = "arm")]`; the translators evaluate cfgs for a non-arm target (documented in translate_len.py)'
        elif i == 'findchange-a009':
            VERDICT[i] = 'semantics-preserving: the edit is inside the *message arguments* of a `debug_assert!`'
        elif i == 'bufr-024':
            VERDICT[i] = 'outside the model by design: `u64` `-` and `wrapping_sub` are both `BitVec` subtraction (debug-build overflow panics are not modelled; here `word_pos*BITS >= bits_in_buffer` is an invariant)'
        elif i.startswith('dbg-'):
            VERDICT[i] = 'outside the model by design: the text printed by the `Dbg*` wrappers on stderr is not modelled (C14 only claims transparency)'
        elif i in ('traits-010', 'traits-u001', 'traits-u002', 'dispatch-u037'):
            VERDICT[i] = 'outside the model: `Display` / `Error::source` of the error types (messages)'
        else:
            VERDICT[i] = '?'

tp, totp = table(pre)
tq, totq = table(post)
n_cat = len(cat)
comp = totp['a'] + totp['b'] + totp['c'] + totp['c-comment']
silent_pre = [x for x in pre if x['outcome'] in ('c', 'c-comment') and not x.get('preserving')]
silent_post = [x for x in post if x['outcome'] in ('c', 'c-comment') and not x.get('preserving')]
b_built = [x for x in pre if x['outcome'] == 'b' and 'build' in x]
b_pass = [x for x in b_built if not x['build']['failed']]
kinds = collections.Counter((x.get('kind') or 'auto') for x in pre if x['outcome'] not in ('nocompile', 'badedit'))

FINDINGS = open(ROOT + '/findings.md').read()

out = []
w = out.append
w('# Audit of the Rust→Lean translators (`tools/translate*.py`) — agent `audit`\n')
w('Everything is reproducible from `/tmp/ag/audit`: `audit.py` (harness), `catalogue.json` (the %d edits; sources in `cat/*.py`, '
  '`automut.py`, `unimpl.py`, assembled by `catalogue_src.py`), `results.json` (outcomes with the translators **as found**, kept in '
  '`tools-orig/`), `results_fixed.json` (outcomes with the translators of `verif/tools` **after the fixes**).  '
  'See §6 for the commands.\n' % n_cat)
w('## 1. Catalogue and outcome counts\n')
w('%d single edits of the translated Rust sources; **%d compile** (`cargo check --offline --lib`, plus `--features checks` where the edit is inside '
  'a `checks` block); the others are not counted.  Three layers:\n' % (n_cat, comp))
w('* %d hand-written edits (`cat/01..08*.py`) covering every kind asked for: casts, `wrapping_*/checked_*/saturating_*`, comparison flips, ±1, swapped '
  'operands / branches / arguments, constants and const-generic defaults, `& | ^`, `<< >>`, rotate vs shift, `to_be/to_le`, dropped / duplicated / '
  'reordered statements, `?` removed, early `return`, loop bounds, `while`→`if`, changed callee, `let` type annotations, cfg / attribute changes, '
  '`debug_assert!`↔`assert!`, match-arm order and guards, shadowing, macros, trait-default overrides, second impl blocks, helpers, `unsafe`, closures, '
  'module mounting;' % sum(1 for e in cat if '-a' not in e['id'] and '-u' not in e['id']))
w('* %d mechanical mutations (`automut.py`: 40 operators sampled evenly over each file);' % sum(1 for e in cat if '-a' in e['id']))
w('* %d coverage probes (`unimpl.py`: the body of *every* non-test `fn` of the translated files replaced by `unimplemented!()` — a (c) outcome '
  'means no translator reads that function).\n' % sum(1 for e in cat if '-u' in e['id']))
w('Kinds (compiled edits): ' + ', '.join('%s %d' % kv for kv in sorted(kinds.items(), key=lambda t: -t[1])) + '.\n')
w('Outcome classes: **(a)** the translator refuses (exit 3, stub file); **(b)** the generated Lean *code* differs; **(c) comment-only**: the generated '
  'files differ only in Lean comments / doc strings (which no proof can notice); **(c) identical**: byte-identical `lean/Dsi/Gen`.\n')
w('### 1.1 Translators as found\n')
w(tp + '\n')
w('Of the %d (c) outcomes, %d are of edits that are *not* semantics-preserving controls: these are the silent acceptances analysed in §2 '
  '(%d remain after the fixes, all classified in §4).\n' % (totp['c'] + totp['c-comment'], len(silent_pre), len(silent_post)))
w('### 1.2 With the fixes of §3 (same catalogue)\n')
w(tq + '\n')
tr = collections.Counter((P[i]['outcome'], Q[i]['outcome']) for i in P)
w('Transitions (as found → fixed): ' + ', '.join('%s→%s: %d' % (a, b, n) for (a, b), n in sorted(tr.items())) +
  '.  No edit moved from (a)/(b) to (c).  All 8 harmless controls added at the end (`kind = control`: renamed local, reordered impl blocks, changed '
  'messages, `#[inline]`, lint attributes, comments) are accepted before and after.\n')
w('### 1.3 (b) outcomes: do the equality modules fail?\n')
w('Not a spot check: **all %d** (b) outcomes were built (`audit.py build`: the mutated `Gen` files are copied into the tree, first the modules importing '
  'them directly, then — if those still build — every `Dsi.Props.*` / `Dsi.Lemmas.*` module depending on them transitively).  **%d fail** as they should; '
  '**%d still build**:\n' % (len(b_built), len(b_built) - len(b_pass), len(b_pass)))
for x in b_pass:
    w('* `%s` %s — %s%s' % (x['id'], x['file'], x['desc'], '  *(control: semantics-preserving)*' if x.get('preserving') else ''))
w('\nVerdicts on these: see finding F11 (`PartialEq`) and §4.2 (the rest are semantics-preserving in the modelled domain or configuration by design).\n')
w(FINDINGS)
w('\n## 4. What remains accepted silently after the fixes, and why that is acceptable\n')
w('### 4.1 (c) outcomes of non-control edits (%d)\n' % len(silent_post))
for x in silent_post:
    w('* `%s` %s — %s — **%s**' % (x['id'], x['file'], x['desc'], VERDICT.get(x['id'], '?')))
w('\nThe other (c) outcomes (%d) are edits marked as controls: test-only code (`#[cfg(test)]` functions, not compiled into the library), and the '
  'harmless controls.\n' % (totq['c'] + totq['c-comment'] - len(silent_post)))
w(open(ROOT + '/tail.md').read())
open(ROOT + '/REPORT.md', 'w').write('\n'.join(out))
print('REPORT.md written: %d lines' % len('\n'.join(out).split('\n')))
print('unclassified:', [i for i, v in VERDICT.items() if v == '?'])
